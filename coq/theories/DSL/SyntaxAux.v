(** DSL/SyntaxAux.v - helpers on the source syntax (DSL/Syntax.v). *)
From Coq Require Import String List ZArith.
From PV.DSL Require Import Syntax.
Import ListNotations.
Set Implicit Arguments.

(** a string literal in argument position is a SERIES argument ([_FunctionTransformer] passes
    [which["s"]]) *)
Definition arg_series (a : arg) : option string :=
  match a with
  | ArgSeries s => Some s
  | ArgExpr (Lit s) => Some s
  | ArgExpr _ => None
  end.

(** induction principle for the nested type [expr] *)
Section ExprInd.
  Variable P : expr -> Prop.
  Hypothesis HLit : forall s, P (Lit s).
  Hypothesis HAdj : forall s, P (Adj s).
  Hypothesis HZero : P EZero.
  Hypothesis HNeg : forall a, P a -> P (Neg a).
  Hypothesis HAdd : forall a b, P a -> P b -> P (Add a b).
  Hypothesis HSub : forall a b, P a -> P b -> P (Sub a b).
  Hypothesis HDiv : forall a k, P a -> P (DivInt a k).
  Definition argP (a : arg) : Prop := match a with ArgSeries _ => True | ArgExpr e => P e end.
  Hypothesis HCall : forall f args, Forall argP args -> P (Call f args).
  Hypothesis HIf : forall c a b, P a -> P b -> P (IfFlag c a b).

  Fixpoint expr_ind' (e : expr) : P e :=
    match e with
    | Lit s => HLit s
    | Adj s => HAdj s
    | EZero => HZero
    | Neg a => HNeg (expr_ind' a)
    | Add a b => HAdd (expr_ind' a) (expr_ind' b)
    | Sub a b => HSub (expr_ind' a) (expr_ind' b)
    | DivInt a k => HDiv k (expr_ind' a)
    | Call f args =>
        HCall f
          ((fix go (l : list arg) : Forall argP l :=
              match l with
              | [] => Forall_nil argP
              | a :: r =>
                  @Forall_cons arg argP a r
                    (match a return argP a with
                     | ArgSeries _ => I
                     | ArgExpr e => expr_ind' e
                     end) (go r)
              end) args)
    | IfFlag c a b => HIf c (expr_ind' a) (expr_ind' b)
    end.
End ExprInd.

