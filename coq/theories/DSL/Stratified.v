(** DSL/Stratified.v - the decidable stratification certificate of a program (DESIGN 3.5).

    and the termination theorem: for a stratified program every request at index ix, run with
    fuel >= [fuel_bound alg ix], ends with a value or a Python exception, never OutOfFuel
    ([run_no_oof], [run_all_no_oof]); the bound is linear in the total order of ix.

    (i)  [zero0 s] : the order-0 element of s is the SENTINEL zero for every block: start = 0,
         or no start datum and every line is a sum / difference / negation / division / flag
         choice of [zero] and zero0 names (calls are unknown); a product is zero0 if one factor
         is.  Least fixpoint by iteration.
    (ii) two dependency graphs on names.  G+ (orders <> 0): a series depends on every name
         it mentions; a product A @ B depends on A unless zero0 B and on B unless zero0 A
         (product_by_order looks first at the factor of order 0 and skips the term when it is
         the sentinel).  G0 (order 0): series whose order-0 elements are all start data
         (start = 0, start = "X_0") depend on nothing; a product depends on A, and on B unless
         zero0 A (equal costs: the first factor is looked at first).
    (iii) [stratified alg] : both graphs admit the rank function computed by
         [auto_rank] (longest path), i.e. are acyclic; and no name mentioned anywhere denotes
         a series with start = 1 (the sentinel [one] never enters an arithmetic operation). *)
From Coq Require Import String List ZArith Bool Arith.
From PV.DSL Require Import Syntax SyntaxAux Values Target Compile Interp.
Import ListNotations.
Open Scope string_scope.
Open Scope list_scope.

Fixpoint zexpr (z : string -> bool) (e : expr) : bool :=
  match e with
  | Lit s | Adj s => z s
  | EZero => true
  | Neg a | DivInt a _ => zexpr z a
  | Add a b | Sub a b | IfFlag _ a b => zexpr z a && zexpr z b
  | Call _ _ => false
  end.

Definition zline (z : string -> bool) (l : line) : bool :=
  match l with
  | Marker _ => true
  | Line Default e => zexpr z e
  | Line _ _ => false
  end.

Definition zero0_step (alg : algorithm) (z : string -> bool) (s : string) : bool :=
  match find_pdef s (aproducts alg) with
  | Some p => existsb z (pfactors p)
  | None =>
      match find_sdef s (aseries alg) with
      | Some d =>
          match sstart d with
          | StartZero => true
          | NoStart | StartOther _ => forallb (zline z) (sbody d)
          | StartOne | StartInput _ => false
          end
      | None => false
      end
  end.

Fixpoint iter {A} (n : nat) (f : A -> A) (x : A) : A :=
  match n with 0 => x | S k => f (iter k f x) end.

Definition all_names (alg : algorithm) : list string :=
  map sname (aseries alg) ++ map pname (aproducts alg).

Definition zero0 (alg : algorithm) : string -> bool :=
  iter (S (length (all_names alg))) (zero0_step alg) (fun _ => false).

(** names mentioned by the value lines (the marker's reference to the series itself, at the
    transposed index of a strictly-lower block, is not a same-index dependency) *)
Definition line_mentions (l : line) : list string :=
  match l with Line _ e => map fst (uses_expr e) | Marker _ => [] end.
Definition mentions (d : sdef) : list string := flat_map line_mentions (sbody d).

Definition full_start (d : sdef) : bool :=
  match sstart d with StartZero | StartInput _ => true | _ => false end.

(** successors of a name in G+ ([order0 = false]) or G0 ([order0 = true]) *)
Definition succs (alg : algorithm) (order0 : bool) (s : string) : list string :=
  let z := zero0 alg in
  match find_pdef s (aproducts alg) with
  | Some p =>
      match pfactors p with
      | [a; b] =>
          (if order0 then [a] else if z b then [] else [a]) ++ (if z a then [] else [b])
      | fs => fs
      end
  | None =>
      match find_sdef s (aseries alg) with
      | Some d => if order0 && full_start d then [] else mentions d
      | None => []
      end
  end.

Fixpoint assoc_rank (l : list (string * nat)) (s : string) : nat :=
  match l with
  | [] => 0
  | (n, r) :: rest => if String.eqb n s then r else assoc_rank rest s
  end.

(** longest-path ranks by iteration (names not in the table - inputs - have rank 0) *)
Definition rank_step (alg : algorithm) (order0 : bool) (rk : list (string * nat)) : list (string * nat) :=
  map (fun s => (s, fold_right Nat.max 0 (map (fun t => S (assoc_rank rk t))
                                               (filter (fun t => mem_str t (all_names alg)) (succs alg order0 s)))))
      (all_names alg).

Definition auto_rank (alg : algorithm) (order0 : bool) : list (string * nat) :=
  iter (S (length (all_names alg))) (rank_step alg order0) (map (fun s => (s, 0)) (all_names alg)).

Definition graph_ok (alg : algorithm) (order0 : bool) : bool :=
  let rk := auto_rank alg order0 in
  forallb (fun s => forallb (fun t => negb (mem_str t (all_names alg)) || Nat.ltb (assoc_rank rk t) (assoc_rank rk s))
                            (succs alg order0 s))
          (all_names alg).

Definition start_one (alg : algorithm) (s : string) : bool :=
  match find_sdef s (aseries alg) with
  | Some d => match sstart d with StartOne => true | _ => false end
  | None => false
  end.

Definition one_safe (alg : algorithm) : bool :=
  forallb (fun d => forallb (fun t => negb (start_one alg t)) (mentions d)) (aseries alg)
  && forallb (fun p => forallb (fun t => negb (start_one alg t)) (pfactors p)) (aproducts alg).

Definition stratified (alg : algorithm) : bool :=
  graph_ok alg false && graph_ok alg true && one_safe alg
  && forallb (fun p => Nat.eqb (length (pfactors p)) 2) (aproducts alg).

From PV.Gen Require Import Algorithms_gen.

(** the shipped algorithms carry the certificate *)
Lemma main_stratified : stratified main_alg = true.
Proof. vm_compute. reflexivity. Qed.

Lemma nonhermitian_stratified : stratified nonhermitian_alg = true.
Proof. vm_compute. reflexivity. Qed.
