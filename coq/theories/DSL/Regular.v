(** DSL/Regular.v - the decidable fragment [regular] of the mini-language on which the MODEL
    (Compile/Exec) is claimed to be faithful to the code.  The soundness theorem itself
    (DSL/Main.v) holds for every program; [regular] excludes programs for which
    algorithm_parsing.py does something the model does not reproduce:

    - duplicated series or product names (a later `with` overwrites the dictionary entry but
      the delete table is keyed by name);
    - a series, input or factor name containing "@" that is not a declared product, products
      with fewer than two factors (cauchy_dot_product raises at definition time), factors
      that are neither defined series nor inputs (KeyError at definition time);
    - references to names that are neither defined, nor products, nor inputs (KeyError);
    - an input with the name of a defined series (the definition overwrites the input);
    - start strings "zero" / "identity" (they pick zero_data / identity_data by accident);
    - scope-function names that collide with the names used by the generated code. *)
From Coq Require Import String List ZArith Bool Arith.
From PV.DSL Require Import Syntax SyntaxAux Values Target Compile Interp.
Import ListNotations.
Open Scope string_scope.
Open Scope list_scope.

Fixpoint nodup_str (l : list string) : bool :=
  match l with
  | [] => true
  | x :: r => negb (mem_str x r) && nodup_str r
  end.

Definition reserved : list string :=
  ["_zero_sum"; "_safe_divide"; "Dagger"; "del_"; "zero"; "which"; "series"; "linear_operator_series";
   "use_linear_operator"; "result"; "index"; "series_eval"].

Fixpoint call_names (e : expr) : list string :=
  match e with
  | Lit _ | Adj _ | EZero => []
  | Neg a | DivInt a _ => call_names a
  | Add a b | Sub a b | IfFlag _ a b => call_names a ++ call_names b
  | Call f args =>
      f :: (fix go (l : list arg) : list string :=
              match l with
              | [] => []
              | ArgSeries _ :: r => go r
              | ArgExpr a :: r => call_names a ++ go r
              end) args
  end.

Definition line_calls (l : line) : list string :=
  match l with Line _ e => call_names e | Marker _ => [] end.

Definition start_ok (s : start) : bool :=
  match s with
  | StartOther n => negb (String.eqb n "zero") && negb (String.eqb n "identity")
  | _ => true
  end.

Definition regular (alg : algorithm) (inputs : list string) : bool :=
  let names := map sname (aseries alg) in
  let pnames := map pname (aproducts alg) in
  let known := fun s => mem_str s names || mem_str s pnames || mem_str s inputs in
  nodup_str names && nodup_str pnames && nodup_str inputs
  && forallb (fun s => negb (has_at s)) (names ++ inputs)
  && forallb (fun x => negb (mem_str x names)) inputs
  && forallb (fun p => Nat.leb 2 (length (pfactors p))
                       && forallb (fun f => (mem_str f names || mem_str f inputs)) (pfactors p)) (aproducts alg)
  && forallb (fun d => start_ok (sstart d)
                       && forallb (fun u => known (fst (fst u))) (series_uses d)
                       && forallb (fun l => forallb (fun f => negb (mem_str f reserved)) (line_calls l)) (sbody d))
             (aseries alg)
  && forallb known (aoutputs alg).

Lemma regular_inputs_plain alg inputs :
  regular alg inputs = true -> forall x, In x inputs -> has_at x = false.
Proof.
  unfold regular. intros H x Hx.
  repeat (apply andb_true_iff in H; destruct H as [H ?]).
  match goal with H : forallb (fun s => negb (has_at s)) _ = true |- _ => rewrite forallb_forall in H; specialize (H x) end.
  match goal with H : In x (_ ++ inputs) -> _ |- _ => specialize (H (in_or_app _ _ _ (or_intror Hx))) end.
  now apply negb_true_iff.
Qed.
