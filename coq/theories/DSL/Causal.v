(** DSL/Causal.v - non-interference of the specification: the value of an element at
    multi-order n depends only on the input elements of orders <= n (componentwise). *)
From Coq Require Import String List ZArith Bool Arith Lia.
From PV.DSL Require Import Syntax SyntaxAux Values Target Compile Interp Exec Laws TSem Sound.
Import ListNotations.
Set Implicit Arguments.

Definition set_env V (W : sworld V) (env' : string -> index -> V) : sworld V :=
  {| sw_nb := sw_nb W; sw_np := sw_np W; sw_inputs := sw_inputs W; sw_env := env';
     sw_hasoff := sw_hasoff W; sw_gflag := sw_gflag W; sw_rflag := sw_rflag W;
     sw_access := sw_access W; sw_fn := sw_fn W |}.

Section Cone.
  Variable V : Type.
  Variable O : vops V.
  Variable alg : algorithm.
  Variable W : sworld V.
  Variable env' : string -> index -> V.
  Notation W' := (set_env W env').

  Section Step.
    Variables sub1 sub2 : key -> index -> option V.
    Variable idx : index.
    Hypothesis Hsub : forall k ix', ole (idx_n ix') (idx_n idx) -> sub1 k ix' = sub2 k ix'.
    Hypothesis Henv : forall x, sw_env W x idx = env' x idx.

    Lemma sub_here k : sub1 k idx = sub2 k idx.
    Proof. apply Hsub, ole_refl. Qed.
    Lemma sub_transp k : sub1 k (transp idx) = sub2 k (transp idx).
    Proof. apply Hsub. destruct idx as [[i j] n]. apply ole_refl. Qed.

    Lemma iseries_arg_cone f s : iseries_arg O W sub1 idx f s = iseries_arg O W' sub2 idx f s.
    Proof. unfold iseries_arg. cbn [sw_access set_env]. now rewrite sub_here. Qed.

    Lemma iexpr_cone e : iexpr O W sub1 idx e = iexpr O W' sub2 idx e.
    Proof.
      induction e using expr_ind'; cbn [iexpr].
      - apply sub_here.
      - now rewrite sub_transp.
      - reflexivity.
      - now rewrite IHe.
      - now rewrite IHe1, IHe2.
      - now rewrite IHe1, IHe2.
      - now rewrite IHe.
      - cbn [sw_fn set_env]. f_equal.
        induction H as [|a r Ha Hr IH]; auto.
        rewrite IH. f_equal.
        destruct (arg_series a) as [s|]; [apply iseries_arg_cone|].
        destruct a as [s|e']; [apply iseries_arg_cone | exact Ha].
      - replace (flag_value W' c idx) with (flag_value W c idx) by (destruct c; reflexivity).
        destruct (flag_value W c idx); auto.
    Qed.

    Lemma iwrapped_cone f e : iwrapped O W sub1 idx f e = iwrapped O W' sub2 idx f e.
    Proof.
      unfold iwrapped. cbn [sw_fn set_env]. f_equal.
      destruct e; try apply iexpr_cone. apply iseries_arg_cone.
    Qed.

    Lemma ibody_cone name lines : forall acc, ibody O W sub1 idx name lines acc = ibody O W' sub2 idx name lines acc.
    Proof.
      induction lines as [|l r IH]; intros acc; cbn [ibody]; auto.
      destruct l as [c e|h].
      - destruct c.
        + rewrite iexpr_cone. destruct (iexpr O W' sub2 idx e); cbn; auto.
        + destruct (Nat.eqb (idx_i idx) (idx_j idx)); auto.
          rewrite iwrapped_cone. destruct (iwrapped O W' sub2 idx "diag" e); cbn; auto.
        + destruct (negb (Nat.eqb (idx_i idx) (idx_j idx))).
          * rewrite iexpr_cone. destruct (iexpr O W' sub2 idx e); cbn; auto.
          * cbn [sw_hasoff set_env]. destruct (sw_hasoff W); auto.
            rewrite iwrapped_cone. destruct (iwrapped O W' sub2 idx "offdiag" e); cbn; auto.
      - destruct (Nat.ltb (idx_j idx) (idx_i idx)); auto. now rewrite sub_transp.
    Qed.

    Lemma iprod_loop_cone half k1 k2 l :
      Forall (pair_ok (idx_n idx)) l ->
      forall acc, iprod_loop O sub1 idx half k1 k2 l acc = iprod_loop O sub2 idx half k1 k2 l acc.
    Proof.
      induction 1 as [|[mid m1] r [H1 H2] Hr IH]; intros acc; cbn [iprod_loop]; auto.
      cbn [snd] in H1, H2.
      rewrite (Hsub k1 (idx_i idx, mid, m1)) by exact H1.
      rewrite (Hsub k2 (mid, idx_j idx, lsub (idx_n idx) m1)) by exact H2.
      destruct (half && lex_gt m1 (lsub (idx_n idx) m1)); auto.
      destruct (lazy_term O _ _ _) as [[t|]|]; auto.
      destruct (half && negb (lnat_eqb m1 (lsub (idx_n idx) m1))); auto.
    Qed.

    Lemma rhs_cone k : rhs O alg W sub1 idx k = rhs O alg W' sub2 idx k.
    Proof.
      unfold rhs. cbn [sw_inputs set_env]. destruct k as [s|pn k'].
      - destruct (kind_of alg (sw_inputs W) s) as [|d|p|]; auto.
        + cbn [sw_env set_env]. now rewrite Henv.
        + assert (spec_start O W d idx = spec_start O W' d idx) as ->.
          { unfold spec_start. change (is_start_index W' idx) with (is_start_index W idx).
            destruct (is_start_index W idx); auto. destruct (sstart d); auto.
            cbn [sw_inputs sw_env set_env]. now rewrite Henv. }
          destruct (spec_start O W' d idx); auto. apply ibody_cone.
        + destruct (Nat.leb 2 (length (pfactors p))); auto.
          unfold iprod, iprod_gen. cbn [sw_nb set_env]. apply iprod_loop_cone, pbo_space_ok.
      - destruct (find_pdef pn (aproducts alg)); auto.
        destruct (Nat.leb 2 k' && Nat.ltb k' (length (pfactors p))); auto.
        unfold iprod, iprod_gen. cbn [sw_nb set_env]. apply iprod_loop_cone, pbo_space_ok.
    Qed.
  End Step.

  Theorem interp_cone ix :
    (forall x ix', ole (idx_n ix') (idx_n ix) -> sw_env W x ix' = env' x ix') ->
    forall fuel k, interp O alg W fuel k ix = interp O alg W' fuel k ix.
  Proof.
    intros Henv fuel.
    assert (G : forall k ix', ole (idx_n ix') (idx_n ix) -> interp O alg W fuel k ix' = interp O alg W' fuel k ix').
    { induction fuel as [|f IH]; intros k ix' Hle; cbn [interp]; auto.
      apply rhs_cone.
      - intros k0 ix0 H0. apply IH. eapply ole_trans; eauto.
      - intros x. now apply Henv. }
    intros k. apply G, ole_refl.
  Qed.
End Cone.
