(** Deep embedding of the series mini-language of pymablock/algorithm_parsing.py.
    The terms of this type are GENERATED from /repo/pymablock/algorithms.py by
    tools/translate_algorithms.py on every run (Gen/Algorithms_gen.v). *)
From Coq Require Import String List ZArith.
Import ListNotations.

Inductive flag :=
| FlagGlobal (n : string)          (* e.g. two_block_optimized *)
| FlagRow (n : string).            (* e.g. commuting_blocks[index[0]] *)

Inductive expr :=
| Lit (s : string)                 (* "s" *)
| Adj (s : string)                 (* "s".adj *)
| EZero                            (* zero *)
| Neg (e : expr)
| Add (a b : expr)
| Sub (a b : expr)
| DivInt (e : expr) (k : Z)        (* e / k, k a non-zero integer literal *)
| Call (f : string) (args : list arg)
| IfFlag (c : flag) (a b : expr)   (* a if c else b *)
with arg :=
| ArgSeries (s : string)           (* f("s"): the whole series is passed *)
| ArgExpr (e : expr).

Inductive cond := Default | Diagonal | Offdiagonal.
Inductive herm := Herm | AntiHerm.

Inductive line :=
| Line (c : cond) (e : expr)
| Marker (h : herm).               (* bare `hermitian` / `antihermitian`, position kept *)

Inductive start :=
| NoStart
| StartZero
| StartOne
| StartInput (s : string)          (* start = "s_0" *)
| StartOther (s : string).         (* a start string that is not <input>_0: no start datum, as in the code *)

Record sdef := { sname : string; sstart : start; sbody : list line }.
Record pdef := { pfactors : list string; pherm : bool }.
Record algorithm := { aseries : list sdef; aproducts : list pdef; aoutputs : list string }.

Definition pname (p : pdef) : string := String.concat " @ " (pfactors p).

Fixpoint find_sdef (n : string) (l : list sdef) : option sdef :=
  match l with
  | [] => None
  | d :: r => if String.eqb (sname d) n then Some d else find_sdef n r
  end.

Fixpoint find_pdef (n : string) (l : list pdef) : option pdef :=
  match l with
  | [] => None
  | d :: r => if String.eqb (pname d) n then Some d else find_pdef n r
  end.
