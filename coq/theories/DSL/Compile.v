(** DSL/Compile.v - Gallina transcription of [_parse_algorithm] of
    pymablock/algorithm_parsing.py: [_preprocess_series] (use counting, with the
    [_HermitianTransformer] rewriting of markers into [if lower:] lines),
    [_find_delete_candidates] and [_EvalTransformer] (the four expression transformers
    [_SumTransformer], [_DivideTransformer], [_FunctionTransformer], [_LiteralTransformer]
    are composed into the single structural function [cexpr]; the compile correspondence
    k_compile compares its printed output with the AST the real compiler generates).

    The code modelled is the one AFTER the fix commits 25161f2 and 9197aa4: divisions and
    scope-function calls are rewritten recursively, the [offdiag(...)] copy of an
    offdiagonal line is compiled from its own copy of the source expression. *)
From Coq Require Import String List ZArith Bool Arith Ascii.
From PV.DSL Require Import Syntax SyntaxAux Target.
Import ListNotations.
Open Scope string_scope.
Open Scope list_scope.

Inductive etype := ETDefault | ETDiag | ETOffdiag | ETLower.

Definition etype_eqb (a b : etype) : bool :=
  match a, b with
  | ETDefault, ETDefault | ETDiag, ETDiag | ETOffdiag, ETOffdiag | ETLower, ETLower => true
  | _, _ => false
  end.

Definition etype_of_cond (c : cond) : etype :=
  match c with Default => ETDefault | Diagonal => ETDiag | Offdiagonal => ETOffdiag end.

(** [_EvalType.matches] on the 2x2 index patterns *)
Definition ematches (t : etype) (ij : nat * nat) : bool :=
  match t with
  | ETDefault => true
  | ETDiag => Nat.eqb (fst ij) (snd ij)
  | ETOffdiag => negb (Nat.eqb (fst ij) (snd ij))
  | ETLower => Nat.ltb (snd ij) (fst ij)
  end.

(* ------------------------------------------------------------- _UseCounter *)

Fixpoint uses_expr (e : expr) : list (string * bool) :=
  match e with
  | Lit s => [(s, false)]
  | Adj s => [(s, true)]
  | EZero => []
  | Neg a => uses_expr a
  | Add a b => uses_expr a ++ uses_expr b
  | Sub a b => uses_expr a ++ uses_expr b
  | DivInt a _ => uses_expr a
  | Call _ args =>
      (fix go (l : list arg) : list (string * bool) :=
         match l with
         | [] => []
         | ArgSeries s :: r => (s, false) :: go r
         | ArgExpr a :: r => uses_expr a ++ go r
         end) args
  | IfFlag _ a b => uses_expr a ++ uses_expr b
  end.

Definition use := (string * bool * etype)%type.

(** [series.uses] of [_preprocess_series]; a marker has become
    [if lower: (-)"name".adj] by [_HermitianTransformer]. *)
Definition line_uses (name : string) (l : line) : list use :=
  match l with
  | Marker _ => [(name, true, ETLower)]
  | Line c e => map (fun u => (fst u, snd u, etype_of_cond c)) (uses_expr e)
  end.

Definition series_uses (d : sdef) : list use := flat_map (line_uses (sname d)) (sbody d).

(* ---------------------------------------------------- _find_delete_candidates *)

Fixpoint has_at (s : string) : bool :=
  match s with
  | EmptyString => false
  | String c r => Ascii.eqb c "@"%char || has_at r
  end.

Definition mem_str (s : string) (l : list string) : bool := existsb (String.eqb s) l.

Definition computed_names (alg : algorithm) : list string := map sname (aseries alg).
Definition product_factor_names (alg : algorithm) : list string := flat_map pfactors (aproducts alg).

(** [inputs] of [_find_delete_candidates]: used names without "@" that are not computed *)
Definition syntactic_inputs (alg : algorithm) : list string :=
  filter (fun t => negb (has_at t) && negb (mem_str t (computed_names alg)))
         (map (fun u => fst (fst u)) (flat_map series_uses (aseries alg))).

Definition delete_blacklist (alg : algorithm) : list string :=
  product_factor_names alg ++ syntactic_inputs alg ++ aoutputs alg.

Definition ij_eqb (a b : nat * nat) : bool := Nat.eqb (fst a) (fst b) && Nat.eqb (snd a) (snd b).

(** one recorded access: ((term, 2x2 index), (origin, adjoint, eval_type)) - newest first *)
Definition access := ((string * (nat * nat)) * (string * bool * etype))%type.

Definition acc_key_eqb (a b : string * (nat * nat)) : bool :=
  String.eqb (fst a) (fst b) && ij_eqb (snd a) (snd b).

Fixpoint scan_uses (origin : string) (bl : list string) (us : list use)
         (remaining indices : list (nat * nat)) (last : option etype) (acc : list access)
  : list access :=
  match us with
  | [] => acc
  | (term, adjoint, et) :: r =>
      let changed := match last with Some t => negb (etype_eqb t et) | None => true end in
      let indices' := if changed then filter (ematches et) remaining else indices in
      let remaining' :=
        if changed then filter (fun x => negb (existsb (ij_eqb x) indices')) remaining else remaining in
      let acc' :=
        if mem_str term bl then acc
        else fold_left
               (fun a ij =>
                  let ij' := if adjoint then (snd ij, fst ij) else ij in
                  ((term, ij'), (origin, adjoint, et)) :: a)
               indices' acc in
      scan_uses origin bl r remaining' indices' (Some et) acc'
  end.

Definition all_accesses (alg : algorithm) : list access :=
  fold_left
    (fun acc d =>
       scan_uses (sname d) (delete_blacklist alg) (series_uses d)
                 [(0, 0); (0, 1); (1, 0); (1, 1)] [] None acc)
    (aseries alg) [].

Definition count_key (k : string * (nat * nat)) (l : list access) : nat :=
  length (filter (fun a => acc_key_eqb (fst a) k) l).

Definition del_eqb (a b : string * bool * etype) : bool :=
  String.eqb (fst (fst a)) (fst (fst b)) && Bool.eqb (snd (fst a)) (snd (fst b))
  && etype_eqb (snd a) (snd b).

Fixpoint dedup_del (l : list (string * bool * etype)) : list (string * bool * etype) :=
  match l with
  | [] => []
  | x :: r => if existsb (del_eqb x) r then dedup_del r else x :: dedup_del r
  end.

(** [to_delete[origin]] : the set of (term, adjoint, eval_type) *)
Definition to_delete (alg : algorithm) (origin : string) : list (string * bool * etype) :=
  let accs := all_accesses alg in
  dedup_del
    (map (fun a => (fst (fst a), snd (fst (snd a)), snd (snd a)))
         (filter (fun a => Nat.eqb (count_key (fst a) accs) 1
                           && String.eqb (fst (fst (snd a))) origin) accs)).

(* ------------------------------------------------------------ expressions *)

Definition negate (t : texpr) : texpr := match t with TNeg x => x | _ => TNeg t end.
Definition flat (t : texpr) : list texpr := match t with TZeroSum l => l | _ => [t] end.

(** [dg] : the line is a [diagonal] line ([_LiteralTransformer(diagonal=True)]: adjoint
    accesses are not transposed). *)
Fixpoint cexpr (dg : bool) (e : expr) : texpr :=
  match e with
  | Lit s => TGet s false
  | Adj s => TDagger (TGet s (negb dg))
  | EZero => TZero
  | Neg a => TNeg (cexpr dg a)
  | Add a b => TZeroSum (flat (cexpr dg a) ++ flat (cexpr dg b))
  | Sub a b => TZeroSum (flat (cexpr dg a) ++ map negate (flat (cexpr dg b)))
  | DivInt a k => TSafeDiv (cexpr dg a) k
  | Call f args =>
      TCall f ((fix go (l : list arg) : list targ :=
                  match l with
                  | [] => []
                  | a :: r =>
                      match arg_series a with
                      | Some s => TASeries s
                      | None => match a with
                                | ArgExpr e' => TAExpr (cexpr dg e')
                                | ArgSeries s => TASeries s
                                end
                      end :: go r
                  end) args)
  | IfFlag c a b => TIfExp c (cexpr dg a) (cexpr dg b)
  end.

(** the argument of the [diag(...)] / [offdiag(...)] wrapper: a bare string literal is
    passed as the series [which[s]] *)
Definition cwrap_arg (dg : bool) (e : expr) : targ :=
  match e with Lit s => TASeries s | _ => TAExpr (cexpr dg e) end.

(** [result = _zero_sum(result, ...)] *)
Definition ctop (dg : bool) (e : expr) : texpr := TZeroSum (TResult :: flat (cexpr dg e)).

Definition dels (td : list (string * bool * etype)) (et : etype) : list tsimple :=
  map (fun x => TDel (fst (fst x)) (snd (fst x))) (filter (fun x => etype_eqb (snd x) et) td).

Definition cline (name : string) (td : list (string * bool * etype)) (l : line) : list tstmt :=
  match l with
  | Marker h =>
      let t := TDagger (TGet name true) in
      let t := match h with Herm => t | AntiHerm => TNeg t end in
      [TIf TLower (TAssign (TZeroSum [TResult; t]) :: dels td ETLower ++ [TReturn])]
  | Line Default e =>
      map TS (TAssign (ctop false e) :: dels td ETDefault)
  | Line Diagonal e =>
      [TIf TDiag (TAssign (TZeroSum [TResult; TCall "diag" [cwrap_arg true e]]) :: dels td ETDiag)]
  | Line Offdiagonal e =>
      [TIf TOffdiag (TAssign (ctop false e) :: dels td ETOffdiag);
       TIf TOffdiagFn (TAssign (TZeroSum [TResult; TCall "offdiag" [cwrap_arg false e]])
                         :: dels td ETOffdiag)]
  end.

Definition cseries (alg : algorithm) (d : sdef) : list tstmt :=
  flat_map (cline (sname d) (to_delete alg (sname d))) (sbody d).

Definition compile (alg : algorithm) : tprogram :=
  map (fun d => (sname d, cseries alg d)) (aseries alg).

(** the delete-candidate table, printed *)
Definition pr_etype (t : etype) : string :=
  match t with ETDefault => "default" | ETDiag => "diagonal" | ETOffdiag => "offdiagonal" | ETLower => "lower" end.

Definition pr_delete_table (alg : algorithm) : list (string * list string) :=
  map (fun d =>
         (sname d,
          sort_strings (map (fun x : string * bool * etype => ("(" ++ quote (fst (fst x)) ++ " "
                                        ++ (if snd (fst x) then "adj" else "plain") ++ " "
                                        ++ pr_etype (snd x) ++ ")")%string)
                            (to_delete alg (sname d)))))
      (aseries alg).
