(** Naturality of the whole-series semantics: a structure-preserving map between two
    [BlockAlg]s sends solutions of a program to solutions of the same program.

    [phi] need not be injective or surjective; it has to preserve the ring operations, the
    unit, the adjoint, division by integer literals, the block projections, the selection, the
    order-zero coefficient and the half-sum, and to intertwine the row flags and the scope
    functions of the two scopes.  Instances (Series/Symmetry.v, Props/C06, C13, C14, C15):
    relabelling of blocks / permutation of basis states, rotation inside degenerate levels,
    entry-wise complex conjugation, scaling and merging of perturbation parameters, the
    embedding of the explicit eigenbasis computation into the implicit one, projections of a
    direct sum.  Together with uniqueness (Props/C03) this gives equivariance of the outputs. *)
Require Import Ncring Ncring_tac Setoid Morphisms ZArith String List.
From PV.Base Require Import Classes AlgLemmas.
From PV.DSL Require Import Syntax Sem.
Import ListNotations.

Section Natural.
Context {T : Type} {r0 r1 : T} {add mul sub : T -> T -> T} {opp : T -> T} {req : T -> T -> Prop}
        {Ro : @Ring_ops T r0 r1 add mul sub opp req} {Rg : @Ring T r0 r1 add mul sub opp req Ro}
        {BA : BlockAlg T}.
Context {T' : Type} {r0' r1' : T'} {add' mul' sub' : T' -> T' -> T'} {opp' : T' -> T'} {req' : T' -> T' -> Prop}
        {Ro' : @Ring_ops T' r0' r1' add' mul' sub' opp' req'} {Rg' : @Ring T' r0' r1' add' mul' sub' opp' req' Ro'}
        {BA' : BlockAlg T'}.

Variable phi : T -> T'.

Class BAHom : Prop := {
  hom_P : Proper (_==_ ==> _==_) phi;
  hom_zero : phi 0 == 0;
  hom_one : phi 1 == 1;
  hom_add : forall x y, phi (x + y) == phi x + phi y;
  hom_opp : forall x, phi (- x) == - phi x;
  hom_sub : forall x y, phi (x - y) == phi x - phi y;
  hom_mul : forall x y, phi (x * y) == phi x * phi y;
  hom_adj : forall x, phi (adj x) == adj (phi x);
  hom_divz : forall x k, phi (divz x k) == divz (phi x) k;
  hom_Dg : forall x, phi (Dg x) == Dg (phi x);
  hom_Up : forall x, phi (Up x) == Up (phi x);
  hom_Lo : forall x, phi (Lo x) == Lo (phi x);
  hom_Sel : forall x, phi (Sel x) == Sel (phi x);
  hom_Zc : forall x, phi (Zc x) == Zc (phi x);
  hom_hsum : forall x y, phi (hsum x y) == hsum (phi x) (phi y)
}.

Context {HH : BAHom}.
Existing Instance hom_P.

Variable gflag : string -> bool.
Variable rflag : string -> T -> T.
Variable rflag' : string -> T' -> T'.
Variable fenv : string -> list T -> T.
Variable fenv' : string -> list T' -> T'.
Hypothesis rflag_hom : forall n x x', phi x == x' -> phi (rflag n x) == rflag' n x'.
Hypothesis fenv_hom : forall f l l', Forall2 (fun x y => phi x == y) l l' -> phi (fenv f l) == fenv' f l'.

Variable sol : string -> T.
Let sol' (s : string) : T' := phi (sol s).

Lemma den_hom : forall e, phi (den gflag rflag fenv sol e) == den gflag rflag' fenv' sol' e.
Proof.
  fix IH 1. intros e. destruct e as [s|s| |a|a b|a b|a k|f args|c a b]; cbn [den].
  - reflexivity.
  - unfold sol'. apply hom_adj.
  - apply hom_zero.
  - rewrite hom_opp, (IH a). reflexivity.
  - rewrite hom_add, (IH a), (IH b). reflexivity.
  - rewrite hom_sub, (IH a), (IH b). reflexivity.
  - rewrite hom_divz. apply (divz_proper k). apply IH.
  - apply fenv_hom. induction args as [|x args IHa]; cbn [map]. constructor.
    constructor. destruct x as [s|a]. reflexivity. apply IH. exact IHa.
  - destruct c as [n|n].
    + destruct (gflag n); apply IH.
    + rewrite hom_add, hom_sub.
      rewrite (rflag_hom n _ _ (IH a)), (rflag_hom n _ _ (IH b)), (IH b). reflexivity.
Qed.

Lemma Rp_hom x : phi (Rp x) == Rp (phi x).
Proof. unfold Rp. rewrite hom_sub, hom_Sel. reflexivity. Qed.
Lemma Pos_hom x : phi (Pos x) == Pos (phi x).
Proof. unfold Pos. rewrite hom_sub, hom_Zc. reflexivity. Qed.

Lemma line_hom c e : phi (line_den gflag rflag fenv sol c e) == line_den gflag rflag' fenv' sol' c e.
Proof.
  destruct c; cbn [line_den].
  - apply den_hom.
  - rewrite hom_Sel. apply am_P. apply den_hom.
  - rewrite Rp_hom. apply Rp_P. apply den_hom.
Qed.
Lemma lines_hom b : phi (lines_den gflag rflag fenv sol b) == lines_den gflag rflag' fenv' sol' b.
Proof.
  induction b as [|l b IH]; cbn [lines_den]. apply hom_zero.
  destruct l as [c e|h]. rewrite hom_add, line_hom, IH. reflexivity. exact IH.
Qed.
Lemma body_hom s b : phi (body_den gflag rflag fenv sol s b) == body_den gflag rflag' fenv' sol' s b.
Proof.
  unfold body_den. destruct (split_marker b) as [pre [[h post]|]].
  - rewrite !hom_add, hom_Dg, hom_Up, hom_Lo, !hom_add, !lines_hom.
    destruct h.
    + rewrite hom_adj, hom_Up. reflexivity.
    + rewrite hom_opp, hom_adj, hom_Up. reflexivity.
  - apply lines_hom.
Qed.
Lemma start_hom st rhs rhs' : phi rhs == rhs' ->
  phi (with_start sol st rhs) == with_start sol' st rhs'.
Proof.
  intros E. destruct st; cbn [with_start].
  - exact E.
  - rewrite Pos_hom. apply Pos_P. exact E.
  - rewrite hom_add, hom_one, hom_sub, hom_Dg, hom_Zc, E. reflexivity.
  - rewrite hom_add, hom_Zc, Pos_hom. unfold sol'. rewrite E. reflexivity.
  - exact E.
Qed.
Lemma prod_hom fs acc : phi (prod_den sol fs acc) == prod_den sol' fs (phi acc).
Proof.
  revert acc. induction fs as [|f r IH]; intros acc; cbn [prod_den]. reflexivity.
  rewrite IH. unfold sol'.
  assert (E : phi (acc * sol f) == phi acc * phi (sol f)) by apply hom_mul.
  clear IH. revert E. generalize (phi (acc * sol f)) (phi acc * phi (sol f)). intros u v E.
  induction r as [|g r IHr] in u, v, E |- *; cbn [prod_den]. exact E.
  apply IHr. rewrite E. reflexivity.
Qed.
Lemma product_hom p : phi (product_den sol p) == product_den sol' p.
Proof.
  unfold product_den. destruct (pfactors p) as [|f r]. apply hom_one.
  destruct (pherm p).
  - destruct r as [|g [|g2 r2]].
    + rewrite !hom_add, hom_Dg, hom_Up, hom_adj, hom_Up, !prod_hom. reflexivity.
    + rewrite !hom_add, hom_hsum, hom_Up, hom_adj, hom_Up, !prod_hom. reflexivity.
    + rewrite !hom_add, hom_Dg, hom_Up, hom_adj, hom_Up, !prod_hom. reflexivity.
  - apply prod_hom.
Qed.

Theorem natural alg :
  solution gflag rflag fenv sol alg -> solution gflag rflag' fenv' sol' alg.
Proof.
  intros [Hs Hp]. split.
  - induction Hs as [|d l Hd Hl IH]; constructor; [|exact IH].
    unfold sdef_holds in *. unfold sol' at 1. rewrite Hd.
    apply start_hom. apply body_hom.
  - induction Hp as [|p l Hd Hl IH]; constructor; [|exact IH].
    unfold pdef_holds in *. unfold sol' at 1. rewrite Hd. apply product_hom.
Qed.

End Natural.
