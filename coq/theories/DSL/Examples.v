(** DSL/Examples.v - a lawful instance of the coefficient structure (the integers; adjoint =
    identity, division = floor division - the laws ask nothing of division except 0/k = 0)
    and concrete worlds used for the non-vacuity examples of Props/C09..C12: the shipped
    algorithms run on a 2-block, 1-parameter integer Hamiltonian. *)
From Coq Require Import String List ZArith Bool Arith Lia Setoid Morphisms RelationClasses.
From PV.DSL Require Import Syntax SyntaxAux Values Target Compile Interp Exec Laws TSem Sound CompileProps Main Regular.
From PV.Gen Require Import Algorithms_gen.
Import ListNotations.
Open Scope string_scope.

Definition z_ops : vops Z :=
  {| v0 := 0%Z; v1 := 1%Z; vadd := Z.add; vneg := Z.opp; vmul := Z.mul; vadj := fun x => x;
     vdiv := Z.div; vis0 := Z.eqb 0 |}.

Lemma z_laws : vlaws z_ops eq.
Proof.
  split; unfold z_ops; cbn [v0 v1 vadd vneg vmul vadj vdiv vis0];
    try typeclasses eauto; try (repeat intro; subst; reflexivity); try (intros; lia);
    try (intros k; apply Zdiv_0_l); try (intros a H; apply Z.eqb_eq in H; auto).
Qed.

(** scope functions: diag / offdiag = identity, solve_sylvester = multiplication by 3 *)
Definition z_sfn (f : string) (args : list Z) (ix : index) : Z :=
  let x := nth 0 args 0%Z in
  if String.eqb f "solve_sylvester" then (3 * x)%Z else x.

Definition z_fn (f : string) (args : list (sval Z)) (ix : index) : res (sval Z) :=
  match args with
  | [SZero] => Ok SZero
  | _ => Ok (SVal (z_sfn f (map (den z_ops) args) ix))
  end.

(** H_0 = diag(1, 2) (off-diagonal blocks absent), H_1 full, H_2 on the diagonal *)
Definition z_env (s : string) (ix : index) : sval Z :=
  match ix with
  | (i, j, [0]) => if Nat.eqb i j then SVal (Z.of_nat (S i)) else SZero
  | (i, j, [1]) => SVal (Z.of_nat (i + 2 * j + 1))
  | (i, j, [2]) => if Nat.eqb i j then SVal 5%Z else SZero
  | _ => SZero
  end.

Definition z_world (faults : nat -> option exn) : xworld Z :=
  {| xw_nb := 2; xw_np := 1; xw_inputs := ["H"]; xw_env := z_env;
     xw_uselin := fun _ _ => false; xw_hasoff := false;
     xw_gflag := fun n => String.eqb n "two_block_optimized";
     xw_rflag := fun _ _ => true;
     xw_access := fun _ _ => true; xw_fn := z_fn;
     xw_counted := fun f => String.eqb f "solve_sylvester";
     xw_fault := faults |}.

Definition no_faults : nat -> option exn := fun _ => None.

Lemma find_pdef_in s l p : find_pdef s l = Some p -> In p l.
Proof.
  induction l as [|q r IH]; cbn; [discriminate|].
  destruct (String.eqb (pname q) s); [intros E; inversion E; subst; now left | right; auto].
Qed.

(** without hermitian-declared products the validity conditions are vacuous *)
Lemma no_herm_valid V (O : vops V) eqv alg (W : xworld V) sfn :
  forallb (fun p => negb (pherm p)) (aproducts alg) = true ->
  herm_low O eqv alg W sfn /\ herm_diag O eqv alg W sfn.
Proof.
  intros H. rewrite forallb_forall in H.
  assert (G : forall s p, kind_of alg (xw_inputs W) s = KProduct p -> pherm p = true -> False).
  { intros s p K HP. unfold kind_of in K.
    destruct (find_pdef s (aproducts alg)) as [q|] eqn:F.
    - inversion K; subst. apply find_pdef_in in F. specialize (H _ F). rewrite HP in H. discriminate.
    - destruct (find_sdef s (aseries alg)); [discriminate|]. destruct (mem_string s (xw_inputs W)); discriminate. }
  split.
  - intros s p i j n K HP. exfalso. eauto.
  - intros s p i n fu w K HP. exfalso. eauto.
Qed.

Lemma z_tie faults f args ix r :
  xw_fn (z_world faults) f args ix = Ok r -> den z_ops r = z_sfn f (map (den z_ops) args) ix.
Proof.
  cbn [xw_fn z_world]. unfold z_fn. intros E.
  destruct args as [|[| |x] [|b r']]; inversion E; subst; cbn; auto.
  unfold z_sfn. cbn. destruct (String.eqb f "solve_sylvester"); reflexivity.
Qed.

Lemma z_world_ok_nh faults : world_ok z_ops eq nonhermitian_alg (z_world faults) z_sfn.
Proof.
  destruct (@no_herm_valid Z z_ops eq nonhermitian_alg (z_world faults) z_sfn eq_refl) as [A B].
  split; auto.
  - intros x [<-|[]]. reflexivity.
  - intros f l l' ix F. assert (l = l') as -> by (induction F; subst; auto). reflexivity.
  - apply z_tie.
Qed.
