(** * Correctness of the second-quantised Sylvester solver [solve_scalar] *)
Require Import List ZArith QArith Lia Setoid Morphisms Bool.
Require Import PV.NOF.Gauss PV.NOF.Coeff PV.NOF.Fock PV.NOF.FockLemmas PV.NOF.LinComb PV.NOF.Model
  PV.NOF.MulOpProof PV.NOF.FermiSign PV.NOF.SigLemmas PV.NOF.NofProof PV.NOF.NofProof2 PV.NOF.SolveScalar.
Import ListNotations.
Local Open Scope Z_scope.

Lemma den_hnof ks h n : lc_eq (den ks (hnof ks h) n) [(cval h n, n)].
Proof.
  unfold hnof, den, den_term. cbn [map fst snd]. rewrite apass_zeros, cpass_zeros.
  apply lc_eq_cons; [|reflexivity]. split; unfold papp, fact, pscale; cbn [fst snd]; [ring|reflexivity].
Qed.

(** the shifted Hamiltonians evaluate, in the middle of a term, to H at the target / source state *)
Lemma shift_cre_ok ks p n h :
  length p = length ks -> length n = length ks -> ~ geq (ws ks p n) g0 ->
  geq (cval (shift_cre ks p h) (omid n p)) (cval h (osub n p)).
Proof.
  intros Hp Hn Hnz. unfold shift_cre. apply cval_csubst. intros j.
  destruct (Nat.lt_ge_cases j (length ks)) as [Hj|Hj].
  2:{ assert (E : oget p j = 0) by (unfold oget; apply nth_overflow; lia).
      rewrite E. cbn [Z.ltb Z.compare cval]. unfold oget.
      rewrite !nth_overflow by (rewrite ?omid_length, ?osub_length; lia). reflexivity. }
  pose proof (ws_mode_nonzero ks p n j Hj Hp Hn Hnz) as Hw.
  assert (Ht : oget (osub n p) j = oget n j - oget p j).
  { clear -Hp Hn Hj. revert p j Hp Hn Hj. generalize (length ks). intros L. revert L.
    induction n as [|v n IH]; intros L p j Hp Hn Hj; destruct p as [|q p]; cbn in *; try lia.
    destruct j; unfold oget; cbn [osub nth]; [reflexivity|]. apply (IH (pred L)); lia. }
  rewrite Ht.
  destruct (Z.ltb_spec (oget p j) 0) as [Hd|Hd].
  - destruct (isInf (kget ks j)) eqn:Ek; cbn [cval].
    + rewrite oget_omid by (auto; congruence). rewrite <- gz_add.
      replace (oget n j - Z.max (oget p j) 0 + - oget p j) with (oget n j - oget p j) by lia. reflexivity.
    + rewrite (wloc_bin_eq _ Ek) in Hw. unfold wloc in Hw.
      destruct (Z.eqb_spec (oget p j) 0); [lia|]. destruct (Z.eqb_spec (oget p j) 1); [lia|].
      destruct (Z.eqb_spec (oget p j) (-1)) as [E3|E3]; [|exfalso; apply Hw; reflexivity].
      destruct (Z.eqb_spec (oget n j) 0) as [E2|E2]; [|exfalso; apply Hw; reflexivity].
      rewrite E3, E2. reflexivity.
  - cbn [cval]. rewrite oget_omid by (auto; congruence).
    replace (oget n j - Z.max (oget p j) 0) with (oget n j - oget p j) by lia. reflexivity.
Qed.

Lemma shift_ann_ok ks p n h :
  length p = length ks -> length n = length ks -> ~ geq (ws ks p n) g0 ->
  geq (cval (shift_ann ks p h) (omid n p)) (cval h n).
Proof.
  intros Hp Hn Hnz. unfold shift_ann. apply cval_csubst. intros j.
  destruct (Nat.lt_ge_cases j (length ks)) as [Hj|Hj].
  2:{ assert (E : oget p j = 0) by (unfold oget; apply nth_overflow; lia).
      rewrite E. cbn [Z.ltb Z.compare cval]. unfold oget.
      rewrite !nth_overflow by (rewrite ?omid_length; lia). reflexivity. }
  pose proof (ws_mode_nonzero ks p n j Hj Hp Hn Hnz) as Hw.
  destruct (Z.ltb_spec 0 (oget p j)) as [Hd|Hd].
  - destruct (isInf (kget ks j)) eqn:Ek; cbn [cval].
    + rewrite oget_omid by (auto; congruence). rewrite <- gz_add.
      replace (oget n j - Z.max (oget p j) 0 + oget p j) with (oget n j) by lia. reflexivity.
    + rewrite (wloc_bin_eq _ Ek) in Hw. unfold wloc in Hw.
      destruct (Z.eqb_spec (oget p j) 0); [lia|].
      destruct (Z.eqb_spec (oget p j) 1) as [E3|E3];
        [|destruct (Z.eqb_spec (oget p j) (-1)); [lia|exfalso; apply Hw; reflexivity]].
      destruct (Z.eqb_spec (oget n j) 1) as [E2|E2]; [|exfalso; apply Hw; reflexivity].
      rewrite E2. reflexivity.
  - cbn [cval]. rewrite oget_omid by (auto; congruence).
    replace (oget n j - Z.max (oget p j) 0) with (oget n j) by lia. reflexivity.
Qed.

(** commutator of number-conserving Hamiltonians with one term:
    if  c'(mid) * (h_i(target) - h_j(source)) = c(mid)  whenever the term acts non-trivially,
    then  H_i T' - T' H_j = T  on the basis state n *)
Lemma comm_term ks p c c' hi hj n :
  length p = length ks -> length n = length ks ->
  (~ geq (ws ks p n) g0 ->
   geq (gmul (cval c' (omid n p)) (gsub (cval hi (osub n p)) (cval hj n))) (cval c (omid n p))) ->
  lc_eq (lapp (den ks (hnof ks hi)) (den_term ks (p, c') n)
         ++ lc_scale (gopp g1) (lapp (fun s => [den_term ks (p, c') s]) (cval hj n, n)))
        [den_term ks (p, c) n].
Proof.
  intros Hp Hn H.
  assert (E1 : peq (den_term ks (p, c') n) (den_term_cf ks (p, c') n)) by (apply den_term_cf_eq; auto).
  assert (E2 : peq (den_term ks (p, c) n) (den_term_cf ks (p, c) n)) by (apply den_term_cf_eq; auto).
  rewrite (lapp_Proper _ _ _ E1).
  unfold lapp at 1 2. unfold den_term_cf. cbn [fst snd].
  rewrite den_hnof.
  intros m. rewrite coef_at_app, !coef_at_scale.
  rewrite (coef_at_peq m _ _ E1), (coef_at_peq m _ _ E2). unfold den_term_cf. cbn [fst snd coef_at].
  destruct (occ_eqb (osub n p) m); [|ring].
  destruct (geq_dec (ws ks p n) g0) as [Hz|Hnz]; [rewrite Hz; ring|].
  specialize (H Hnz).
  transitivity (gmul (ws ks p n) (gmul (cval c' (omid n p)) (gsub (cval hi (osub n p)) (cval hj n)))); [ring|].
  rewrite H. ring.
Qed.

(** sums of term-wise commutators *)
Lemma comm_sum (K : list Z -> lincomb) a (F Gt : term -> G * list Z) l :
  (forall t, In t l -> lc_eq (lapp K (F t) ++ lc_scale a [F t]) [Gt t]) ->
  lc_eq (lc_bind (map F l) K ++ lc_scale a (map F l)) (map Gt l).
Proof.
  induction l as [|t l IH]; intros H; [reflexivity|].
  cbn [map]. rewrite lc_bind_cons.
  change (lc_scale a (F t :: map F l)) with (lc_scale a [F t] ++ lc_scale a (map F l)).
  change (Gt t :: map Gt l) with ([Gt t] ++ map Gt l).
  rewrite <- (H t (or_introl eq_refl)), <- IH by (intros; apply H; right; auto).
  intros m. rewrite !coef_at_app. ring.
Qed.

(** ** _cancel_binary_operator_numbers *)
Lemma cfold_sound e : forall g, cfold e = Some g -> forall M, geq (cval e M) g.
Proof.
  induction e; cbn [cfold]; intros g0 H M.
  - injection H as H; subst; reflexivity.
  - discriminate.
  - destruct (cfold e1), (cfold e2); try discriminate. injection H as H; subst.
    cbn [cval]. rewrite (IHe1 _ eq_refl), (IHe2 _ eq_refl), gred_correct. reflexivity.
  - cbn [cval]. destruct (cfold e1) as [x|] eqn:E1, (cfold e2) as [y|] eqn:E2.
    + injection H as H; subst. rewrite (IHe1 _ eq_refl), (IHe2 _ eq_refl), gred_correct. reflexivity.
    + destruct (gzerob x) eqn:Ez; [|discriminate]. injection H as H; subst.
      rewrite (IHe1 _ eq_refl). apply geqb_spec in Ez. rewrite Ez. ring.
    + destruct (gzerob y) eqn:Ez; [|discriminate]. injection H as H; subst.
      rewrite (IHe2 _ eq_refl). apply geqb_spec in Ez. rewrite Ez. ring.
    + discriminate.
  - destruct (cfold e); try discriminate. injection H as H; subst.
    cbn [cval]. rewrite (IHe _ eq_refl). reflexivity.
  - discriminate.
Qed.
Lemma csyn0_sound e M : csyn0 e = true -> geq (cval e M) g0.
Proof.
  unfold csyn0. destruct (cfold e) as [g|] eqn:E; [|discriminate]. intros H.
  rewrite (cfold_sound e g E M). apply geqb_spec. exact H.
Qed.

Definition cancel_coeff (ks : sig) (t : term) : cexpr :=
  csubst (fun j => if (n_inf ks <=? j)%nat && negb (oget (fst t) j =? 0) then CConst (gz 0) else CNum j) (snd t).

Lemma omid_binary_zero ks p n j :
  length p = length ks -> length n = length ks -> (j < length ks)%nat -> isInf (kget ks j) = false ->
  oget p j <> 0 -> ~ geq (ws ks p n) g0 -> oget (omid n p) j = 0.
Proof.
  intros Hp Hn Hj Hk Hpj Hnz.
  pose proof (ws_mode_nonzero ks p n j Hj Hp Hn Hnz) as Hw.
  rewrite oget_omid by (auto; congruence).
  rewrite (wloc_bin_eq _ Hk) in Hw. unfold wloc in Hw.
  destruct (Z.eqb_spec (oget p j) 0); [lia|].
  destruct (Z.eqb_spec (oget p j) 1) as [E1|E1].
  - destruct (Z.eqb_spec (oget n j) 1) as [E2|E2]; [|exfalso; apply Hw; reflexivity]. rewrite E1, E2. reflexivity.
  - destruct (Z.eqb_spec (oget p j) (-1)) as [E3|E3]; [|exfalso; apply Hw; reflexivity].
    destruct (Z.eqb_spec (oget n j) 0) as [E2|E2]; [|exfalso; apply Hw; reflexivity]. rewrite E3, E2. reflexivity.
Qed.

Lemma cancel_term ks p f n :
  sig_ok ks = true -> length p = length ks -> length n = length ks ->
  peq (den_term ks (p, cancel_coeff ks (p, f)) n) (den_term ks (p, f) n).
Proof.
  intros Hs Hp Hn. rewrite !den_term_cf_eq by auto. unfold den_term_cf. cbn [fst snd].
  split; cbn [fst snd]; [|reflexivity].
  destruct (geq_dec (ws ks p n) g0) as [Hz|Hnz]; [rewrite Hz; ring|].
  unfold cancel_coeff. cbn [fst snd].
  rewrite (cval_csubst _ f (omid n p) (omid n p)); [reflexivity|].
  intros j. destruct (Nat.leb_spec (n_inf ks) j) as [Hj|Hj]; cbn [andb]; [|reflexivity].
  destruct (Z.eqb_spec (oget p j) 0) as [E|E]; cbn [negb]; [reflexivity|].
  cbn [cval].
  destruct (Nat.lt_ge_cases j (length ks)) as [Hjl|Hjl].
  - destruct (sig_ok_index ks j Hs Hjl) as [Hinf _].
    destruct (Nat.ltb_spec j (n_inf ks)); [lia|].
    rewrite (omid_binary_zero ks p n j); auto. reflexivity.
  - exfalso. apply E. unfold oget. apply nth_overflow. lia.
Qed.

Theorem cancel_correct ks x n :
  sig_ok ks = true -> wf_nof ks x -> length n = length ks ->
  lc_eq (den ks (cancel_binary ks x) n) (den ks x n) /\ wf_nof ks (cancel_binary ks x).
Proof.
  intros Hs [Hnd Hwf] Hn. unfold cancel_binary.
  destruct (length ks - n_inf ks =? 0)%nat; [split; [reflexivity|split; auto]|].
  set (h := fun t : term => if csyn0 (cancel_coeff ks t) then None else Some (fst t, cancel_coeff ks t)).
  match goal with |- context [dict_of (flat_map ?F x)] =>
    replace (flat_map F x) with (flat_map (fun t => match h t with Some t' => [t'] | None => [] end) x)
      by (apply flat_map_ext; intros t; unfold h, cancel_coeff; cbv zeta; destruct (csyn0 _); reflexivity)
  end.
  assert (Hnd' : NoDup (map fst (flat_map (fun t => match h t with Some t' => [t'] | None => [] end) x))).
  { apply (NoDup_flat_map_opt h (fun p => p)); auto.
    intros t t' Ht. unfold h in Ht. destruct (csyn0 _); [discriminate|]. injection Ht as Ht. subst. reflexivity. }
  rewrite dict_of_nodup by exact Hnd'.
  split.
  - unfold den at 1. rewrite flat_map_concat_map, concat_map, map_map, <- flat_map_concat_map.
    unfold den. apply lc_eq_flat_map. intros [p f] Ht.
    rewrite Forall_forall in Hwf. pose proof (pow_ok_length _ _ (Hwf _ Ht)) as Hp. cbn [fst] in Hp.
    unfold h. cbn [fst].
    pose proof (cancel_term ks p f n Hs Hp Hn) as HT.
    destruct (csyn0 (cancel_coeff ks (p, f))) eqn:Ez; cbn [map].
    + symmetry. rewrite (den_term_cf_eq ks (p, cancel_coeff ks (p, f)) n) in HT by auto.
      unfold den_term_cf in HT. cbn [fst snd] in HT.
      destruct (den_term ks (p, f) n) as [c0 s0]. destruct HT as [HT1 _]. cbn [fst] in HT1.
      apply lc_eq_zero_cons. rewrite <- HT1. rewrite (csyn0_sound _ _ Ez). ring.
    + apply lc_eq_cons; [exact HT|reflexivity].
  - split; [exact Hnd'|].
    rewrite Forall_forall in *. intros t' Ht'. rewrite in_flat_map in Ht'.
    destruct Ht' as [t [Ht Hin]]. unfold h in Hin. destruct (csyn0 _); [destruct Hin|].
    destruct Hin as [Hin|[]]. subst t'. apply (Hwf _ Ht).
Qed.

(** ** the solver *)
Lemma solve_terms_offdiag ks hi hj y : NoDup (map fst y) ->
  solve_terms ks hi hj false y
  = map (fun t : term => (fst t, CMul (CMul (CConst (if lex_neg (fst t) then gopp g1 else g1))
                                       (CInv (denominator ks hi hj (fst t)))) (snd t))) y.
Proof.
  intros Hnd. unfold solve_terms.
  assert (E : flat_map (fun t => match solve_term ks hi hj false t with Some t' => [t'] | None => [] end) y
              = map (fun t : term => (fst t, CMul (CMul (CConst (if lex_neg (fst t) then gopp g1 else g1))
                                       (CInv (denominator ks hi hj (fst t)))) (snd t))) y).
  { induction y as [|[p c] y IH]; [reflexivity|]. cbn [flat_map map solve_term andb fst snd app].
    rewrite IH; [reflexivity|]. inversion Hnd; auto. }
  rewrite E. apply dict_of_nodup. rewrite map_fst_same. exact Hnd.
Qed.

Definition denom_ok (ks : sig) (hi hj : cexpr) (y : nof) (n : list Z) : Prop :=
  forall t, In t y -> geq (ws ks (fst t) n) g0
                      \/ ~ geq (cval (denominator ks hi hj (fst t)) (omid n (fst t))) g0.

Lemma solve_coeff_ok ks hi hj p c n :
  length p = length ks -> length n = length ks ->
  ~ geq (ws ks p n) g0 ->
  ~ geq (cval (denominator ks hi hj p) (omid n p)) g0 ->
  geq (gmul (cval (CMul (CMul (CConst (if lex_neg p then gopp g1 else g1)) (CInv (denominator ks hi hj p))) c) (omid n p))
            (gsub (cval hi (osub n p)) (cval hj n)))
      (cval c (omid n p)).
Proof.
  intros Hp Hn Hnz Hd. cbn [cval].
  pose proof (shift_cre_ok ks p n hi Hp Hn Hnz) as H1.
  pose proof (shift_ann_ok ks p n hj Hp Hn Hnz) as H2.
  set (D := cval (denominator ks hi hj p) (omid n p)) in *.
  pose proof (gmul_inv_r D Hd) as HI.
  unfold denominator in D. destruct (lex_neg p); cbn [cval] in D.
  - assert (E : geq (gsub (cval hi (osub n p)) (cval hj n)) (gopp D)).
    { subst D. rewrite H1, H2. ring. }
    rewrite E.
    transitivity (gmul (gmul D (ginv D)) (cval c (omid n p))); [ring|]. rewrite HI. ring.
  - assert (E : geq (gsub (cval hi (osub n p)) (cval hj n)) D).
    { subst D. rewrite H1, H2. ring. }
    rewrite E.
    transitivity (gmul (gmul D (ginv D)) (cval c (omid n p))); [ring|]. rewrite HI. ring.
Qed.

(** C16_scalar, off-diagonal elements: H_ii X - X H_jj = Y on every basis state where the
    shifted denominators of the terms that act non-trivially do not vanish *)
Theorem solve_scalar_offdiag_correct ks y hi hj n :
  sig_ok ks = true -> wf_nof ks y -> bok ks n -> denom_ok ks hi hj y n ->
  let x := solve_scalar ks y hi hj false in
  lc_eq (lc_bind (den ks x n) (den ks (hnof ks hi))
         ++ lc_scale (gopp g1) (lc_bind (den ks (hnof ks hj) n) (den ks x)))
        (den ks y n)
  /\ wf_nof ks x.
Proof.
  intros Hs [Hnd Hwf] Hb Hden x. pose proof (bok_length _ _ Hb) as Hn.
  unfold solve_scalar in x. subst x.
  set (x1 := solve_terms ks hi hj false y).
  assert (Hx1 : x1 = map (fun t : term => (fst t, CMul (CMul (CConst (if lex_neg (fst t) then gopp g1 else g1))
                                       (CInv (denominator ks hi hj (fst t)))) (snd t))) y)
    by (apply solve_terms_offdiag; auto).
  assert (W1 : wf_nof ks x1).
  { rewrite Hx1. split; [rewrite map_fst_same; auto|].
    rewrite Forall_forall in *. intros t' Ht'. rewrite in_map_iff in Ht'.
    destruct Ht' as [t [E Ht]]. subst t'. apply (Hwf _ Ht). }
  destruct (cancel_correct ks x1 n Hs W1 Hn) as [HC W2].
  destruct (linearize_correct ks _ n Hs W2 Hb) as [HL W3].
  split; [|exact W3].
  set (X := linearize ks (cancel_binary ks x1)) in *.
  assert (HX : lc_eq (den ks X n) (den ks x1 n)) by (rewrite HL, HC; reflexivity).
  rewrite (lc_bind_Proper_l _ _ _ HX).
  rewrite (lc_bind_Proper_l _ _ _ (den_hnof ks hj n)).
  rewrite lc_bind_single'. unfold lapp at 1. cbn [fst snd]. rewrite HX.
  rewrite Hx1. rewrite den_map. unfold den.
  rewrite lc_scale_scale.
  apply comm_sum. intros [p c] Ht. cbn [fst snd].
  rewrite Forall_forall in Hwf. pose proof (pow_ok_length _ _ (Hwf _ Ht)) as Hp. cbn [fst] in Hp.
  pose proof (comm_term ks p c
     (CMul (CMul (CConst (if lex_neg p then gopp g1 else g1)) (CInv (denominator ks hi hj p))) c) hi hj n Hp Hn) as HT.
  rewrite <- HT.
  - apply app_lc_Proper; [reflexivity|].
    unfold lapp. cbn [fst snd]. rewrite lc_scale_scale. reflexivity.
  - intros Hnz. destruct (Hden _ Ht) as [Hz|Hd]; [contradiction|]. cbn [fst] in Hd.
    apply solve_coeff_ok; auto.
Qed.
