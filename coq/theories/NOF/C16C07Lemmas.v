(** * Concrete objects for the non-vacuity examples of Props/C16_scalar.v and Props/C07_mask.v *)
Require Import List ZArith QArith Bool Lia.
Require Import PV.NOF.Gauss PV.NOF.Coeff PV.NOF.Fock PV.NOF.FockLemmas PV.NOF.LinComb PV.NOF.Model
  PV.NOF.NofProof PV.NOF.NofProof2 PV.NOF.SolveScalar PV.NOF.ScalarProof PV.NOF.ScalarDiag PV.NOF.Mask PV.NOF.C08Lemmas.
Import ListNotations.
Local Open Scope Z_scope.

(** H_ii = N_a + 3 N_f,  H_jj = 2 N_a + N_l/2 ,  Y = a† f (N_a+2) + l s† g† N_f  (ex_x) *)
Definition ex_hi : cexpr := CAdd (CNum 0) (CMul (CConst (gz 3)) (CNum 3)).
Definition ex_hj : cexpr := CAdd (CMul (CConst (gz 2)) (CNum 0)) (CMul (CConst (mkG (1 # 2) 0)) (CNum 1)).
Definition ex_n2 : list Z := [3; -2; 1; 1; 1].

Lemma ex_bok2 : bok ex_ks ex_n2. Proof. cbn; repeat split; intros; try discriminate; auto. Qed.

Lemma ex_denom_ok : denom_ok ex_ks ex_hi ex_hj ex_x ex_n2.
Proof.
  intros t [Ht|[Ht|[]]]; subst t; cbn [fst].
  - right. intros H. vm_compute in H. destruct H as [H _]. discriminate H.
  - left. vm_compute. split; reflexivity.
Qed.

Lemma c16_ex_nonvacuous :
  sig_ok ex_ks = true /\ wf_nof ex_ks ex_x /\ bok ex_ks ex_n2 /\ denom_ok ex_ks ex_hi ex_hj ex_x ex_n2 /\
  ~ lc_eq (den ex_ks (solve_scalar ex_ks ex_x ex_hi ex_hj false) ex_n2) [].
Proof.
  split; [exact ex_sig|]. split; [exact ex_wf_x|]. split; [exact ex_bok2|]. split; [exact ex_denom_ok|].
  intros H. specialize (H [4; -2; 1; 0; 1]). vm_compute in H. destruct H as [H _]. discriminate H.
Qed.

Lemma ex_creal : creal ex_hi.
Proof. intros M. unfold ex_hi. cbn [cval]. rewrite gconj_add, gconj_mul, !gconj_gz. reflexivity. Qed.
Lemma c16_ex_diag_nonvacuous :
  creal ex_hi /\ denom_ok ex_ks ex_hi ex_hi (yneg ex_x) ex_n2 /\ denom_ok_adj ex_ks ex_hi (yneg ex_x) ex_n2 /\
  ~ lc_eq (den ex_ks (yneg ex_x) ex_n2) [].
Proof.
  split; [exact ex_creal|]. split; [|split].
  - intros t [Ht|[]]; subst t; cbn [fst]. right. intros H. vm_compute in H. destruct H as [H _]. discriminate H.
  - intros t [Ht|[]]; subst t; cbn [fst]. left. vm_compute. split; reflexivity.
  - intros H. specialize (H [4; -2; 1; 0; 1]). vm_compute in H. destruct H as [H _]. discriminate H.
Qed.

Definition ex_conds : list (list pat) :=
  [[PEq (-1); PEq 0; PEq 0; PEq 1; PEq 0]; [PEq 1; PEq 0; PEq 0; PEq (-1); PEq 0];
   [PGt 1; PEq 0; PEq 0; PEq 0; PEq 0]; [PLt (-1); PEq 0; PEq 0; PEq 0; PEq 0]].
Lemma ex_conds_closed : forall p, matches (map (map pat_opp) ex_conds) p = matches ex_conds p.
Proof.
  intros p. unfold matches, ex_conds. cbn [map pat_opp existsb Z.opp].
  destruct (cond_match [PEq (-1); PEq 0; PEq 0; PEq 1; PEq 0] p),
           (cond_match [PEq 1; PEq 0; PEq 0; PEq (-1); PEq 0] p),
           (cond_match [PGt 1; PEq 0; PEq 0; PEq 0; PEq 0] p),
           (cond_match [PLt (-1); PEq 0; PEq 0; PEq 0; PEq 0] p); reflexivity.
Qed.
Lemma c07_ex_nonvacuous :
  (forall p, matches ex_conds (map Z.opp p) = matches ex_conds p) /\
  apply_mask ex_x ex_conds true <> [] /\ apply_mask ex_x ex_conds false <> [].
Proof.
  split; [apply matches_closed, ex_conds_closed|]. split; vm_compute; discriminate.
Qed.
