(** * __pow__ with a negative integer exponent: supported by the code only for particle-conserving
      forms ([{key: value**exp}], l. 1556-1562); the result is the inverse of the positive power
      wherever the coefficient does not vanish. *)
Require Import List ZArith QArith Lia Setoid Morphisms Bool.
Require Import PV.NOF.Gauss PV.NOF.Coeff PV.NOF.Fock PV.NOF.FockLemmas PV.NOF.LinComb PV.NOF.Model
  PV.NOF.NofProof PV.NOF.NofProof2 PV.NOF.SolveScalar PV.NOF.ScalarProof PV.NOF.DaggerMul PV.NOF.FromExpr.
Import ListNotations.
Local Open Scope Z_scope.

Fixpoint gpow (c : G) (k : nat) : G := match k with O => g1 | S k' => gmul c (gpow c k') end.

Lemma cval_cpow f k n : geq (cval (cpow f k) n) (gpow (cval f n) k).
Proof.
  induction k as [|k IH]; [reflexivity|]. destruct k as [|k]; [cbn [cpow gpow]; ring|].
  change (cpow f (S (S k))) with (CMul f (cpow f (S k))). cbn [cval]. rewrite IH. reflexivity.
Qed.
Lemma gpow_nonzero c k : ~ geq c g0 -> ~ geq (gpow c k) g0.
Proof. intros H. induction k; cbn [gpow]; [apply g1_nonzero|apply gmul_nonzero; auto]. Qed.

Lemma lc_pow_hnof ks f k n : lc_eq (lc_pow (den ks (hnof ks f)) k n) [(gpow (cval f n) k, n)].
Proof.
  induction k as [|k IH]; [reflexivity|]. cbn [lc_pow gpow].
  rewrite (lc_bind_Proper_l _ _ _ (den_hnof ks f n)), lc_bind_single'. unfold lapp. cbn [fst snd].
  rewrite IH. apply lc_eq_cons; [|reflexivity]. split; unfold pscale; cbn [fst snd]; [ring|reflexivity].
Qed.

Lemma forallb_zeros (l : sig) : forallb (Z.eqb 0) (zeros l) = true.
Proof. induction l; cbn; auto. Qed.

Theorem pow_neg_correct ks f e n :
  e < 0 -> ~ geq (cval f n) g0 ->
  exists y, pow ks (hnof ks f) e = Ok y /\
            lc_eq (lc_bind (lc_pow (den ks (hnof ks f)) (Z.abs_nat e) n) (den ks y)) [(g1, n)].
Proof.
  intros He Hc. unfold pow, hnof.
  destruct (Z.eqb_spec e 0); [lia|]. destruct (Z.ltb_spec 0 e); [lia|].
  cbn [particle_conserving forallb fst]. rewrite forallb_zeros. cbn [andb map fst snd].
  eexists. split; [reflexivity|].
  unfold dict_of. cbn [fold_left dset fst snd].
  fold (hnof ks f). rewrite (lc_bind_Proper_l _ _ _ (lc_pow_hnof ks f (Z.abs_nat e) n)).
  rewrite lc_bind_single'. unfold lapp. cbn [fst snd].
  fold (hnof ks (CInv (cpow f (Z.abs_nat e)))). rewrite den_hnof.
  apply lc_eq_cons; [|reflexivity]. split; unfold pscale; cbn [fst snd cval]; [|reflexivity].
  rewrite cval_cpow. apply gmul_inv_r. apply gpow_nonzero. exact Hc.
Qed.
