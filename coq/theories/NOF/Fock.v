(** * Fock-space semantics of number-ordered terms.

    Modes are listed in the order the code keeps them
    (bosons, ladders, spins, fermions: [generator_types]).  A basis state is an
    occupation vector [n : list Z].  Physical states have boson occupations >= 0 and
    spin/fermion occupations in {0,1}; the operator relations below hold on all
    integer vectors, the physical ones form an invariant subspace.

    Non-normalised boson basis:  a e_n = n e_{n-1},  a† e_n = e_{n+1}.
    Ladder:                      L e_n = e_{n-1},    L† e_n = e_{n+1}.
    Spin-1/2 (sigma_-):          s e_1 = e_0, s e_0 = 0, s† e_0 = e_1, s† e_1 = 0.
    Fermion: the same with the Jordan-Wigner sign (-1)^(number of occupied
    fermionic modes with a smaller index).

    An elementary operator maps a basis state to a multiple of ONE basis state, so
    operators are represented as [occ -> G * occ]; an annihilated state is
    represented by coefficient 0 (the state component is then irrelevant but kept
    canonical: the occupation is always shifted by -1 / +1). *)
Require Import List ZArith QArith Lia Setoid Morphisms Bool.
Require Import PV.NOF.Gauss PV.NOF.Coeff.
Import ListNotations.
Local Open Scope Z_scope.

Inductive kind : Type := Boson | Ladder | Spin | Fermion.
Definition sig := list kind.
Definition isF (k : kind) : bool := match k with Fermion => true | _ => false end.
Definition isInf (k : kind) : bool := match k with Boson | Ladder => true | _ => false end.
Definition isB (k : kind) : bool := match k with Boson => true | _ => false end.
Definition kind_eqb (a b : kind) : bool :=
  match a, b with Boson, Boson | Ladder, Ladder | Spin, Spin | Fermion, Fermion => true | _, _ => false end.
Definition kget (ks : sig) (i : nat) : kind := nth i ks Boson.

(** local action on the occupation of the mode itself: (factor, new occupation);
    [dag = true] is the creation operator *)
Definition local (k : kind) (dag : bool) (v : Z) : G * Z :=
  match k, dag with
  | Boson, false => (gz v, v - 1)
  | Boson, true => (g1, v + 1)
  | Ladder, false => (g1, v - 1)
  | Ladder, true => (g1, v + 1)
  | _, false => (gind (v =? 1), v - 1)
  | _, true => (gind (v =? 0), v + 1)
  end.

(** parity of the number of occupied fermionic modes of a state *)
Fixpoint occF (ks : sig) (n : occ) : bool :=
  match ks, n with
  | k :: ks', v :: n' => xorb (isF k && (v =? 1)) (occF ks' n')
  | _, _ => false
  end.

(** Jordan-Wigner sign of an operator of mode i on state n *)
Definition jw (ks : sig) (i : nat) (n : occ) : bool :=
  isF (kget ks i) && occF (firstn i ks) (firstn i n).

(** one elementary operator (mode i, creation iff dag) on a basis state *)
Definition step (ks : sig) (i : nat) (dag : bool) (n : occ) : G * occ :=
  let (c, v') := local (kget ks i) dag (oget n i) in
  (gmul (gsgn (jw ks i n)) c, upd n i v').

Definition peq (a b : G * occ) : Prop := geq (fst a) (fst b) /\ snd a = snd b.
#[global] Instance peq_Equivalence : Equivalence peq.
Proof.
  split.
  - intros [c s]; split; reflexivity.
  - intros [c s] [c' s'] [H1 H2]; split; symmetry; auto.
  - intros [c s] [c' s'] [c'' s''] [H1 H2] [H3 H4]; split; etransitivity; eauto.
Qed.

Definition pscale (c : G) (a : G * occ) : G * occ := (gmul c (fst a), snd a).
#[global] Instance pscale_Proper : Proper (geq ==> peq ==> peq) pscale.
Proof. intros c c' Hc [a s] [a' s'] [H1 H2]; split; cbn in *; [rewrite Hc, H1; reflexivity|auto]. Qed.

(** apply a state map to a weighted state *)
Definition papp (F : occ -> G * occ) (cs : G * occ) : G * occ := pscale (fst cs) (F (snd cs)).

Fixpoint iter_step (ks : sig) (i : nat) (dag : bool) (r : nat) (cs : G * occ) : G * occ :=
  match r with
  | O => cs
  | S r' => iter_step ks i dag r' (papp (step ks i dag) cs)
  end.

(** operator of mode i to the signed power q (q<0: creation^|q|, q>0: annihilation^q) *)
Definition opact (ks : sig) (i : nat) (q : Z) (n : occ) : G * occ :=
  iter_step ks i (q <? 0) (Z.abs_nat q) (g1, n).

Definition term : Type := (list Z * cexpr)%type.

(** annihilation pass: modes in ascending order are applied first to last, i.e. the
    operator product is  a_k^{p_k} ... a_1^{p_1} a_0^{p_0}  (descending, as stored) *)
Fixpoint apass_aux (ks : sig) (p : list Z) (i : nat) (cs : G * occ) : G * occ :=
  match p with
  | [] => cs
  | q :: r => apass_aux ks r (S i) (if 0 <? q then papp (opact ks i q) cs else cs)
  end.
(** creation pass: the last mode acts first, i.e. the product is
    c_0†^{-p_0} c_1†^{-p_1} ... c_k†^{-p_k}  (ascending) *)
Fixpoint cpass_aux (ks : sig) (p : list Z) (i : nat) (cs : G * occ) : G * occ :=
  match p with
  | [] => cs
  | q :: r => let cs' := cpass_aux ks r (S i) cs in
              if q <? 0 then papp (opact ks i q) cs' else cs'
  end.

(** the function of the number operators in the middle *)
Definition fact (f : cexpr) (n : occ) : G * occ := (cval f n, n).

(** a stored term (powers, coeff) denotes
    (creators, ascending mode order) * coeff(N) * (annihilators, descending mode order) *)
Definition den_term (ks : sig) (t : term) (n : occ) : G * occ :=
  cpass_aux ks (fst t) 0 (papp (fact (snd t)) (apass_aux ks (fst t) 0 (g1, n))).

(** ** Finite formal linear combinations of basis states *)
Definition lincomb := list (G * occ).
Fixpoint occ_eqb (a b : occ) : bool :=
  match a, b with
  | [], [] => true
  | x :: a', y :: b' => (x =? y) && occ_eqb a' b'
  | _, _ => false
  end.
Lemma occ_eqb_spec a b : reflect (a = b) (occ_eqb a b).
Proof.
  revert b; induction a; destruct b; cbn; try (constructor; congruence).
  destruct (Z.eqb_spec a z); cbn; [|constructor; congruence].
  destruct (IHa b); constructor; congruence.
Qed.
Fixpoint coef_at (m : occ) (l : lincomb) : G :=
  match l with
  | [] => g0
  | (c, s) :: r => gadd (if occ_eqb s m then c else g0) (coef_at m r)
  end.
(** equality of normalised linear combinations *)
Definition lc_eq (a b : lincomb) : Prop := forall m, geq (coef_at m a) (coef_at m b).
Definition lc_scale (c : G) (l : lincomb) : lincomb := map (pscale c) l.
Definition lc_bind (l : lincomb) (F : occ -> lincomb) : lincomb :=
  flat_map (fun cs => lc_scale (fst cs) (F (snd cs))) l.

Definition nof : Type := list term.
(** x e_n = den x n  (as a formal linear combination) *)
Definition den (ks : sig) (x : nof) (n : occ) : lincomb := map (fun t => den_term ks t n) x.
(** matrix element: x e_n = sum_m (melt x n m) e_m *)
Definition melt (ks : sig) (x : nof) (n m : occ) : G := coef_at m (den ks x n).

(** ** Closed form of a term's action *)
Fixpoint ffall (v : Z) (k : nat) : G :=
  match k with O => g1 | S k' => gmul (gz v) (ffall (v - 1) k') end.

Definition wloc (k : kind) (q : Z) (v : Z) : G :=
  match k with
  | Boson => ffall v (Z.to_nat q)
  | Ladder => g1
  | _ => if q =? 0 then g1 else if q =? 1 then gind (v =? 1)
         else if q =? -1 then gind (v =? 0) else g0
  end.

(** parity of the number of fermionic elementary operators in a power list *)
Fixpoint parF (ks : sig) (p : list Z) : bool :=
  match ks, p with
  | k :: ks', q :: p' => xorb (isF k && Z.odd q) (parF ks' p')
  | _, _ => false
  end.

Fixpoint ws (ks : sig) (p : list Z) (n : occ) : G :=
  match ks, p, n with
  | k :: ks', q :: p', v :: n' =>
      gmul (gmul (wloc k q v) (gsgn (isF k && (v - Z.max q 0 =? 1) && parF ks' p')))
           (ws ks' p' n')
  | _, _, _ => g1
  end.

Fixpoint omid (n : occ) (p : list Z) : occ :=
  match n, p with
  | v :: n', q :: p' => (v - Z.max q 0) :: omid n' p'
  | _, _ => n
  end.
Fixpoint osub (n : occ) (p : list Z) : occ :=
  match n, p with
  | v :: n', q :: p' => (v - q) :: osub n' p'
  | _, _ => n
  end.

Definition den_term_cf (ks : sig) (t : term) (n : occ) : G * occ :=
  (gmul (ws ks (fst t) n) (cval (snd t) (omid n (fst t))), osub n (fst t)).
