(** * Correctness of the NumberOrderedForm operations on whole forms *)
Require Import List ZArith QArith Lia Setoid Morphisms Bool.
Require Import PV.NOF.Gauss PV.NOF.Coeff PV.NOF.Fock PV.NOF.FockLemmas PV.NOF.LinComb PV.NOF.Model
  PV.NOF.MulOpProof PV.NOF.FermiSign PV.NOF.SigLemmas.
Import ListNotations.
Local Open Scope Z_scope.

(** ** well-formedness *)
(** powers aligned with the operator list; spin / fermion powers in {-1,0,1} *)
Fixpoint pow_ok (ks : sig) (p : list Z) : Prop :=
  match ks, p with
  | k :: ks', q :: p' => (isInf k = false -> Z.abs q <= 1) /\ pow_ok ks' p'
  | [], [] => True
  | _, _ => False
  end.
(** occupations aligned with the operator list; spin / fermion occupations in {0,1} *)
Fixpoint bok (ks : sig) (n : list Z) : Prop :=
  match ks, n with
  | k :: ks', v :: n' => (isInf k = false -> v = 0 \/ v = 1) /\ bok ks' n'
  | [], [] => True
  | _, _ => False
  end.
Definition wf_term (ks : sig) (t : term) : Prop := pow_ok ks (fst t).
(** keys of the term dictionary are distinct (it is a Python dict) and well formed *)
Definition wf_nof (ks : sig) (x : nof) : Prop := NoDup (map fst x) /\ Forall (wf_term ks) x.

Lemma pow_ok_length ks : forall p, pow_ok ks p -> length p = length ks.
Proof. induction ks; destruct p; cbn; intros H; try tauto. destruct H. f_equal; auto. Qed.
Lemma bok_length ks : forall n, bok ks n -> length n = length ks.
Proof. induction ks; destruct n; cbn; intros H; try tauto. destruct H. f_equal; auto. Qed.
Lemma pow_ok_get ks : forall p i, pow_ok ks p -> (i < length ks)%nat ->
  isInf (kget ks i) = false -> Z.abs (oget p i) <= 1.
Proof.
  induction ks as [|k ks IH]; intros p i H Hi Hk; [cbn in Hi; lia|].
  destruct p as [|q p]; [cbn in H; tauto|]. destruct H as [H1 H2]. cbn [length] in Hi.
  destruct i; unfold kget, oget in *; cbn [nth] in *; auto. apply IH; auto. lia.
Qed.
Lemma bok_get ks : forall n i, bok ks n -> (i < length ks)%nat ->
  isInf (kget ks i) = false -> oget n i = 0 \/ oget n i = 1.
Proof.
  induction ks as [|k ks IH]; intros n i H Hi Hk; [cbn in Hi; lia|].
  destruct n as [|v n]; [cbn in H; tauto|]. destruct H as [H1 H2]. cbn [length] in Hi.
  destruct i; unfold kget, oget in *; cbn [nth] in *; auto. apply IH; auto. lia.
Qed.
Lemma pow_ok_upd ks : forall p i v, pow_ok ks p ->
  (isInf (kget ks i) = false -> Z.abs v <= 1) -> pow_ok ks (upd p i v).
Proof.
  induction ks as [|k ks IH]; intros p i v H Hv; destruct p as [|q p]; cbn in H; try tauto.
  destruct H as [H1 H2]. destruct i; cbn [upd pow_ok]; split; auto.
Qed.
Lemma bok_upd ks : forall n i v, bok ks n ->
  (isInf (kget ks i) = false -> v = 0 \/ v = 1) -> bok ks (upd n i v).
Proof.
  induction ks as [|k ks IH]; intros n i v H Hv; destruct n as [|w n]; cbn in H; try tauto.
  destruct H as [H1 H2]. destruct i; cbn [upd bok]; split; auto.
Qed.

(** ** dictionaries *)
Lemma occ_eqb_refl a : occ_eqb a a = true.
Proof. destruct (occ_eqb_spec a a); congruence. Qed.
Lemma dset_notin k v d : ~ In k (map fst d) -> dset k v d = d ++ [(k, v)].
Proof.
  induction d as [|[k' v'] d IH]; intros H; cbn [dset app]; [reflexivity|].
  destruct (occ_eqb_spec k' k).
  - exfalso. apply H. left. auto.
  - rewrite IH; auto. intro; apply H; right; auto.
Qed.
Lemma dict_of_nodup l : NoDup (map fst l) -> dict_of l = l.
Proof.
  unfold dict_of.
  assert (H : forall acc, NoDup (map fst (acc ++ l)) ->
             fold_left (fun d t => dset (fst t) (snd t) d) l acc = acc ++ l).
  { induction l as [|[k v] l IH]; intros acc Hn; cbn [fold_left]; [rewrite app_nil_r; reflexivity|].
    cbn [fst snd]. rewrite dset_notin.
    - rewrite IH; rewrite <- app_assoc; [reflexivity|exact Hn].
    - rewrite map_app in Hn. cbn [map fst] in Hn. apply NoDup_remove_2 in Hn.
      intro Hin. apply Hn. apply in_or_app. left; auto. }
  intros Hn. apply (H []). exact Hn.
Qed.

Lemma upd_shift_inj (p p' : list Z) i q :
  upd p i (oget p i + q) = upd p' i (oget p' i + q) -> p = p'.
Proof.
  revert p' i; induction p as [|a p IH]; intros p' i H; destruct p' as [|b p']; destruct i; cbn [upd] in H;
    try discriminate; auto.
  - unfold oget in H; cbn [nth] in H. injection H as H1 H2. f_equal; auto. lia.
  - injection H as H1 H2. f_equal; auto. unfold oget in H2; cbn [nth] in H2. eapply IH. exact H2.
Qed.

Lemma NoDup_map_inj {A B} (g : A -> B) l : (forall a b, g a = g b -> a = b) -> NoDup l -> NoDup (map g l).
Proof.
  intros Hg H. induction H; cbn; constructor; auto.
  rewrite in_map_iff. intros [y [Hy1 Hy2]]. apply Hg in Hy1. subst. auto.
Qed.

Lemma den_map ks (g : term -> term) x n : den ks (map g x) n = map (fun t => den_term ks (g t) n) x.
Proof. unfold den. rewrite map_map. reflexivity. Qed.

Lemma lapp_den ks x cs : lapp (den ks x) cs = map (fun t => pscale (fst cs) (den_term ks t (snd cs))) x.
Proof. unfold lapp, den, lc_scale. rewrite map_map. reflexivity. Qed.

(** ** _multiply_op *)
Lemma mulop_bin_eq_sem ks i q t :
  sig_ok ks = true -> (i < length ks)%nat -> length (fst t) = length ks ->
  mulop_bin (n_fermions ks) (isF (kget ks i)) i q t = mulop_bin_sem ks i q t.
Proof.
  intros Hs Hi Hp. destruct t as [p f]. unfold mulop_bin, mulop_bin_sem. cbn [fst] in Hp.
  destruct (1 <? Z.abs (oget p i + q)); [reflexivity|].
  destruct (isF (kget ks i)) eqn:EF; cbn [andb]; [|reflexivity].
  rewrite code_sign_slices; auto.
  destruct (kget ks i); try discriminate; reflexivity.
Qed.

Lemma lc_eq_flat_map {A} (F : A -> lincomb) (Gf : A -> G * occ) l :
  (forall a, In a l -> lc_eq (F a) [Gf a]) -> lc_eq (flat_map F l) (map Gf l).
Proof.
  induction l; intros H; cbn [flat_map map]; [reflexivity|].
  change (Gf a :: map Gf l) with ([Gf a] ++ map Gf l).
  apply app_lc_Proper; [apply H; left; auto|apply IHl; intros; apply H; right; auto].
Qed.

Lemma mulop_bin_sem_fst ks i q t t' : mulop_bin_sem ks i q t = Some t' ->
  fst t' = upd (fst t) i (oget (fst t) i + q) /\ Z.abs (oget (fst t) i + q) <= 1.
Proof.
  destruct t as [p f]. unfold mulop_bin_sem. cbn [fst].
  destruct (Z.ltb_spec 1 (Z.abs (oget p i + q))); [discriminate|].
  intros HS. injection HS as HS. subst t'. cbn [fst]. split; auto.
Qed.

Lemma NoDup_flat_map_opt (h : term -> option term) (g : list Z -> list Z) x :
  (forall a b, g a = g b -> a = b) ->
  (forall t t', h t = Some t' -> fst t' = g (fst t)) ->
  NoDup (map fst x) ->
  NoDup (map fst (flat_map (fun t => match h t with Some t' => [t'] | None => [] end) x)).
Proof.
  intros Hg Hh. induction x as [|t x IH]; intros Hn; cbn [flat_map map]; [constructor|].
  cbn [map] in Hn. inversion Hn as [|? ? Hnotin Hn']; subst.
  destruct (h t) as [t'|] eqn:E; cbn [app map]; [|auto].
  constructor; auto.
  rewrite (Hh _ _ E). intro Hin. apply Hnotin.
  rewrite in_map_iff in Hin. destruct Hin as [u [Hu1 Hu2]].
  rewrite in_flat_map in Hu2. destruct Hu2 as [s [Hs1 Hs2]].
  destruct (h s) as [s'|] eqn:Es; [|destruct Hs2].
  destruct Hs2 as [Hs2|[]]. subst u. rewrite (Hh _ _ Es) in Hu1. apply Hg in Hu1.
  rewrite <- Hu1. apply in_map. auto.
Qed.

Theorem mulop_raw_correct ks x i q n :
  sig_ok ks = true -> wf_nof ks x -> bok ks n -> (i < length ks)%nat -> q <> 0 ->
  lc_eq (den ks (mulop_raw ks x i q) n) (lapp (den ks x) (opact ks i q n))
  /\ wf_nof ks (mulop_raw ks x i q).
Proof.
  intros Hs [Hnd Hwf] Hb Hi Hq.
  pose proof (bok_length _ _ Hb) as Hn.
  destruct (sig_ok_index ks i Hs Hi) as [Hinf Hbos].
  unfold mulop_raw. rewrite Hinf, Hbos.
  destruct (isInf (kget ks i)) eqn:Ek.
  - (* bosons and ladders *)
    assert (Hkeys : map fst (map (mulop_inf (isB (kget ks i)) i q) x)
                    = map (fun p => upd p i (oget p i + q)) (map fst x)).
    { rewrite !map_map. apply map_ext. intros [p f]. apply mulop_inf_fst. }
    assert (Hnd' : NoDup (map fst (map (mulop_inf (isB (kget ks i)) i q) x))).
    { rewrite Hkeys. apply NoDup_map_inj; auto. intros a b. apply upd_shift_inj. }
    rewrite dict_of_nodup by exact Hnd'.
    split.
    + rewrite den_map, lapp_den. apply lc_eq_map. intros t Ht.
      rewrite Forall_forall in Hwf. specialize (Hwf t Ht).
      rewrite mulop_inf_term; auto; [reflexivity|]. apply pow_ok_length; auto.
    + split; [exact Hnd'|].
      rewrite Forall_forall in *. intros t' Ht'. rewrite in_map_iff in Ht'.
      destruct Ht' as [[p f] [E Ht]]. subst t'. unfold wf_term. rewrite mulop_inf_fst.
      apply pow_ok_upd; [apply (Hwf _ Ht)|]. intros HH; rewrite Ek in HH; discriminate.
  - destruct (Z.ltb_spec 1 (Z.abs q)) as [Hq2|Hq1].
    + (* nilpotent *)
      split; [|split; [constructor|constructor]].
      cbn [den map]. unfold lapp. rewrite lc_scale_0; [reflexivity|].
      rewrite opact_cf by auto. cbn [fst].
      rewrite (wloc_bin_eq _ Ek). unfold wloc.
      destruct (Z.eqb_spec q 0), (Z.eqb_spec q 1), (Z.eqb_spec q (-1)); try lia. ring.
    + assert (Hq' : q = 1 \/ q = -1) by lia.
      set (h := fun t => mulop_bin (n_fermions ks) (isF (kget ks i)) i q t).
      assert (Hh : forall t, In t x -> h t = mulop_bin_sem ks i q t).
      { intros t Ht. apply mulop_bin_eq_sem; auto. rewrite Forall_forall in Hwf.
        apply pow_ok_length. apply (Hwf _ Ht). }
      assert (Hnd' : NoDup (map fst (flat_map (fun t => match h t with Some t' => [t'] | None => [] end) x))).
      { assert (E : flat_map (fun t => match h t with Some t' => [t'] | None => [] end) x
                    = flat_map (fun t => match mulop_bin_sem ks i q t with Some t' => [t'] | None => [] end) x).
        { clear -Hh. induction x; cbn [flat_map]; [reflexivity|].
          rewrite Hh by (left; auto). rewrite IHx; auto. intros; apply Hh; right; auto. }
        rewrite E.
        apply (NoDup_flat_map_opt (mulop_bin_sem ks i q) (fun p => upd p i (oget p i + q))); auto.
        - intros a b. apply upd_shift_inj.
        - intros t t' Ht. apply (mulop_bin_sem_fst ks i q t t' Ht). }
      rewrite dict_of_nodup by exact Hnd'.
      split.
      * unfold den at 1. rewrite flat_map_concat_map, concat_map, map_map, <- flat_map_concat_map.
        rewrite lapp_den. apply lc_eq_flat_map. intros t Ht.
        rewrite Forall_forall in Hwf. specialize (Hwf t Ht).
        pose proof (mulop_bin_sem_term ks i q t n Hi (pow_ok_length _ _ Hwf) Hn Ek
                      (pow_ok_get _ _ _ Hwf Hi Ek) (bok_get _ _ _ Hb Hi Ek) Hq') as HT.
        rewrite (Hh t Ht). destruct (mulop_bin_sem ks i q t) as [t'|]; cbn [map].
        -- apply lc_eq_cons; [|reflexivity]. rewrite HT. reflexivity.
        -- symmetry. apply lc_eq_zero_cons.
           unfold papp, pscale in HT. cbn [fst] in HT. unfold pscale. cbn [fst]. exact HT.
      * split; [exact Hnd'|].
        rewrite Forall_forall in *. intros t' Ht'. rewrite in_flat_map in Ht'.
        destruct Ht' as [t [Ht Hin]]. rewrite (Hh t Ht) in Hin.
        destruct (mulop_bin_sem ks i q t) as [t''|] eqn:E; [|destruct Hin].
        destruct Hin as [Hin|[]]. subst t''.
        destruct (mulop_bin_sem_fst _ _ _ _ _ E) as [E1 E2].
        unfold wf_term. rewrite E1. apply pow_ok_upd; [apply (Hwf _ Ht)|]. intros _. exact E2.
Qed.

(** ** weights: either the whole weight vanishes or every mode's weight is non-zero *)
Lemma ws_mode_nonzero ks p n i :
  (i < length ks)%nat -> length p = length ks -> length n = length ks ->
  ~ geq (ws ks p n) g0 -> ~ geq (wloc (kget ks i) (oget p i) (oget n i)) g0.
Proof.
  intros Hi Hp Hn Hnz Hz. apply Hnz.
  destruct (ws_has_factor ks i p n Hi Hp Hn) as [R HR]. rewrite HR, Hz. ring.
Qed.

(** ** _multiply_expr *)
Lemma mulexpr_subst_ok ks p n j :
  sig_ok ks = true -> length p = length ks -> length n = length ks ->
  ~ geq (ws ks p n) g0 ->
  geq (cval (mulexpr_subst ks p j) (omid n p)) (gz (oget n j)).
Proof.
  intros Hs Hp Hn Hnz. unfold mulexpr_subst.
  destruct (Nat.lt_ge_cases j (length ks)) as [Hj|Hj].
  2:{ assert (E : oget p j = 0) by (unfold oget; apply nth_overflow; lia).
      rewrite E. cbn [Z.eqb cval]. unfold oget. rewrite !nth_overflow by (rewrite ?omid_length; lia).
      reflexivity. }
  pose proof (ws_mode_nonzero ks p n j Hj Hp Hn Hnz) as Hw.
  destruct (sig_ok_index ks j Hs Hj) as [Hinf _]. rewrite Hinf.
  destruct (Z.eqb_spec (oget p j) 0) as [E|E].
  - cbn [cval]. rewrite oget_omid by (auto; congruence). rewrite E. replace (oget n j - Z.max 0 0) with (oget n j) by lia. reflexivity.
  - destruct (isInf (kget ks j)) eqn:Ek.
    + destruct (Z.ltb_spec 0 (oget p j)); cbn [cval]; rewrite oget_omid by (auto; congruence).
      * rewrite <- gz_add. replace (oget n j - Z.max (oget p j) 0 + oget p j) with (oget n j) by lia. reflexivity.
      * replace (oget n j - Z.max (oget p j) 0) with (oget n j) by lia. reflexivity.
    + rewrite (wloc_bin_eq _ Ek) in Hw. unfold wloc in Hw.
      destruct (Z.eqb_spec (oget p j) 0); [lia|].
      destruct (Z.eqb_spec (oget p j) 1) as [E1|E1].
      * rewrite E1. cbn [Z.ltb Z.compare cval].
        destruct (Z.eqb_spec (oget n j) 1) as [E2|E2]; [rewrite E2; reflexivity|].
        exfalso. apply Hw. reflexivity.
      * destruct (Z.eqb_spec (oget p j) (-1)) as [E3|E3]; [|exfalso; apply Hw; reflexivity].
        rewrite E3. cbn [Z.ltb Z.compare cval].
        destruct (Z.eqb_spec (oget n j) 0) as [E2|E2]; [rewrite E2; reflexivity|].
        exfalso. apply Hw. reflexivity.
Qed.

Lemma mulexpr_term ks p f e n :
  sig_ok ks = true -> length p = length ks -> length n = length ks ->
  peq (den_term ks (p, CMul f (csubst (mulexpr_subst ks p) e)) n)
      (pscale (cval e n) (den_term ks (p, f) n)).
Proof.
  intros Hs Hp Hn.
  rewrite !den_term_cf_eq by auto. unfold den_term_cf, pscale. cbn [fst snd cval].
  split; cbn [fst snd]; [|reflexivity].
  destruct (geq_dec (ws ks p n) g0) as [Hz|Hnz].
  - rewrite Hz. ring.
  - rewrite (cval_csubst (mulexpr_subst ks p) e (omid n p) n).
    + ring.
    + intros j. apply mulexpr_subst_ok; auto.
Qed.

Lemma map_fst_same (g : term -> cexpr) (x : nof) : map fst (map (fun t : term => (fst t, g t)) x) = map fst x.
Proof. rewrite map_map. reflexivity. Qed.

Theorem mulexpr_correct ks x e n :
  sig_ok ks = true -> wf_nof ks x -> length n = length ks ->
  lc_eq (den ks (mulexpr ks x e) n) (lapp (den ks x) (fact e n)) /\ wf_nof ks (mulexpr ks x e).
Proof.
  intros Hs [Hnd Hwf] Hn. unfold mulexpr.
  rewrite dict_of_nodup by (rewrite map_fst_same; exact Hnd).
  split.
  - rewrite den_map, lapp_den. apply lc_eq_map. intros [p f] Ht. cbn [fst snd fact].
    rewrite Forall_forall in Hwf. apply mulexpr_term; auto. apply pow_ok_length. apply (Hwf _ Ht).
  - split; [rewrite map_fst_same; exact Hnd|].
    rewrite Forall_forall in *. intros t' Ht'. rewrite in_map_iff in Ht'.
    destruct Ht' as [t [E Ht]]. subst t'. apply (Hwf _ Ht).
Qed.

(** ** _linearize_binary_operators *)
Lemma cval_lin1 f j M :
  (j < length M)%nat -> (oget M j = 0 \/ oget M j = 1) -> geq (cval (lin1 f j) M) (cval f M).
Proof.
  intros Hj Hv. unfold lin1. cbn [cval]. rewrite !cval_cset by auto.
  destruct Hv as [E|E]; rewrite E.
  - rewrite <- E at 2. rewrite upd_same. rewrite gz_0. ring.
  - rewrite <- E at 3. rewrite upd_same. rewrite gz_1. ring.
Qed.

Lemma cval_lin_fold f js M :
  (forall j, In j js -> (j < length M)%nat /\ (oget M j = 0 \/ oget M j = 1)) ->
  geq (cval (fold_left lin1 js f) M) (cval f M).
Proof.
  revert f; induction js as [|j js IH]; intros f H; cbn [fold_left]; [reflexivity|].
  rewrite IH by (intros; apply H; right; auto).
  apply cval_lin1; apply H; left; auto.
Qed.

Lemma omid_binary_ok ks p n j :
  bok ks n -> length p = length ks -> (j < length ks)%nat -> isInf (kget ks j) = false ->
  ~ geq (ws ks p n) g0 -> oget (omid n p) j = 0 \/ oget (omid n p) j = 1.
Proof.
  intros Hb Hp Hj Hk Hnz. pose proof (bok_length _ _ Hb) as Hn.
  pose proof (ws_mode_nonzero ks p n j Hj Hp Hn Hnz) as Hw.
  rewrite oget_omid by (auto; congruence).
  destruct (bok_get _ _ _ Hb Hj Hk) as [Hv|Hv]; rewrite Hv in *;
  rewrite (wloc_bin_eq _ Hk) in Hw; unfold wloc in Hw;
  destruct (Z.eqb_spec (oget p j) 0) as [E0|E0]; try (rewrite E0; cbn; auto; fail);
  destruct (Z.eqb_spec (oget p j) 1) as [E1|E1]; try (rewrite E1 in *; cbn in *; auto; try (exfalso; apply Hw; reflexivity); fail);
  destruct (Z.eqb_spec (oget p j) (-1)) as [E2|E2]; try (rewrite E2 in *; cbn in *; auto; try (exfalso; apply Hw; reflexivity); fail);
  exfalso; apply Hw; reflexivity.
Qed.

Theorem linearize_correct ks x n :
  sig_ok ks = true -> wf_nof ks x -> bok ks n ->
  lc_eq (den ks (linearize ks x) n) (den ks x n) /\ wf_nof ks (linearize ks x).
Proof.
  intros Hs [Hnd Hwf] Hb. pose proof (bok_length _ _ Hb) as Hn. unfold linearize.
  destruct (length (seq (n_inf ks) (length ks - n_inf ks)) =? 0)%nat; [split; [reflexivity|split; auto]|].
  rewrite dict_of_nodup by (rewrite map_fst_same; exact Hnd).
  split.
  - rewrite den_map. unfold den. apply lc_eq_map. intros [p f] Ht. cbn [fst snd].
    rewrite Forall_forall in Hwf. pose proof (pow_ok_length _ _ (Hwf _ Ht)) as Hp. cbn [fst] in Hp.
    rewrite !den_term_cf_eq by auto. unfold den_term_cf. cbn [fst snd].
    split; cbn [fst snd]; [|reflexivity].
    destruct (geq_dec (ws ks p n) g0) as [Hz|Hnz]; [rewrite Hz; ring|].
    rewrite cval_lin_fold; [reflexivity|].
    intros j Hj. rewrite in_seq in Hj.
    assert (Hjl : (j < length ks)%nat) by lia.
    split; [rewrite omid_length; lia|].
    apply (omid_binary_ok ks p n j); auto.
    destruct (sig_ok_index ks j Hs Hjl) as [Hinf _].
    destruct (Nat.ltb_spec j (n_inf ks)); [lia|]. auto.
  - split; [rewrite map_fst_same; exact Hnd|].
    rewrite Forall_forall in *. intros t' Ht'. rewrite in_map_iff in Ht'.
    destruct Ht' as [t [E Ht]]. subst t'. apply (Hwf _ Ht).
Qed.

(** ** linearity of a term in its coefficient; __add__, __neg__ *)
Lemma den_term_g_lin ks p g n :
  peq (den_term_g ks p g n)
      (pscale (g (snd (apass_aux ks p 0 (g1, n)))) (den_term_g ks p (fun _ => g1) n)).
Proof.
  unfold den_term_g. destruct (apass_aux ks p 0 (g1, n)) as [cA m]. cbn [snd].
  rewrite <- cpass_aux_pscale. apply cpass_aux_Proper.
  split; unfold papp, gact, pscale; cbn [fst snd]; [ring|reflexivity].
Qed.

Lemma lc_single_add a b D : lc_eq [pscale (gadd a b) D] [pscale a D; pscale b D].
Proof.
  intros m. destruct D as [c s]. unfold pscale. cbn [coef_at fst snd].
  destruct (occ_eqb s m); ring.
Qed.

Lemma den_term_CAdd ks p a b n :
  lc_eq [den_term ks (p, CAdd a b) n] [den_term ks (p, a) n; den_term ks (p, b) n].
Proof.
  change (den_term ks (p, CAdd a b) n) with (den_term_g ks p (cval (CAdd a b)) n).
  change (den_term ks (p, a) n) with (den_term_g ks p (cval a) n).
  change (den_term ks (p, b) n) with (den_term_g ks p (cval b) n).
  set (m := snd (apass_aux ks p 0 (g1, n))). set (D := den_term_g ks p (fun _ => g1) n).
  assert (H : forall f, peq (den_term_g ks p (cval f) n) (pscale (cval f m) D)) by (intros; apply den_term_g_lin).
  transitivity [pscale (cval (CAdd a b) m) D].
  { apply lc_eq_cons; [apply H|reflexivity]. }
  cbn [cval]. rewrite lc_single_add.
  apply lc_eq_cons; [symmetry; apply H|]. apply lc_eq_cons; [symmetry; apply H|reflexivity].
Qed.

Lemma den_cons ks t x n : den ks (t :: x) n = den_term ks t n :: den ks x n.
Proof. reflexivity. Qed.
Lemma den_app ks x y n : den ks (x ++ y) n = den ks x n ++ den ks y n.
Proof. unfold den. apply map_app. Qed.

Lemma lc_eq_swap_mid (a b : G * occ) l : lc_eq (a :: l ++ [b]) (a :: b :: l).
Proof.
  intros m. destruct a as [ca sa], b as [cb sb]. cbn [coef_at]. rewrite coef_at_app. cbn [coef_at].
  ring.
Qed.

Lemma dadd_den ks k v d n : lc_eq (den ks (dadd k v d) n) (den ks d n ++ [den_term ks (k, v) n]).
Proof.
  induction d as [|[k' v'] d IH]; cbn [dadd].
  - reflexivity.
  - destruct (occ_eqb_spec k' k) as [E|E].
    + subst k'. rewrite !den_cons.
      change (den_term ks (k, CAdd v' v) n :: den ks d n) with ([den_term ks (k, CAdd v' v) n] ++ den ks d n).
      rewrite den_term_CAdd. cbn [app].
      symmetry. apply lc_eq_swap_mid.
    + rewrite !den_cons. cbn [app]. apply lc_eq_cons; [reflexivity|exact IH].
Qed.

Lemma dadd_keys k v d : map fst (dadd k v d) = if in_dec (list_eq_dec Z.eq_dec) k (map fst d) then map fst d else map fst d ++ [k].
Proof.
  induction d as [|[k' v'] d IH]; cbn [dadd map fst].
  - destruct (in_dec _ k []); [contradiction|reflexivity].
  - destruct (occ_eqb_spec k' k) as [E|E].
    + subst. cbn [map fst]. destruct (in_dec _ k (k :: map fst d)) as [|Hn]; [reflexivity|exfalso; apply Hn; left; auto].
    + cbn [map fst]. rewrite IH.
      destruct (in_dec _ k (map fst d)) as [Hi|Hi], (in_dec _ k (k' :: map fst d)) as [Hj|Hj]; try reflexivity.
      * exfalso. apply Hj. right. auto.
      * exfalso. destruct Hj; auto.
Qed.

Lemma NoDup_snoc {A} (l : list A) a : NoDup l -> ~ In a l -> NoDup (l ++ [a]).
Proof.
  induction l as [|b l IH]; intros Hn Hi; cbn [app].
  - constructor; [intros []|constructor].
  - inversion Hn; subst. constructor.
    + rewrite in_app_iff. intros [H|[H|[]]]; [auto|]. subst. apply Hi. left; auto.
    + apply IH; auto. intro; apply Hi; right; auto.
Qed.

Lemma dadd_wf ks k v d : wf_nof ks d -> pow_ok ks k -> wf_nof ks (dadd k v d).
Proof.
  intros [Hnd Hwf] Hk. split.
  - rewrite dadd_keys. destruct (in_dec _ k (map fst d)); auto.
    apply NoDup_snoc; auto.
  - induction d as [|[k' v'] d IH]; cbn [dadd].
    + constructor; auto.
    + inversion Hwf; subst. inversion Hnd; subst.
      destruct (occ_eqb k' k); constructor; auto.
Qed.

Lemma fold_dadd_den ks l : forall acc n,
  lc_eq (den ks (fold_left (fun d t => dadd (fst t) (snd t) d) l acc) n) (den ks acc n ++ den ks l n).
Proof.
  induction l as [|[k v] l IH]; intros acc n; cbn [fold_left].
  - cbn [den map]. rewrite app_nil_r. reflexivity.
  - rewrite IH. cbn [fst snd]. rewrite dadd_den. rewrite den_cons. rewrite <- app_assoc. reflexivity.
Qed.
Lemma fold_dadd_wf ks l : forall acc, wf_nof ks acc -> Forall (wf_term ks) l ->
  wf_nof ks (fold_left (fun d t => dadd (fst t) (snd t) d) l acc).
Proof.
  induction l as [|[k v] l IH]; intros acc Ha Hl; cbn [fold_left]; auto.
  inversion Hl; subst. apply IH; auto. apply dadd_wf; auto.
Qed.

Lemma wf_nil ks : wf_nof ks [].
Proof. split; constructor. Qed.

Theorem add_correct ks x y n :
  lc_eq (den ks (add x y) n) (den ks x n ++ den ks y n).
Proof. unfold add. rewrite fold_dadd_den. cbn [den map app]. rewrite den_app. reflexivity. Qed.
Theorem add_wf ks x y : wf_nof ks x -> wf_nof ks y -> wf_nof ks (add x y).
Proof.
  intros [_ Hx] [_ Hy]. unfold add. apply fold_dadd_wf; [apply wf_nil|]. apply Forall_app; auto.
Qed.

Lemma den_term_scale ks p f g c n :
  (forall M, geq (cval g M) (gmul c (cval f M))) ->
  peq (den_term ks (p, g) n) (pscale c (den_term ks (p, f) n)).
Proof.
  intros H.
  change (den_term ks (p, g) n) with (den_term_g ks p (cval g) n).
  change (den_term ks (p, f) n) with (den_term_g ks p (cval f) n).
  rewrite (den_term_g_lin ks p (cval g)), (den_term_g_lin ks p (cval f)).
  rewrite pscale_pscale. apply pscale_Proper; [apply H|reflexivity].
Qed.

Theorem neg_correct ks x n : lc_eq (den ks (neg x) n) (lc_scale (gopp g1) (den ks x n)).
Proof.
  unfold neg. rewrite den_map. unfold den, lc_scale. rewrite map_map.
  apply lc_eq_map. intros [p f] _. cbn [fst snd].
  apply den_term_scale. intros M. cbn [cval]. ring.
Qed.
Theorem neg_wf ks x : wf_nof ks x -> wf_nof ks (neg x).
Proof.
  intros [Hnd Hwf]. unfold neg. split; [rewrite map_fst_same; auto|].
  rewrite Forall_forall in *. intros t' Ht'. rewrite in_map_iff in Ht'.
  destruct Ht' as [t [E Ht]]. subst t'. apply (Hwf _ Ht).
Qed.

(** ** validity of intermediate states: zero weight or physical spin/fermion occupations *)
Definition vok (ks : sig) (cs : G * list Z) : Prop := geq (fst cs) g0 \/ bok ks (snd cs).

Lemma vok_opact ks i q cs : (i < length ks)%nat -> vok ks cs -> vok ks (papp (opact ks i q) cs).
Proof.
  intros Hi [Hz|Hb]; destruct cs as [c n]; cbn [fst snd] in *.
  - left. unfold papp, pscale. cbn [fst snd]. rewrite Hz. ring.
  - pose proof (bok_length _ _ Hb) as Hn.
    unfold papp. cbn [fst snd].
    assert (HP : peq (pscale c (opact ks i q n))
                     (pscale c (gmul (gsgn (jw ks i n && Z.odd q)) (wloc (kget ks i) q (oget n i)), upd n i (oget n i - q))))
      by (rewrite opact_cf by auto; reflexivity).
    destruct HP as [HP1 HP2]. unfold vok. rewrite HP1, HP2. unfold pscale. cbn [fst snd].
    destruct (isInf (kget ks i)) eqn:Ek.
    + right. apply bok_upd; auto. intros HH; rewrite Ek in HH; discriminate.
    + rewrite (wloc_bin_eq _ Ek). unfold wloc.
      destruct (bok_get _ _ _ Hb Hi Ek) as [Hv|Hv]; rewrite Hv.
      * destruct (Z.eqb_spec q 0); [subst; right; replace (0 - 0) with 0 by lia; rewrite <- Hv, upd_same; auto|].
        destruct (Z.eqb_spec q 1); [subst; left; cbn; ring|].
        destruct (Z.eqb_spec q (-1)); [subst; right; apply bok_upd; auto|].
        left. ring.
      * destruct (Z.eqb_spec q 0); [subst; right; replace (1 - 0) with 1 by lia; rewrite <- Hv, upd_same; auto|].
        destruct (Z.eqb_spec q 1); [subst; right; apply bok_upd; auto|].
        destruct (Z.eqb_spec q (-1)); [subst; left; cbn; ring|].
        left. ring.
Qed.

Lemma vok_peq ks a b : peq a b -> vok ks a -> vok ks b.
Proof. intros [H1 H2] [H|H]; [left; rewrite <- H1; auto|right; rewrite <- H2; auto]. Qed.

Lemma vok_fact ks f cs : vok ks cs -> vok ks (papp (fact f) cs).
Proof.
  intros [Hz|Hb]; destruct cs as [c n]; unfold vok, papp, fact, pscale; cbn [fst snd] in *.
  - left. rewrite Hz. ring.
  - right. auto.
Qed.

Lemma vok_apass ks p : forall i cs, (i + length p <= length ks)%nat -> vok ks cs -> vok ks (apass_aux ks p i cs).
Proof.
  induction p as [|q r IH]; intros i cs Hi Hv; cbn [apass_aux]; auto.
  cbn [length] in Hi. apply IH; [lia|].
  destruct (0 <? q); auto. apply vok_opact; auto. lia.
Qed.
Lemma vok_cpass ks p : forall i cs, (i + length p <= length ks)%nat -> vok ks cs -> vok ks (cpass_aux ks p i cs).
Proof.
  induction p as [|q r IH]; intros i cs Hi Hv; cbn [cpass_aux]; auto.
  cbn [length] in Hi.
  destruct (q <? 0); [apply vok_opact; [lia|]|]; apply IH; auto; lia.
Qed.

(** a map applied to a weighted state of zero weight *)
Lemma lapp_zero F cs : geq (fst cs) g0 -> lc_eq (lapp F cs) [].
Proof. intros H. unfold lapp. apply lc_scale_0. auto. Qed.

(** ** the three passes of __mul__ *)
Lemma creation_pass_correct ks : sig_ok ks = true -> forall p i part n,
  (i + length p = length ks)%nat -> wf_nof ks part -> bok ks n ->
  lc_eq (den ks (creation_pass ks part p i) n) (lapp (den ks part) (cpass_aux ks p i (g1, n)))
  /\ wf_nof ks (creation_pass ks part p i).
Proof.
  intros Hs. induction p as [|q r IH]; intros i part n Hi Hwf Hb.
  - cbn [creation_pass cpass_aux]. split; auto. unfold lapp. cbn [fst snd]. rewrite lc_scale_1. reflexivity.
  - cbn [creation_pass cpass_aux]. cbn [length] in Hi.
    destruct (Z.ltb_spec q 0) as [Hq|Hq].
    + destruct (IH (S i) (mulop_raw ks part i q) n ltac:(lia)) as [H1 H2]; auto.
      { apply (mulop_raw_correct ks part i q n); auto; lia. }
      split; auto. rewrite H1.
      assert (Hv : vok ks (cpass_aux ks r (S i) (g1, n))) by (apply vok_cpass; [lia|right; auto]).
      destruct (cpass_aux ks r (S i) (g1, n)) as [c1 n1].
      destruct Hv as [Hz|Hb1]; cbn [fst snd] in *.
      * rewrite !lapp_zero; [reflexivity| |]; unfold papp, pscale; cbn [fst snd]; [rewrite Hz; ring|exact Hz].
      * unfold lapp at 1. cbn [fst snd].
        destruct (mulop_raw_correct ks part i q n1 Hs Hwf Hb1 ltac:(lia) ltac:(lia)) as [HM _].
        rewrite HM. unfold papp. cbn [fst snd]. rewrite lapp_pscale. reflexivity.
    + apply IH; auto. lia.
Qed.

Lemma annihilation_pass_correct ks : sig_ok ks = true -> forall p i part n,
  (i + length p = length ks)%nat -> wf_nof ks part -> bok ks n ->
  lc_eq (den ks (annihilation_pass ks part p i) n) (lapp (den ks part) (apass_aux ks p i (g1, n)))
  /\ wf_nof ks (annihilation_pass ks part p i).
Proof.
  intros Hs. induction p as [|q r IH]; intros i part n Hi Hwf Hb.
  - cbn [annihilation_pass apass_aux]. split; auto. unfold lapp. cbn [fst snd]. rewrite lc_scale_1. reflexivity.
  - cbn [annihilation_pass apass_aux]. cbn [length] in Hi.
    assert (Hwf' : wf_nof ks (annihilation_pass ks part r (S i))).
    { destruct (IH (S i) part n ltac:(lia) Hwf Hb); auto. }
    destruct (Z.ltb_spec 0 q) as [Hq|Hq].
    + destruct (mulop_raw_correct ks (annihilation_pass ks part r (S i)) i q n Hs Hwf' Hb ltac:(lia) ltac:(lia)) as [HM HW].
      split; auto. rewrite HM.
      assert (Hv : vok ks (papp (opact ks i q) (g1, n))) by (apply vok_opact; [lia|right; auto]).
      assert (HP : peq (papp (opact ks i q) (g1, n)) (opact ks i q n)).
      { unfold papp. cbn [fst snd]. apply pscale_1. }
      rewrite HP. apply (vok_peq _ _ _ HP) in Hv.
      destruct (opact ks i q n) as [c1 n1].
      destruct Hv as [Hz|Hb1]; cbn [fst snd] in *.
      * rewrite lapp_zero by (cbn [fst]; auto).
        assert (HQ : peq (apass_aux ks r (S i) (c1, n1)) (pscale c1 (apass_aux ks r (S i) (g1, n1)))).
        { rewrite <- apass_aux_pscale. apply apass_aux_Proper. split; unfold pscale; cbn [fst snd]; [ring|reflexivity]. }
        rewrite HQ, lapp_pscale. rewrite lc_scale_0 by auto. reflexivity.
      * unfold lapp at 1. cbn [fst snd].
        destruct (IH (S i) part n1 ltac:(lia) Hwf Hb1) as [H1 _]. rewrite H1.
        rewrite <- lapp_pscale. apply lapp_Proper.
        rewrite <- apass_aux_pscale. apply apass_aux_Proper. split; unfold pscale; cbn [fst snd]; [ring|reflexivity].
    + destruct (IH (S i) part n ltac:(lia) Hwf Hb) as [H1 H2]. split; auto.
Qed.

Theorem mul_term_correct ks x t n :
  sig_ok ks = true -> wf_nof ks x -> wf_term ks t -> bok ks n ->
  lc_eq (den ks (mul_term ks x t) n) (lapp (den ks x) (den_term ks t n))
  /\ wf_nof ks (mul_term ks x t).
Proof.
  intros Hs Hwf Ht Hb. destruct t as [p f]. unfold wf_term in Ht. cbn [fst] in Ht.
  pose proof (pow_ok_length _ _ Ht) as Hp. pose proof (bok_length _ _ Hb) as Hn.
  unfold mul_term. cbn [fst snd].
  (* well-formedness of the intermediate forms *)
  assert (W1 : wf_nof ks (creation_pass ks x p 0)).
  { destruct (creation_pass_correct ks Hs p 0%nat x n ltac:(lia) Hwf Hb); auto. }
  assert (W2 : wf_nof ks (mulexpr ks (creation_pass ks x p 0) f)).
  { destruct (mulexpr_correct ks (creation_pass ks x p 0) f n Hs W1 Hn); auto. }
  destruct (annihilation_pass_correct ks Hs p 0%nat _ n ltac:(lia) W2 Hb) as [HA W3].
  destruct (linearize_correct ks _ n Hs W3 Hb) as [HL W4].
  split; auto.
  rewrite HL, HA.
  unfold den_term. cbn [fst snd].
  assert (Hv : vok ks (apass_aux ks p 0 (g1, n))) by (apply vok_apass; [lia|right; auto]).
  destruct (apass_aux ks p 0 (g1, n)) as [cA nA].
  destruct Hv as [Hz|HbA]; cbn [fst snd] in *.
  - rewrite lapp_zero by (cbn [fst]; auto).
    assert (HQ : peq (cpass_aux ks p 0 (papp (fact f) (cA, nA)))
                     (pscale cA (cpass_aux ks p 0 (papp (fact f) (g1, nA))))).
    { rewrite <- cpass_aux_pscale. apply cpass_aux_Proper. rewrite <- papp_pscale. apply papp_Proper.
      split; unfold pscale; cbn [fst snd]; [ring|reflexivity]. }
    rewrite HQ, lapp_pscale, lc_scale_0 by auto. reflexivity.
  - pose proof (bok_length _ _ HbA) as HnA.
    unfold lapp at 1. cbn [fst snd].
    destruct (mulexpr_correct ks (creation_pass ks x p 0) f nA Hs W1 HnA) as [HE _].
    rewrite HE. unfold lapp at 1, fact at 1. cbn [fst snd].
    destruct (creation_pass_correct ks Hs p 0%nat x nA ltac:(lia) Hwf HbA) as [HC _].
    rewrite HC. rewrite <- !lapp_pscale. apply lapp_Proper.
    rewrite <- !cpass_aux_pscale. apply cpass_aux_Proper.
    split; unfold papp, fact, pscale; cbn [fst snd]; [ring|reflexivity].
Qed.

Lemma mul_fold_correct ks x : sig_ok ks = true -> wf_nof ks x -> forall y acc n,
  Forall (wf_term ks) y -> wf_nof ks acc -> bok ks n ->
  lc_eq (den ks (fold_left (fun res t => add res (mul_term ks x t)) y acc) n)
        (den ks acc n ++ lc_bind (den ks y n) (den ks x))
  /\ wf_nof ks (fold_left (fun res t => add res (mul_term ks x t)) y acc).
Proof.
  intros Hs Hwf. induction y as [|t y IH]; intros acc n Hy Ha Hb; cbn [fold_left].
  - split; auto. cbn [den map lc_bind flat_map]. rewrite app_nil_r. reflexivity.
  - inversion Hy; subst.
    destruct (mul_term_correct ks x t n Hs Hwf H1 Hb) as [HT HW].
    destruct (IH (add acc (mul_term ks x t)) n H2 (add_wf _ _ _ Ha HW) Hb) as [H3 H4].
    split; auto. rewrite H3, add_correct, HT. rewrite den_cons, lc_bind_cons, <- app_assoc. reflexivity.
Qed.

Theorem mul_correct ks x y n :
  sig_ok ks = true -> wf_nof ks x -> wf_nof ks y -> bok ks n ->
  lc_eq (den ks (mul ks x y) n) (lc_bind (den ks y n) (den ks x)) /\ wf_nof ks (mul ks x y).
Proof.
  intros Hs Hx [_ Hy] Hb. unfold mul.
  destruct (mul_fold_correct ks x Hs Hx y [] n Hy (wf_nil ks) Hb) as [H1 H2]. split; auto.
Qed.
