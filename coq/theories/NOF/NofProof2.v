(** * Adjoint, powers, and the algebraic corollaries *)
Require Import List ZArith QArith Lia Setoid Morphisms Bool.
Require Import PV.NOF.Gauss PV.NOF.Coeff PV.NOF.Fock PV.NOF.FockLemmas PV.NOF.LinComb PV.NOF.Model
  PV.NOF.MulOpProof PV.NOF.FermiSign PV.NOF.SigLemmas PV.NOF.NofProof.
Import ListNotations.
Local Open Scope Z_scope.

(** ** physical states and the weight of the non-normalised boson basis: <e_n,e_n> = n! *)
Fixpoint phys (ks : sig) (n : list Z) : Prop :=
  match ks, n with
  | k :: ks', v :: n' => (isInf k = false -> v = 0 \/ v = 1) /\ (k = Boson -> 0 <= v) /\ phys ks' n'
  | [], [] => True
  | _, _ => False
  end.
Fixpoint mu (ks : sig) (n : list Z) : G :=
  match ks, n with
  | k :: ks', v :: n' => gmul (if isB k then ffall v (Z.to_nat v) else g1) (mu ks' n')
  | _, _ => g1
  end.

Lemma phys_bok ks : forall n, phys ks n -> bok ks n.
Proof. induction ks; destruct n; cbn; try tauto. intros [H1 [H2 H3]]. split; auto. Qed.

Lemma gconj_ffall v k : geq (gconj (ffall v k)) (ffall v k).
Proof. revert v; induction k; intros v; cbn [ffall]; [apply gconj_1|]. rewrite gconj_mul, gconj_gz, IHk. reflexivity. Qed.
Lemma gconj_gind b : geq (gconj (gind b)) (gind b).
Proof. destruct b; [apply gconj_1|apply gconj_0]. Qed.
Lemma gconj_wloc k q v : geq (gconj (wloc k q v)) (wloc k q v).
Proof.
  destruct k; unfold wloc; try apply gconj_ffall; try apply gconj_1;
  destruct (q =? 0); try apply gconj_1; destruct (q =? 1); try apply gconj_gind;
  destruct (q =? -1); try apply gconj_gind; apply gconj_0.
Qed.
Lemma gconj_ws ks : forall p n, geq (gconj (ws ks p n)) (ws ks p n).
Proof.
  induction ks; intros p n; destruct p, n; cbn [ws]; try apply gconj_1.
  rewrite !gconj_mul, gconj_wloc, gconj_gsgn, IHks. reflexivity.
Qed.

Lemma parF_opp ks : forall p, parF ks (map Z.opp p) = parF ks p.
Proof. induction ks; intros p; destruct p; cbn [map parF]; auto. rewrite Z.odd_opp, IHks. reflexivity. Qed.

Ltac zb := repeat match goal with
  | |- context [Z.eqb ?a ?b] => let r := eval vm_compute in (Z.eqb a b) in
        match r with true => change (Z.eqb a b) with true | false => change (Z.eqb a b) with false end
  end; cbn [gind].

Lemma wloc_adj k q v :
  (isInf k = false -> (v = 0 \/ v = 1) /\ (v - q = 0 \/ v - q = 1)) ->
  (k = Boson -> 0 <= v /\ 0 <= v - q) ->
  geq (gmul (wloc k q v) (if isB k then ffall (v - q) (Z.to_nat (v - q)) else g1))
      (gmul (wloc k (- q) (v - q)) (if isB k then ffall v (Z.to_nat v) else g1)).
Proof.
  intros Hb HB. destruct k; cbn [isB wloc].
  - destruct (HB eq_refl) as [H1 H2].
    destruct (Z.le_gt_cases 0 q).
    + replace (Z.to_nat (- q)) with O by lia. cbn [ffall].
      replace (Z.to_nat v) with (Z.to_nat q + Z.to_nat (v - q))%nat by lia.
      rewrite ffall_add. replace (v - Z.of_nat (Z.to_nat q)) with (v - q) by lia. ring.
    + replace (Z.to_nat q) with O by lia. cbn [ffall].
      replace (Z.to_nat (v - q)) with (Z.to_nat (- q) + Z.to_nat v)%nat by lia.
      rewrite ffall_add. replace (v - q - Z.of_nat (Z.to_nat (- q))) with v by lia. ring.
  - ring.
  - destruct (Hb eq_refl) as [H1 H2].
    destruct (Z.eqb_spec q 0); [subst; zb; ring|].
    destruct (Z.eqb_spec q 1); [subst; destruct H1; subst v; zb; ring|].
    destruct (Z.eqb_spec q (-1)); [subst; destruct H1; subst v; zb; ring|].
    destruct (Z.eqb_spec (- q) 0), (Z.eqb_spec (- q) 1), (Z.eqb_spec (- q) (-1)); try lia; try ring.
  - destruct (Hb eq_refl) as [H1 H2].
    destruct (Z.eqb_spec q 0); [subst; zb; ring|].
    destruct (Z.eqb_spec q 1); [subst; destruct H1; subst v; zb; ring|].
    destruct (Z.eqb_spec q (-1)); [subst; destruct H1; subst v; zb; ring|].
    destruct (Z.eqb_spec (- q) 0), (Z.eqb_spec (- q) 1), (Z.eqb_spec (- q) (-1)); try lia; try ring.
Qed.

Lemma ws_adj ks : forall p n, length p = length ks -> phys ks n -> phys ks (osub n p) ->
  geq (gmul (ws ks p n) (mu ks (osub n p))) (gmul (ws ks (map Z.opp p) (osub n p)) (mu ks n)).
Proof.
  induction ks as [|k ks IH]; intros p n Hp Hn Hm; destruct p as [|q p]; try discriminate;
    destruct n as [|v n]; cbn in Hn; try tauto.
  - cbn. ring.
  - injection Hp as Hp. cbn [osub] in Hm. destruct Hn as [Hn1 [Hn2 Hn3]]. destruct Hm as [Hm1 [Hm2 Hm3]].
    cbn [map osub ws mu]. rewrite parF_opp.
    replace (v - q - Z.max (- q) 0) with (v - Z.max q 0) by lia.
    pose proof (wloc_adj k q v) as HW.
    specialize (IH p n Hp Hn3 Hm3).
    transitivity (gmul (gmul (wloc k q v) (if isB k then ffall (v - q) (Z.to_nat (v - q)) else g1))
                  (gmul (gsgn (isF k && (v - Z.max q 0 =? 1) && parF ks p))
                        (gmul (ws ks p n) (mu ks (osub n p))))); [ring|].
    rewrite HW, IH by auto. ring.
Qed.

Lemma omid_opp : forall n p, length p = length n -> omid (osub n p) (map Z.opp p) = omid n p.
Proof.
  induction n as [|v n IH]; intros p H; destruct p as [|q p]; try discriminate; [reflexivity|].
  cbn [osub map omid]. f_equal; [lia|]. apply IH. cbn in H; lia.
Qed.
Lemma osub_opp : forall n p, length p = length n -> osub (osub n p) (map Z.opp p) = n.
Proof.
  induction n as [|v n IH]; intros p H; destruct p as [|q p]; try discriminate; [reflexivity|].
  cbn [osub map]. f_equal; [lia|]. apply IH. cbn in H; lia.
Qed.
Lemma osub_inj_l : forall n m p, length p = length n -> length m = length n ->
  osub m (map Z.opp p) = n -> osub n p = m.
Proof.
  induction n as [|v n IH]; intros m p H1 H2 H; destruct p as [|q p], m as [|w m]; try discriminate; [reflexivity|].
  cbn [osub map] in *. injection H as Ha Hb. f_equal; [lia|]. apply IH; auto; cbn in *; lia.
Qed.

Lemma pow_ok_opp ks : forall p, pow_ok ks p -> pow_ok ks (map Z.opp p).
Proof. induction ks; intros p; destruct p; cbn; try tauto. intros [H1 H2]. split; auto. intros HH. specialize (H1 HH). lia. Qed.

(** one term: <t e_n, e_m> = <e_n, t† e_m> *)
Lemma adj_term ks p f n m :
  pow_ok ks p -> phys ks n -> phys ks m ->
  geq (gmul (gconj (coef_at m [den_term ks (p, f) n])) (mu ks m))
      (gmul (coef_at n [den_term ks (map Z.opp p, cconj f) m]) (mu ks n)).
Proof.
  intros Hp Hn Hm. pose proof (pow_ok_length _ _ Hp) as Hlp.
  pose proof (bok_length _ _ (phys_bok _ _ Hn)) as Hln. pose proof (bok_length _ _ (phys_bok _ _ Hm)) as Hlm.
  rewrite (coef_at_peq m _ _ (den_term_cf_eq ks (p, f) n Hlp Hln)).
  rewrite (coef_at_peq n _ _ (den_term_cf_eq ks (map Z.opp p, cconj f) m ltac:(cbn [fst]; rewrite map_length; auto) Hlm)).
  unfold den_term_cf. cbn [fst snd coef_at].
  destruct (occ_eqb_spec (osub n p) m) as [E|E].
  - subst m. rewrite osub_opp by congruence. rewrite occ_eqb_refl.
    rewrite omid_opp by congruence. rewrite cval_cconj.
    pose proof (ws_adj ks p n Hlp Hn Hm) as HW.
    assert (E1 : geq (gconj (gadd (gmul (ws ks p n) (cval f (omid n p))) g0))
                     (gmul (ws ks p n) (gconj (cval f (omid n p))))).
    { rewrite gconj_add, gconj_mul, gconj_ws, gconj_0. ring. }
    rewrite E1.
    transitivity (gmul (gmul (ws ks p n) (mu ks (osub n p))) (gconj (cval f (omid n p)))); [ring|].
    rewrite HW. ring.
  - destruct (occ_eqb_spec (osub m (map Z.opp p)) n) as [E2|E2].
    + exfalso. apply E. apply osub_inj_l; auto; congruence.
    + assert (E0 : geq (gconj (gadd g0 g0)) g0) by (rewrite gconj_add, gconj_0; ring).
      rewrite E0. ring.
Qed.

Theorem adj_correct ks x n m :
  wf_nof ks x -> phys ks n -> phys ks m ->
  geq (gmul (gconj (melt ks x n m)) (mu ks m)) (gmul (melt ks (adj x) m n) (mu ks n)).
Proof.
  intros [_ Hwf] Hn Hm. unfold melt, adj.
  induction x as [|[p f] x IH].
  - cbn [den map coef_at]. rewrite gconj_0. ring.
  - inversion Hwf; subst. specialize (IH H2).
    cbn [map fst snd]. rewrite !den_cons.
    change (den_term ks (p, f) n :: den ks x n) with ([den_term ks (p, f) n] ++ den ks x n).
    change (den_term ks (map Z.opp p, cconj f) m :: den ks (map (fun t : term => (map Z.opp (fst t), cconj (snd t))) x) m)
      with ([den_term ks (map Z.opp p, cconj f) m] ++ den ks (map (fun t : term => (map Z.opp (fst t), cconj (snd t))) x) m).
    rewrite !coef_at_app, gconj_add.
    pose proof (adj_term ks p f n m H1 Hn Hm) as HT.
    transitivity (gadd (gmul (gconj (coef_at m [den_term ks (p, f) n])) (mu ks m))
                       (gmul (gconj (coef_at m (den ks x n))) (mu ks m))); [ring|].
    rewrite HT, IH. ring.
Qed.

Lemma map_opp_inj (a b : list Z) : map Z.opp a = map Z.opp b -> a = b.
Proof.
  revert b; induction a; destruct b; cbn; intros H; try discriminate; auto.
  injection H as H1 H2. f_equal; auto. lia.
Qed.
Theorem adj_wf ks x : wf_nof ks x -> wf_nof ks (adj x).
Proof.
  intros [Hnd Hwf]. unfold adj. split.
  - assert (E : map fst (map (fun t : term => (map Z.opp (fst t), cconj (snd t))) x) = map (map Z.opp) (map fst x))
      by (rewrite !map_map; reflexivity).
    rewrite E. apply NoDup_map_inj; auto. apply map_opp_inj.
  - rewrite Forall_forall in *. intros t' Ht'. rewrite in_map_iff in Ht'.
    destruct Ht' as [t [E Ht]]. subst t'. unfold wf_term. cbn [fst]. apply pow_ok_opp. apply (Hwf _ Ht).
Qed.

(** ** __pow__ *)
Lemma apass_zeros ks (l : sig) : forall i cs, apass_aux ks (zeros l) i cs = cs.
Proof. induction l; intros i cs; cbn [zeros map apass_aux]; auto. Qed.
Lemma cpass_zeros ks (l : sig) : forall i cs, cpass_aux ks (zeros l) i cs = cs.
Proof. induction l; intros i cs; cbn [zeros map cpass_aux]; auto. change (0 <? 0) with false. cbv iota. apply IHl. Qed.

Lemma den_one ks n : lc_eq (den ks (one_nof ks) n) [(g1, n)].
Proof.
  unfold one_nof, den, den_term. cbn [map fst snd]. rewrite apass_zeros, cpass_zeros.
  apply lc_eq_cons; [|reflexivity]. split; unfold papp, fact, pscale; cbn [fst snd cval]; [ring|reflexivity].
Qed.
Lemma pow_ok_zeros ks : pow_ok ks (zeros ks).
Proof. induction ks; cbn; auto. split; auto. intros; lia. Qed.
Lemma one_wf ks : wf_nof ks (one_nof ks).
Proof.
  split; cbn; [constructor; [intros []|constructor]|]. constructor; [|constructor]. apply pow_ok_zeros.
Qed.

Lemma mul_n_succ ks x : forall k acc, mul_n ks x acc (S k) = mul ks (mul_n ks x acc k) x.
Proof. induction k; intros acc; [reflexivity|]. cbn [mul_n] in *. rewrite <- IHk. reflexivity. Qed.

Lemma mul_n_wf ks x : sig_ok ks = true -> wf_nof ks x -> (exists n, bok ks n) ->
  forall k acc, wf_nof ks acc -> wf_nof ks (mul_n ks x acc k).
Proof.
  intros Hs Hx [n Hb]. induction k; intros acc Ha; cbn [mul_n]; auto.
  apply IHk. apply (mul_correct ks acc x n); auto.
Qed.

(** x**0 is the identity; x**1 = x; x**(e+1) = x**e * x for e >= 1 *)
Theorem pow_zero ks x n : exists y, pow ks x 0 = Ok y /\ lc_eq (den ks y n) [(g1, n)] /\ wf_nof ks y.
Proof. exists (one_nof ks). split; [reflexivity|]. split; [apply den_one|apply one_wf]. Qed.
Theorem pow_one ks x : pow ks x 1 = Ok x.
Proof. reflexivity. Qed.
Theorem pow_succ ks x e : 1 <= e ->
  exists y, pow ks x e = Ok y /\ pow ks x (e + 1) = Ok (mul ks y x).
Proof.
  intros He. exists (mul_n ks x x (Z.to_nat e - 1)). unfold pow.
  destruct (Z.eqb_spec e 0); [lia|]. destruct (Z.eqb_spec (e + 1) 0); [lia|].
  destruct (Z.ltb_spec 0 e); [|lia]. destruct (Z.ltb_spec 0 (e + 1)); [|lia].
  split; [reflexivity|].
  replace (Z.to_nat (e + 1) - 1)%nat with (S (Z.to_nat e - 1)) by lia.
  rewrite mul_n_succ. reflexivity.
Qed.

Theorem pow_correct ks x e n :
  sig_ok ks = true -> wf_nof ks x -> bok ks n -> 0 <= e ->
  exists y y', pow ks x e = Ok y /\ pow ks x (e + 1) = Ok y' /\ wf_nof ks y /\ wf_nof ks y' /\
               lc_eq (den ks y' n) (lc_bind (den ks x n) (den ks y)).
Proof.
  intros Hs Hx Hb He.
  destruct (Z.eq_dec e 0) as [E|E].
  - subst e. exists (one_nof ks), x.
    split; [reflexivity|]. split; [reflexivity|]. split; [apply one_wf|]. split; [exact Hx|].
    symmetry. rewrite (lc_bind_ext _ _ (fun s => [(g1, s)])) by (intros; apply den_one).
    apply lc_bind_unit.
  - destruct (pow_succ ks x e ltac:(lia)) as [y [H1 H2]].
    exists y, (mul ks y x).
    assert (Hy : wf_nof ks y).
    { unfold pow in H1. destruct (Z.eqb_spec e 0); [lia|]. destruct (Z.ltb_spec 0 e); [|lia].
      injection H1 as H1. subst y. apply mul_n_wf; auto. exists n; auto. }
    destruct (mul_correct ks y x n Hs Hy Hx Hb) as [HM HW].
    split; [exact H1|]. split; [exact H2|]. split; [exact Hy|]. split; [exact HW|exact HM].
Qed.

(** ** corollaries: the model operations form a *-algebra homomorphism into Fock-space operators *)
Definition den_eq (ks : sig) (x y : nof) : Prop := forall n, bok ks n -> lc_eq (den ks x n) (den ks y n).

(** every basis state reached with non-zero weight from a valid state is valid *)
Lemma vok_den_term ks t n : wf_term ks t -> bok ks n -> vok ks (den_term ks t n).
Proof.
  intros Ht Hb. pose proof (pow_ok_length _ _ Ht) as Hp. unfold den_term.
  apply vok_cpass; [lia|]. apply vok_fact. apply vok_apass; [lia|]. right; auto.
Qed.

Lemma lc_bind_ext_vok ks l F F' :
  Forall (vok ks) l -> (forall s, bok ks s -> lc_eq (F s) (F' s)) -> lc_eq (lc_bind l F) (lc_bind l F').
Proof.
  intros Hv H. induction l as [|[c s] l IH]; [reflexivity|].
  inversion Hv; subst. rewrite !lc_bind_cons. apply app_lc_Proper; auto.
  destruct H2 as [Hz|Hb]; cbn [fst snd] in *.
  - rewrite !lapp_zero by (cbn [fst]; auto). reflexivity.
  - unfold lapp; cbn [fst snd]. rewrite (H s Hb). reflexivity.
Qed.

Lemma den_vok ks x n : wf_nof ks x -> bok ks n -> Forall (vok ks) (den ks x n).
Proof.
  intros [_ Hwf] Hb. unfold den. rewrite Forall_map. rewrite Forall_forall in *.
  intros t Ht. apply vok_den_term; auto.
Qed.

Theorem mul_assoc_den ks x y z :
  sig_ok ks = true -> wf_nof ks x -> wf_nof ks y -> wf_nof ks z ->
  den_eq ks (mul ks (mul ks x y) z) (mul ks x (mul ks y z)).
Proof.
  intros Hs Hx Hy Hz n Hb.
  destruct (mul_correct ks x y n Hs Hx Hy Hb) as [_ Wxy].
  destruct (mul_correct ks y z n Hs Hy Hz Hb) as [Hyz Wyz].
  destruct (mul_correct ks (mul ks x y) z n Hs Wxy Hz Hb) as [H1 _].
  destruct (mul_correct ks x (mul ks y z) n Hs Hx Wyz Hb) as [H2 _].
  rewrite H1, H2.
  rewrite (lc_bind_Proper_l _ _ _ Hyz). rewrite lc_bind_bind.
  apply (lc_bind_ext_vok ks); [apply den_vok; auto|].
  intros s Hs'. apply (mul_correct ks x y s); auto.
Qed.

Theorem mul_add_distr_l_den ks x y z :
  sig_ok ks = true -> wf_nof ks x -> wf_nof ks y -> wf_nof ks z ->
  den_eq ks (mul ks x (add y z)) (add (mul ks x y) (mul ks x z)).
Proof.
  intros Hs Hx Hy Hz n Hb.
  destruct (mul_correct ks x (add y z) n Hs Hx (add_wf _ _ _ Hy Hz) Hb) as [H1 _].
  destruct (mul_correct ks x y n Hs Hx Hy Hb) as [H2 _].
  destruct (mul_correct ks x z n Hs Hx Hz Hb) as [H3 _].
  rewrite H1, (add_correct ks (mul ks x y) (mul ks x z) n), H2, H3.
  rewrite (lc_bind_Proper_l _ _ _ (add_correct ks y z n)). rewrite lc_bind_app. reflexivity.
Qed.

Theorem mul_add_distr_r_den ks x y z :
  sig_ok ks = true -> wf_nof ks x -> wf_nof ks y -> wf_nof ks z ->
  den_eq ks (mul ks (add x y) z) (add (mul ks x z) (mul ks y z)).
Proof.
  intros Hs Hx Hy Hz n Hb.
  destruct (mul_correct ks (add x y) z n Hs (add_wf _ _ _ Hx Hy) Hz Hb) as [H1 _].
  destruct (mul_correct ks x z n Hs Hx Hz Hb) as [H2 _].
  destruct (mul_correct ks y z n Hs Hy Hz Hb) as [H3 _].
  rewrite H1, (add_correct ks (mul ks x z) (mul ks y z) n), H2, H3.
  rewrite (lc_bind_ext _ _ (fun s => den ks x s ++ den ks y s)) by (intros; apply add_correct).
  apply lc_bind_app_r.
Qed.
