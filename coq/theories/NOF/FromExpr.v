(** * Model of NumberOrderedForm.from_expr / as_expr on a small expression AST
      (number_ordered_form.py l. 554-828).

    [expr] stands for the sympy expressions from_expr accepts: sums, products, non-negative integer
    powers, Dagger, scalars, number operators and the generators of the four kinds.  sympy evaluates
    [Dagger] structurally while the expression is built (Dagger(a*b) = Dagger(b)*Dagger(a),
    Dagger(N) = N, Dagger(c) = conj c, on a generator: the creation operator); this is modelled by the
    [flip] flag.  [eden] is the direct meaning of an expression: the operator it denotes on Fock
    space under the canonical (anti)commutation relations, built from the elementary actions only. *)
Require Import List ZArith QArith Lia Setoid Morphisms Bool.
Require Import PV.NOF.Gauss PV.NOF.Coeff PV.NOF.Fock PV.NOF.FockLemmas PV.NOF.LinComb PV.NOF.Model.
Import ListNotations.
Local Open Scope Z_scope.

Inductive expr : Type :=
| EOp (i : nat) (dag : bool)
| ENum (i : nat)
| EConst (g : G)
| EAdd (a b : expr)
| EMul (a b : expr)
| EPow (a : expr) (k : nat)
| EDag (a : expr).

Definition opsign (dag : bool) : Z := if dag then -1 else 1.

(** ** direct denotation *)
Fixpoint lc_pow (F : list Z -> lincomb) (k : nat) (n : list Z) : lincomb :=
  match k with
  | O => [(g1, n)]
  | S k' => lc_bind (F n) (lc_pow F k')
  end.

Fixpoint eden_f (ks : sig) (flip : bool) (e : expr) (n : list Z) : lincomb :=
  match e with
  | EOp i dag => [opact ks i (opsign (xorb dag flip)) n]
  | ENum i => [(gz (oget n i), n)]
  | EConst g => [(if flip then gconj g else g, n)]
  | EAdd a b => eden_f ks flip a n ++ eden_f ks flip b n
  | EMul a b => if flip
                then lc_bind (eden_f ks flip a n) (eden_f ks flip b)   (* (ab)† = b† a† : a† acts first *)
                else lc_bind (eden_f ks flip b n) (eden_f ks flip a)
  | EPow a k => lc_pow (eden_f ks flip a) k n
  | EDag a => eden_f ks (negb flip) a n
  end.
Definition eden (ks : sig) (e : expr) (n : list Z) : lincomb := eden_f ks false e n.

(** ** from_expr *)
Definition gen_term (ks : sig) (i : nat) (q : Z) : nof := [(unit_powers ks i q, CConst g1)].

Fixpoint from_expr_f (ks : sig) (flip : bool) (e : expr) : result nof :=
  match e with
  | EOp i dag => if (i <? length ks)%nat then Ok (gen_term ks i (opsign (xorb dag flip))) else Raise ValueError
  | ENum i => Ok [(zeros ks, CNum i)]
  | EConst g => Ok [(zeros ks, CConst (if flip then gconj g else g))]
  | EAdd a b => rbind (from_expr_f ks flip a) (fun x => rbind (from_expr_f ks flip b) (fun y => Ok (add (add [] x) y)))
  | EMul a b => rbind (from_expr_f ks flip a) (fun x => rbind (from_expr_f ks flip b) (fun y =>
                  Ok (if flip then mul ks y x else mul ks x y)))
  | EPow (EOp i dag) (S k) =>
      (* l. 640-654: a power of a single generator is stored directly; a spin / fermion generator
         squares to zero *)
      if (i <? length ks)%nat then
        if negb (isInf (kget ks i)) && (0 <? k)%nat then Ok []
        else Ok (gen_term ks i (opsign (xorb dag flip) * Z.of_nat (S k)))
      else Raise ValueError
  | EPow a k => rbind (from_expr_f ks flip a) (fun x => pow ks x (Z.of_nat k))
  | EDag a => from_expr_f ks (negb flip) a
  end.
Definition from_expr (ks : sig) (e : expr) : result nof := from_expr_f ks false e.

(** ** as_expr (l. 772-828) *)
Fixpoint coeff_expr (f : cexpr) : expr :=
  match f with
  | CConst g => EConst g
  | CNum i => ENum i
  | CAdd a b => EAdd (coeff_expr a) (coeff_expr b)
  | CMul a b => EMul (coeff_expr a) (coeff_expr b)
  | CNeg a => EMul (EConst (gopp g1)) (coeff_expr a)
  | CInv a => EConst g0  (* reciprocals are outside this AST; excluded by [cpoly] below *)
  end.
Fixpoint cpoly (f : cexpr) : Prop :=
  match f with
  | CConst _ | CNum _ => True
  | CAdd a b | CMul a b => cpoly a /\ cpoly b
  | CNeg a => cpoly a
  | CInv _ => False
  end.

(** [term = term * op**power] for the modes in reversed order *)
Fixpoint ann_expr (p : list Z) (i : nat) (acc : expr) : expr :=
  match p with
  | [] => acc
  | q :: r => let acc' := ann_expr r (S i) acc in
              if 0 <? q then EMul acc' (EPow (EOp i false) (Z.to_nat q)) else acc'
  end.
(** [term = op.adjoint()**(-power) * term] for the modes in reversed order *)
Fixpoint cre_expr (p : list Z) (i : nat) (inner : expr) : expr :=
  match p with
  | [] => inner
  | q :: r => let t := cre_expr r (S i) inner in
              if q <? 0 then EMul (EPow (EOp i true) (Z.to_nat (- q))) t else t
  end.
Definition term_expr (t : term) : expr := cre_expr (fst t) 0 (ann_expr (fst t) 0 (coeff_expr (snd t))).
Definition as_expr (x : nof) : expr := fold_left (fun acc t => EAdd acc (term_expr t)) x (EConst g0).

(** ** observations for the correspondence harness *)
Definition check_fromexpr (ks : sig) (e : expr) (grid : list (list Z))
           (expected : list (list Z * list (option G))) : bool :=
  match from_expr ks e with
  | Ok x => obs_sem_eqb (obs x grid) expected
  | Raise _ => false
  end.
(** from_expr(x.as_expr()) for the form x built from a tree *)
Definition check_roundtrip (ks : sig) (t : tree) (grid : list (list Z))
           (expected : list (list Z * list (option G))) : bool :=
  match teval ks t with
  | Ok x => match from_expr ks (as_expr x) with
            | Ok x' => obs_sem_eqb (obs x' grid) expected
            | Raise _ => false
            end
  | Raise _ => false
  end.
