(** * Executable model of pymablock/number_ordered_form.py (class NumberOrderedForm)

    A NumberOrderedForm with operator list [ks] (kinds of [nof.operators], in the
    code's order) is the tuple [nof.args[1]] of (powers, coeff) pairs: [nof].
    Python dict semantics (insertion order, overwrite on equal key) is modelled by
    [dset]/[dadd].  Line numbers refer to number_ordered_form.py. *)
Require Import List ZArith QArith Lia Bool.
Require Import PV.NOF.Gauss PV.NOF.Coeff PV.NOF.Fock.
Import ListNotations.
Local Open Scope Z_scope.

Inductive exn : Type := AssertionError | ValueError | Unmodelled.
Inductive result (A : Type) : Type := Ok (a : A) | Raise (e : exn).
Arguments Ok {A} a. Arguments Raise {A} e.

(** ** dictionaries keyed by power tuples *)
Fixpoint dset (k : list Z) (v : cexpr) (d : nof) : nof :=
  match d with
  | [] => [(k, v)]
  | (k', v') :: r => if occ_eqb k' k then (k', v) :: r else (k', v') :: dset k v r
  end.
(** [new_terms[k] += v] on a defaultdict(Zero) *)
Fixpoint dadd (k : list Z) (v : cexpr) (d : nof) : nof :=
  match d with
  | [] => [(k, v)]
  | (k', v') :: r => if occ_eqb k' k then (k', CAdd v' v) :: r else (k', v') :: dadd k v r
  end.
Definition dict_of (l : list term) : nof := fold_left (fun d t => dset (fst t) (snd t) d) l [].

(** ** operator-list bookkeeping: _n_bosons, _n_inf_order, _n_fermions (l. 469-473) *)
Definition count_kind (k : kind) (ks : sig) : nat := length (filter (kind_eqb k) ks).
Definition n_bosons (ks : sig) : nat := count_kind Boson ks.
Definition n_inf (ks : sig) : nat := (count_kind Boson ks + count_kind Ladder ks)%nat.
Definition n_fermions (ks : sig) : nat := count_kind Fermion ks.

(** [_validate_operators]: operators sorted by (type, name); on kinds: *)
Definition canon_sig (ks : sig) : sig :=
  repeat Boson (count_kind Boson ks) ++ repeat Ladder (count_kind Ladder ks)
  ++ repeat Spin (count_kind Spin ks) ++ repeat Fermion (count_kind Fermion ks).
Fixpoint sig_eqb (a b : sig) : bool :=
  match a, b with
  | [], [] => true
  | x :: a', y :: b' => kind_eqb x y && sig_eqb a' b'
  | _, _ => false
  end.
Definition sig_ok (ks : sig) : bool := sig_eqb ks (canon_sig ks).

(** ** _multiply_op (l. 918-1038) *)
Definition count_eq (v : Z) (l : list Z) : nat := length (filter (Z.eqb v) l).

(** boson / ladder branch, one term (l. 954-986) *)
Definition mulop_inf (isbos : bool) (i : nat) (q : Z) (t : term) : term :=
  let (p, f) := t in
  let orig := oget p i in
  let new := orig + q in
  let p' := upd p i new in
  if 0 <? q then
    let tp := Z.min q (Z.max (- orig) 0) in
    let f1 := cshift i (- tp) f in
    (p', if isbos then CMul f1 (cfalling i (Z.to_nat tp)) else f1)
  else
    let tp := Z.min (- q) (Z.max orig 0) in
    let f1 := if isbos then
                let nn := crising i (Z.to_nat tp) in
                CMul f (if 0 <? new then cshift i new nn else nn)
              else f in
    (p', if new <=? 0 then cshift i (- q - tp) f1 else f1).

(** [preceding_fermions] exactly as coded (l. 1016-1029), Python slices
    [powers[-nf : i]], [powers[-nf :]], [powers[i+1 :]] *)
Definition preceding_fermions (nf : nat) (p : list Z) (i : nat) (orig new : Z) : nat :=
  let start := (length p - nf)%nat in
  if (orig =? 1) || (new =? 1)
  then count_eq 1 (firstn (i - start) (skipn start p))
  else (count_eq 1 (skipn start p) + count_eq (-1) (skipn (S i) p))%nat.

(** fermion / spin branch, one term (l. 991-1035); [None] = term dropped (nilpotent) *)
Definition mulop_bin (nf : nat) (isfer : bool) (i : nat) (q : Z) (t : term) : option term :=
  let (p, f) := t in
  let orig := oget p i in
  let new := orig + q in
  if 1 <? Z.abs new then None else
  let p' := upd p i new in
  let f1 := if q =? 1
            then let f0 := cset i 0 f in
                 if orig =? 0 then f0 else CMul (CNum i) f0
            else let f0 := cset i (if orig =? 0 then 1 else 0) f in
                 if orig =? 0 then f0 else CMul (CAdd (CConst g1) (CNeg (CNum i))) f0 in
  let f2 := if isfer && Nat.odd (preceding_fermions nf p i orig new) then CNeg f1 else f1 in
  Some (p', f2).

Definition mulop_raw (ks : sig) (x : nof) (i : nat) (q : Z) : nof :=
  if (i <? n_inf ks)%nat then
    dict_of (map (mulop_inf (i <? n_bosons ks)%nat i q) x)
  else if 1 <? Z.abs q then []
  else dict_of (flat_map (fun t => match mulop_bin (n_fermions ks) (isF (kget ks i)) i q t with
                                   | Some t' => [t'] | None => [] end) x).

(** the two [assert]s of l. 944-945 *)
Definition multiply_op (ks : sig) (x : nof) (i : nat) (q : Z) : result nof :=
  if (i <? length ks)%nat && negb (q =? 0) then Ok (mulop_raw ks x i q) else Raise AssertionError.

(** ** _multiply_expr (l. 1040-1088); the argument is a coefficient expression
    (the [expr.has(operator_types)] ValueError cannot arise for a [cexpr]) *)
Definition mulexpr_subst (ks : sig) (p : list Z) (j : nat) : cexpr :=
  let pw := oget p j in
  if pw =? 0 then CNum j
  else if (j <? n_inf ks)%nat then
         (if 0 <? pw then CAdd (CNum j) (CConst (gz pw)) else CNum j)
       else if pw <? 0 then CConst (gz 0) else CConst (gz 1).
Definition mulexpr (ks : sig) (x : nof) (e : cexpr) : nof :=
  dict_of (map (fun t : term => (fst t, CMul (snd t) (csubst (mulexpr_subst ks (fst t)) e))) x).

(** ** _linearize_binary_operators (l. 1441-1463) *)
Definition lin1 (f : cexpr) (j : nat) : cexpr :=
  CAdd (CMul (CAdd (CConst g1) (CNeg (CNum j))) (cset j 0 f)) (CMul (CNum j) (cset j 1 f)).
Definition linearize (ks : sig) (x : nof) : nof :=
  let bins := seq (n_inf ks) (length ks - n_inf ks) in
  if (length bins =? 0)%nat then x
  else dict_of (map (fun t : term => (fst t, fold_left lin1 bins (snd t))) x).

(** ** _cancel_binary_operator_numbers (l. 1090-1118).  The test [coeff == 0]
    (structural equality with sympy's Zero after automatic evaluation) is modelled
    by [csyn0]: only an expression that constant-folds to 0 is dropped. *)
Fixpoint cfold (e : cexpr) : option G :=
  match e with
  | CConst g => Some g
  | CNum _ => None
  | CAdd a b => match cfold a, cfold b with Some x, Some y => Some (gred (gadd x y)) | _, _ => None end
  | CMul a b => match cfold a, cfold b with
                | Some x, Some y => Some (gred (gmul x y))
                | Some x, None => if gzerob x then Some g0 else None
                | None, Some y => if gzerob y then Some g0 else None
                | _, _ => None end
  | CNeg a => match cfold a with Some x => Some (gopp x) | None => None end
  | CInv a => None
  end.
Definition csyn0 (e : cexpr) : bool := match cfold e with Some g => gzerob g | None => false end.
Definition cancel_binary (ks : sig) (x : nof) : nof :=
  if (length ks - n_inf ks =? 0)%nat then x else
  dict_of (flat_map (fun t : term =>
     let f' := csubst (fun j => if (n_inf ks <=? j)%nat && negb (oget (fst t) j =? 0)
                                then CConst (gz 0) else CNum j) (snd t) in
     if csyn0 f' then [] else [(fst t, f')]) x).

(** ** __add__, __neg__, __sub__, _eval_adjoint (operands over the same operator list) *)
Definition add (x y : nof) : nof := fold_left (fun d t => dadd (fst t) (snd t) d) (x ++ y) [].
Definition neg (x : nof) : nof := map (fun t : term => (fst t, CNeg (snd t))) x.
Definition sub (x y : nof) : nof := add x (neg y).
Definition adj (x : nof) : nof := map (fun t : term => (map Z.opp (fst t), cconj (snd t))) x.

(** ** __mul__ (l. 1258-1303) *)
Fixpoint creation_pass (ks : sig) (part : nof) (p : list Z) (i : nat) : nof :=
  match p with
  | [] => part
  | q :: r => creation_pass ks (if q <? 0 then mulop_raw ks part i q else part) r (S i)
  end.
(** [for i, power in reversed(tuple(enumerate(powers)))] *)
Fixpoint annihilation_pass (ks : sig) (part : nof) (p : list Z) (i : nat) : nof :=
  match p with
  | [] => part
  | q :: r => let part' := annihilation_pass ks part r (S i) in
              if 0 <? q then mulop_raw ks part' i q else part'
  end.
Definition mul_term (ks : sig) (x : nof) (t : term) : nof :=
  linearize ks (annihilation_pass ks (mulexpr ks (creation_pass ks x (fst t) 0) (snd t)) (fst t) 0).
Definition mul (ks : sig) (x y : nof) : nof :=
  fold_left (fun res t => add res (mul_term ks x t)) y [].

(** ** __pow__ (l. 1484-1562), integer exponents *)
Definition zeros (ks : sig) : list Z := map (fun _ => 0) ks.
Definition one_nof (ks : sig) : nof := [(zeros ks, CConst g1)].
Fixpoint mul_n (ks : sig) (x acc : nof) (k : nat) : nof :=
  match k with O => acc | S k' => mul_n ks x (mul ks acc x) k' end.
Fixpoint cpow (f : cexpr) (k : nat) : cexpr :=
  match k with O => CConst g1 | S O => f | S k' => CMul f (cpow f k') end.
Definition particle_conserving (x : nof) : bool :=
  forallb (fun t : term => forallb (Z.eqb 0) (fst t)) x.
Definition pow (ks : sig) (x : nof) (e : Z) : result nof :=
  if e =? 0 then Ok (one_nof ks)
  else if 0 <? e then Ok (mul_n ks x x (Z.to_nat e - 1))
  else if particle_conserving x
       then Ok (dict_of (map (fun t : term => (fst t, CInv (cpow (snd t) (Z.abs_nat e)))) x))
       else Raise Unmodelled.

(** ** a small expression language, interpreted with the operations above
    (the harness interprets the same trees with the real class) *)
Inductive tree : Type :=
| TOp (i : nat) (dag : bool)   (* from_expr of a generator or its adjoint *)
| TNum (i : nat)               (* from_expr(NumberOperator(op_i)) *)
| TConst (g : G)               (* from_expr(scalar) *)
| TMul (a b : tree) | TAdd (a b : tree) | TSub (a b : tree)
| TNeg (a : tree) | TAdj (a : tree) | TPow (a : tree) (e : Z).

Definition unit_powers (ks : sig) (i : nat) (v : Z) : list Z := upd (zeros ks) i v.
Definition rbind {A B} (r : result A) (f : A -> result B) : result B :=
  match r with Ok a => f a | Raise e => Raise e end.
Fixpoint teval (ks : sig) (t : tree) : result nof :=
  match t with
  | TOp i dag => if (i <? length ks)%nat then Ok [(unit_powers ks i (if dag then -1 else 1), CConst g1)]
                 else Raise ValueError
  | TNum i => Ok [(zeros ks, CNum i)]
  | TConst g => Ok [(zeros ks, CConst g)]
  | TMul a b => rbind (teval ks a) (fun x => rbind (teval ks b) (fun y => Ok (mul ks x y)))
  | TAdd a b => rbind (teval ks a) (fun x => rbind (teval ks b) (fun y => Ok (add x y)))
  | TSub a b => rbind (teval ks a) (fun x => rbind (teval ks b) (fun y => Ok (sub x y)))
  | TNeg a => rbind (teval ks a) (fun x => Ok (neg x))
  | TAdj a => rbind (teval ks a) (fun x => Ok (adj x))
  | TPow a e => rbind (teval ks a) (fun x => pow ks x e)
  end.

(** ** observation used by the correspondence harness: the term dictionary with
    coefficients evaluated on a grid of occupations *)
Definition og_eqb (a b : option G) : bool :=
  match a, b with
  | Some x, Some y => geqb x y
  | None, _ => true     (* model undefined (division by zero): point not compared *)
  | _, _ => false
  end.
Definition obs (x : nof) (grid : list occ) : list (list Z * list (option G)) :=
  map (fun t : term => (fst t, map (ceval (snd t)) grid)) x.
Fixpoint lookup (k : list Z) (d : list (list Z * list (option G))) : option (list (option G)) :=
  match d with
  | [] => None
  | (k', v) :: r => if occ_eqb k' k then Some v else lookup k r
  end.
Fixpoint vals_eqb (a b : list (option G)) : bool :=
  match a, b with
  | [], [] => true
  | x :: a', y :: b' => og_eqb x y && vals_eqb a' b'
  | _, _ => false
  end.
(** exact comparison: same key set, same values *)
Definition obs_eqb (m e : list (list Z * list (option G))) : bool :=
  (length m =? length e)%nat &&
  forallb (fun kv => match lookup (fst kv) e with Some v => vals_eqb (snd kv) v | None => false end) m.
(** semantic comparison: a missing key counts as the zero coefficient; grid points where the
    implementation's value is undefined (zoo/nan from a vanishing denominator) are not compared *)
Definition all0 (a : list (option G)) : bool :=
  forallb (fun o => match o with Some g => gzerob g | None => true end) a.
Definition obs_sem_eqb (m e : list (list Z * list (option G))) : bool :=
  forallb (fun kv => match lookup (fst kv) e with Some v => vals_eqb (snd kv) v | None => all0 (snd kv) end) m
  && forallb (fun kv => match lookup (fst kv) m with Some _ => true
                        | None => forallb (fun o => match o with Some g => gzerob g | None => true end) (snd kv) end) e.
Definition check_tree (ks : sig) (t : tree) (grid : list occ)
           (expected : list (list Z * list (option G))) (exact : bool) : bool :=
  match teval ks t with
  | Ok x => if exact then obs_eqb (obs x grid) expected else obs_sem_eqb (obs x grid) expected
  | Raise _ => false
  end.
