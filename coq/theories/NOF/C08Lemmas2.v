(** * Non-vacuity witnesses for the second group of C08 theorems *)
Require Import List ZArith QArith Bool Lia.
Require Import PV.NOF.Gauss PV.NOF.Coeff PV.NOF.Fock PV.NOF.FockLemmas PV.NOF.LinComb PV.NOF.Model
  PV.NOF.NofProof PV.NOF.NofProof2 PV.NOF.SolveScalar PV.NOF.DaggerMul PV.NOF.FromExpr PV.NOF.FromExprProof
  PV.NOF.PowNeg PV.NOF.C08Lemmas.
Import ListNotations.
Local Open Scope Z_scope.

Lemma c08_ex_dagger_mul :
  phys ex_ks [4; -2; 1; 0; 0] /\ phys ex_ks ex_n /\
  ~ geq (melt ex_ks (adj (mul ex_ks ex_x ex_y)) [4; -2; 1; 0; 0] ex_n) g0.
Proof.
  split; [cbn; repeat split; intros; auto; try discriminate; lia|]. split; [exact ex_phys|].
  intros H. vm_compute in H. destruct H as [_ H]. discriminate H.
Qed.

(** (a† (N_a + 2) f  +  l s† g† N_f) written as an expression *)
Definition ex_e : expr :=
  EAdd (EMul (EMul (EDag (EOp 0 false)) (EAdd (ENum 0) (EConst (gz 2)))) (EOp 3 false))
       (EMul (EMul (EOp 1 false) (EDag (EMul (EOp 4 false) (EOp 2 false)))) (EPow (ENum 3) 2)).
Lemma c08_ex_from_expr :
  exists x, from_expr ex_ks ex_e = Ok x /\ ~ lc_eq (den ex_ks x [3; -2; 1; 1; 1]) [].
Proof.
  eexists. split; [reflexivity|]. intros H. specialize (H [4; -2; 1; 0; 1]).
  vm_compute in H. destruct H as [H _]. discriminate H.
Qed.
Lemma c08_ex_roundtrip : wf_nof ex_ks ex_x /\ cpoly_nof ex_x /\ ~ lc_eq (den ex_ks ex_x [3; -2; 1; 1; 1]) [].
Proof.
  split; [exact ex_wf_x|]. split; [repeat constructor|].
  intros H. specialize (H [4; -2; 1; 0; 1]). vm_compute in H. destruct H as [H _]. discriminate H.
Qed.
