(** * Coefficient expressions of NumberOrderedForm terms.

    A coefficient is a commutative sympy expression in the number-operator
    placeholders [N_i] (position [i] in [nof.operators]) with Gaussian-rational
    constants.  [_multiply_op] / [_multiply_expr] only ever apply
    [xreplace {N_i: N_i + k}], [xreplace {N_i: 0}], [xreplace {N_i: 1}] to them. *)
Require Import List ZArith QArith Lia Setoid Morphisms.
Require Import PV.NOF.Gauss.
Import ListNotations.

Inductive cexpr : Type :=
| CConst (g : G)
| CNum (i : nat)
| CAdd (a b : cexpr)
| CMul (a b : cexpr)
| CNeg (a : cexpr)
| CInv (a : cexpr).

Notation occ := (list Z) (only parsing).
Definition oget (n : occ) (i : nat) : Z := nth i n 0%Z.

(** total evaluation (Coq convention 1/0 = 0) *)
Fixpoint cval (e : cexpr) (n : occ) : G :=
  match e with
  | CConst g => g
  | CNum i => gz (oget n i)
  | CAdd a b => gadd (cval a n) (cval b n)
  | CMul a b => gmul (cval a n) (cval b n)
  | CNeg a => gopp (cval a n)
  | CInv a => ginv (cval a n)
  end.

(** partial evaluation: [None] as soon as a division by zero occurs.  Intermediate
    values are kept in lowest terms ([Qred]) so that evaluation stays cheap. *)
Definition gred (g : G) : G := mkG (Qred (re g)) (Qred (im g)).
Lemma gred_correct g : geq (gred g) g.
Proof. split; cbn; apply Qred_correct. Qed.

Fixpoint ceval (e : cexpr) (n : occ) : option G :=
  match e with
  | CConst g => Some g
  | CNum i => Some (gz (oget n i))
  | CAdd a b => match ceval a n, ceval b n with Some x, Some y => Some (gred (gadd x y)) | _, _ => None end
  | CMul a b => match ceval a n, ceval b n with Some x, Some y => Some (gred (gmul x y)) | _, _ => None end
  | CNeg a => match ceval a n with Some x => Some (gopp x) | None => None end
  | CInv a => match ceval a n with
              | Some x => if gzerob x then None else Some (gred (ginv x))
              | None => None end
  end.

Definition cdefined (e : cexpr) (n : occ) : Prop := ceval e n <> None.

Lemma ceval_cval e n g : ceval e n = Some g -> geq g (cval e n).
Proof.
  revert g; induction e; cbn; intros g0 H.
  - inversion H; reflexivity.
  - inversion H; reflexivity.
  - destruct (ceval e1 n), (ceval e2 n); try discriminate.
    inversion H; subst. rewrite gred_correct, <- (IHe1 _ eq_refl), <- (IHe2 _ eq_refl). reflexivity.
  - destruct (ceval e1 n), (ceval e2 n); try discriminate.
    inversion H; subst. rewrite gred_correct, <- (IHe1 _ eq_refl), <- (IHe2 _ eq_refl). reflexivity.
  - destruct (ceval e n); try discriminate.
    inversion H; subst. rewrite <- (IHe _ eq_refl). reflexivity.
  - destruct (ceval e n); try discriminate.
    destruct (gzerob g); try discriminate.
    inversion H; subst. rewrite gred_correct, <- (IHe _ eq_refl). reflexivity.
Qed.

(** generic substitution of placeholders *)
Fixpoint csubst (s : nat -> cexpr) (e : cexpr) : cexpr :=
  match e with
  | CConst g => CConst g
  | CNum i => s i
  | CAdd a b => CAdd (csubst s a) (csubst s b)
  | CMul a b => CMul (csubst s a) (csubst s b)
  | CNeg a => CNeg (csubst s a)
  | CInv a => CInv (csubst s a)
  end.

(** [xreplace {N_i : N_i + k}] *)
Definition cshift (i : nat) (k : Z) : cexpr -> cexpr :=
  csubst (fun j => if Nat.eqb j i then CAdd (CNum j) (CConst (gz k)) else CNum j).
(** [xreplace {N_i : v}] for an integer constant v (0 or 1 in the code) *)
Definition cset (i : nat) (v : Z) : cexpr -> cexpr :=
  csubst (fun j => if Nat.eqb j i then CConst (gz v) else CNum j).

(** complex conjugation ([coeff.adjoint()] of a commutative expression whose
    symbols are the integer placeholders) *)
Fixpoint cconj (e : cexpr) : cexpr :=
  match e with
  | CConst g => CConst (gconj g)
  | CNum i => CNum i
  | CAdd a b => CAdd (cconj a) (cconj b)
  | CMul a b => CMul (cconj a) (cconj b)
  | CNeg a => CNeg (cconj a)
  | CInv a => CInv (cconj a)
  end.

(** state update *)
Fixpoint upd (n : occ) (i : nat) (v : Z) : occ :=
  match n, i with
  | [], _ => []
  | _ :: r, O => v :: r
  | x :: r, S i' => x :: upd r i' v
  end.

Lemma upd_length n i v : length (upd n i v) = length n.
Proof. revert i; induction n; destruct i; cbn; auto. Qed.

Lemma oget_upd_same n i v : (i < length n)%nat -> oget (upd n i v) i = v.
Proof.
  unfold oget. revert i; induction n; destruct i; cbn; intros; try lia; auto.
  apply IHn; lia.
Qed.
Lemma oget_upd_other n i j v : i <> j -> oget (upd n i v) j = oget n j.
Proof.
  unfold oget. revert i j; induction n; destruct i, j; cbn; intros; try lia; auto.
Qed.
Lemma upd_oob n i v : (length n <= i)%nat -> upd n i v = n.
Proof.
  revert i; induction n; destruct i; cbn; intros; try lia; auto.
  f_equal. apply IHn. lia.
Qed.

Definition osubst (s : nat -> cexpr) (n : occ) (m : occ) : Prop :=
  forall j, geq (cval (s j) n) (gz (oget m j)).

Lemma cval_csubst s e n m : osubst s n m -> geq (cval (csubst s e) n) (cval e m).
Proof.
  intros Hs. induction e; cbn.
  - reflexivity.
  - apply Hs.
  - rewrite IHe1, IHe2. reflexivity.
  - rewrite IHe1, IHe2. reflexivity.
  - rewrite IHe. reflexivity.
  - rewrite IHe. reflexivity.
Qed.

(** evaluation only depends on the occupation through [oget] *)
Lemma cval_ext e n m : (forall j, oget n j = oget m j) -> cval e n = cval e m.
Proof.
  intros H. induction e; cbn; try congruence.
Qed.

Lemma cval_cshift i k e n :
  (i < length n)%nat ->
  geq (cval (cshift i k e) n) (cval e (upd n i (oget n i + k))).
Proof.
  intros Hi. apply cval_csubst. intros j.
  destruct (Nat.eqb_spec j i).
  - subst. cbn. rewrite oget_upd_same by auto. rewrite gz_add. reflexivity.
  - cbn. rewrite oget_upd_other by auto. reflexivity.
Qed.

Lemma cval_cset i v e n :
  (i < length n)%nat ->
  geq (cval (cset i v e) n) (cval e (upd n i v)).
Proof.
  intros Hi. apply cval_csubst. intros j.
  destruct (Nat.eqb_spec j i).
  - subst. cbn. rewrite oget_upd_same by auto. reflexivity.
  - cbn. rewrite oget_upd_other by auto. reflexivity.
Qed.

Lemma cval_cconj e n : geq (cval (cconj e) n) (gconj (cval e n)).
Proof.
  induction e; cbn.
  - reflexivity.
  - rewrite gconj_gz. reflexivity.
  - rewrite IHe1, IHe2, gconj_add. reflexivity.
  - rewrite IHe1, IHe2, gconj_mul. reflexivity.
  - rewrite IHe, gconj_opp. reflexivity.
  - rewrite IHe, gconj_inv. reflexivity.
Qed.

(** products used by the boson branch of [_multiply_op]:
    the product of [N_i - t] for t in range(k), and of [N_i + t] for t in range(1,k+1) *)
Fixpoint cprod (l : list cexpr) : cexpr :=
  match l with
  | [] => CConst g1
  | x :: r => CMul x (cprod r)
  end.
Definition cfalling (i : nat) (k : nat) : cexpr :=
  cprod (map (fun t => CAdd (CNum i) (CConst (gz (- Z.of_nat t)))) (seq 0 k)).
Definition crising (i : nat) (k : nat) : cexpr :=
  cprod (map (fun t => CAdd (CNum i) (CConst (gz (Z.of_nat t)))) (seq 1 k)).
