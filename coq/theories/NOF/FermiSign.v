(** * The fermionic sign rule of [_multiply_op] *)
Require Import List ZArith QArith Lia Setoid Morphisms Bool.
Require Import PV.NOF.Gauss PV.NOF.Coeff PV.NOF.Fock PV.NOF.FockLemmas PV.NOF.LinComb PV.NOF.Model
  PV.NOF.MulOpProof.
Import ListNotations.
Local Open Scope Z_scope.

(** kind-based parities of the counts used by the code *)
Fixpoint prefix1 (ks : sig) (p : list Z) (i : nat) : bool :=
  match ks, p, i with
  | k :: ks', q :: p', S i' => xorb (isF k && (q =? 1)) (prefix1 ks' p' i')
  | _, _, _ => false
  end.
Fixpoint all1 (ks : sig) (p : list Z) : bool :=
  match ks, p with
  | k :: ks', q :: p' => xorb (isF k && (q =? 1)) (all1 ks' p')
  | _, _ => false
  end.
Fixpoint allm1 (ks : sig) (p : list Z) : bool :=
  match ks, p with
  | k :: ks', q :: p' => xorb (isF k && (q =? -1)) (allm1 ks' p')
  | _, _ => false
  end.
Fixpoint suffm1 (ks : sig) (p : list Z) (i : nat) : bool :=
  match ks, p, i with
  | k :: ks', q :: p', S i' => suffm1 ks' p' i'
  | k :: ks', q :: p', O => allm1 ks' p'
  | _, _, _ => false
  end.

(** the sign the code applies: case A ([orig = 1 or new = 1]) / case B *)
Definition code_sign (ks : sig) (p : list Z) (i : nat) (o new : Z) : bool :=
  if (o =? 1) || (new =? 1) then prefix1 ks p i
  else xorb (all1 ks p) (suffm1 ks p i).

Lemma par_agree_or_zero ks : forall p n, length p = length ks -> length n = length ks ->
  geq (ws ks p n) g0 \/ parF ks p = xorb (all1 ks p) (allm1 ks p).
Proof.
  induction ks as [|k ks IH]; intros p n Hp Hn; [right; destruct p; reflexivity|].
  destruct p as [|q p]; [discriminate|]. destruct n as [|v n]; [discriminate|].
  injection Hp as Hp. injection Hn as Hn.
  destruct (IH p n Hp Hn) as [H|H].
  - left. cbn [ws]. rewrite H. ring.
  - cbn [ws parF all1 allm1]. rewrite H.
    destruct (isF k) eqn:Ek; cbn [andb].
    + destruct (Z.eqb_spec q 1); [subst; right; destruct (all1 ks p), (allm1 ks p); reflexivity|].
      destruct (Z.eqb_spec q (-1)); [subst; right; destruct (all1 ks p), (allm1 ks p); reflexivity|].
      destruct (Z.eqb_spec q 0); [subst; right; destruct (all1 ks p), (allm1 ks p); reflexivity|].
      left. destruct k; try discriminate. unfold wloc.
      destruct (Z.eqb_spec q 0), (Z.eqb_spec q 1), (Z.eqb_spec q (-1)); try lia. ring.
    + right. destruct (all1 ks p), (allm1 ks p); reflexivity.
Qed.

Lemma parF_upd_flip ks : forall p i q', length p = length ks -> (i < length ks)%nat ->
  isF (kget ks i) = true -> Z.odd q' = negb (Z.odd (oget p i)) ->
  parF ks (upd p i q') = negb (parF ks p).
Proof.
  induction ks as [|k ks IH]; intros p i q' Hp Hi HF Ho; [cbn in Hi; lia|].
  destruct p as [|q p]; [discriminate|]. injection Hp as Hp. cbn [length] in Hi.
  destruct i as [|i]; unfold kget, oget in *; cbn [nth upd parF] in *.
  - rewrite HF, Ho. cbn [andb]. destruct (Z.odd q), (parF ks p); reflexivity.
  - rewrite (IH p i q') by (auto; lia). destruct (isF k && Z.odd q), (parF ks p); reflexivity.
Qed.

(** local rule for a fermionic mode in front of the one that is multiplied *)
Lemma head_flip q0 v0 P :
  geq (gmul (wloc Fermion q0 v0) (gsgn ((v0 - Z.max q0 0 =? 1) && negb P)))
      (gmul (gmul (gsgn (q0 =? 1)) (gsgn (v0 =? 1)))
            (gmul (wloc Fermion q0 v0) (gsgn ((v0 - Z.max q0 0 =? 1) && P)))).
Proof.
  unfold wloc.
  destruct (Z.eqb_spec q0 0); [subst; replace (v0 - Z.max 0 0) with v0 by lia;
    change (0 =? 1) with false; destruct (v0 =? 1), P; cbn [andb negb gsgn]; ring|].
  destruct (Z.eqb_spec q0 1).
  { subst. replace (v0 - Z.max 1 0) with (v0 - 1) by lia.
    destruct (Z.eqb_spec v0 1); cbn [gind]; [|ring].
    subst. change (1 - 1 =? 1) with false. cbn [andb gsgn]. ring. }
  destruct (Z.eqb_spec q0 (-1)).
  { subst. replace (v0 - Z.max (-1) 0) with v0 by lia.
    destruct (Z.eqb_spec v0 0); cbn [gind]; [|ring].
    subst. change (0 =? 1) with false. cbn [andb gsgn]. ring. }
  ring.
Qed.

(** ** the sign induction.  [A], [B] are the mode-local factors (weights of mode i and
    the coefficient values); [Hloc] is the single-mode identity they must satisfy for
    either parity [Pb] of the number of fermionic operators behind mode i. *)
Lemma ws_fermion_step ks : forall i p n o q A B,
  (i < length ks)%nat -> length p = length ks -> length n = length ks ->
  kget ks i = Fermion -> oget p i = o ->
  Z.odd (o + q) = negb (Z.odd o) ->
  (forall Pb : bool,
      geq (gmul (gmul (wloc Fermion (o + q) (oget n i)) (gsgn ((oget n i - Z.max (o + q) 0 =? 1) && Pb))) A)
          (gmul (gmul (gsgn (if (o =? 1) || (o + q =? 1) then false else Pb))
                      (gmul (wloc Fermion o (oget n i - q)) (gsgn ((oget n i - q - Z.max o 0 =? 1) && Pb)))) B)) ->
  geq (gmul (ws ks (upd p i (o + q)) n) A)
      (gmul (gmul (gmul (gsgn (code_sign ks p i o (o + q))) (gsgn (jw ks i n)))
                  (ws ks p (upd n i (oget n i - q)))) B).
Proof.
  induction ks as [|k ks IH]; intros i p n o q A B Hi Hp Hn HF Ho Hodd Hloc; [cbn in Hi; lia|].
  destruct p as [|q0 p]; [discriminate|]. destruct n as [|v0 n]; [discriminate|].
  injection Hp as Hp. injection Hn as Hn. cbn [length] in Hi.
  destruct i as [|i].
  - (* the mode itself *)
    unfold kget, oget in *. cbn [nth] in *. subst k q0.
    cbn [upd ws isF andb]. unfold jw, kget. cbn [nth firstn occF isF andb gsgn].
    unfold code_sign. cbn [prefix1 all1 suffm1 isF andb].
    specialize (Hloc (parF ks p)).
    destruct (par_agree_or_zero ks p n Hp Hn) as [Hz|Hpar].
    + rewrite Hz. ring.
    + destruct ((o =? 1) || (o + q =? 1)) eqn:Ecase.
      * cbn [gsgn] in *.
        transitivity (gmul (ws ks p n)
          (gmul (gmul (wloc Fermion (o + q) v0) (gsgn ((v0 - Z.max (o + q) 0 =? 1) && parF ks p))) A)); [ring|].
        rewrite Hloc. ring.
      * apply orb_false_iff in Ecase. destruct Ecase as [E1 E2]. rewrite E1.
        rewrite xorb_false_l. rewrite <- Hpar.
        transitivity (gmul (ws ks p n)
          (gmul (gmul (wloc Fermion (o + q) v0) (gsgn ((v0 - Z.max (o + q) 0 =? 1) && parF ks p))) A)); [ring|].
        rewrite Hloc. ring.
  - unfold kget, oget in *. cbn [nth] in *.
    cbn [upd ws].
    assert (HPf : parF ks (upd p i (o + q)) = negb (parF ks p)).
    { apply parF_upd_flip; auto; try lia. unfold kget; rewrite HF; reflexivity.
      unfold oget. rewrite Ho. exact Hodd. }
    rewrite HPf.
    specialize (IH i p n o q A B ltac:(lia) Hp Hn HF Ho Hodd Hloc).
    unfold oget in IH.
    assert (Hcs : code_sign (k :: ks) (q0 :: p) (S i) o (o + q)
                  = xorb (isF k && (q0 =? 1)) (code_sign ks p i o (o + q))).
    { unfold code_sign. destruct ((o =? 1) || (o + q =? 1)); cbn [prefix1 all1 suffm1]; [reflexivity|].
      destruct (isF k && (q0 =? 1)), (all1 ks p), (suffm1 ks p i); reflexivity. }
    assert (Hjw : jw ks i n = occF (firstn i ks) (firstn i n)).
    { unfold jw, kget. rewrite HF. reflexivity. }
    rewrite Hjw in IH.
    rewrite Hcs. rewrite jw_cons_S. unfold kget. rewrite HF. cbn [isF andb].
    rewrite !gsgn_xorb.
    transitivity (gmul (gmul (wloc k q0 v0) (gsgn (isF k && (v0 - Z.max q0 0 =? 1) && negb (parF ks p))))
                       (gmul (ws ks (upd p i (o + q)) n) A)); [ring|].
    rewrite IH.
    destruct (isF k) eqn:Ek; cbn [andb gsgn].
    + destruct k; try discriminate.
      pose proof (head_flip q0 v0 (parF ks p)) as HH.
      transitivity (gmul (gmul (wloc Fermion q0 v0) (gsgn ((v0 - Z.max q0 0 =? 1) && negb (parF ks p))))
        (gmul (gmul (gmul (gsgn (code_sign ks p i o (o + q))) (gsgn (occF (firstn i ks) (firstn i n))))
           (ws ks p (upd n i (nth i n 0 - q)))) B)); [ring|].
      rewrite HH. ring.
    + ring.
Qed.

(** ** single-mode identity for the spin / fermion branch *)
Definition bin_coeff (i : nat) (q o : Z) (f : cexpr) : cexpr :=
  if q =? 1
  then let f0 := cset i 0 f in if o =? 0 then f0 else CMul (CNum i) f0
  else let f0 := cset i (if o =? 0 then 1 else 0) f in
       if o =? 0 then f0 else CMul (CAdd (CConst g1) (CNeg (CNum i))) f0.

Lemma bin_local i q o v f M Pb :
  (i < length M)%nat -> (v = 0 \/ v = 1) -> (q = 1 \/ q = -1) -> Z.abs (o + q) <= 1 -> Z.abs o <= 1 ->
  geq (gmul (gmul (wloc Fermion (o + q) v) (gsgn ((v - Z.max (o + q) 0 =? 1) && Pb)))
            (cval (bin_coeff i q o f) (upd M i (v - Z.max (o + q) 0))))
      (gmul (gmul (gsgn (if (o =? 1) || (o + q =? 1) then false else Pb))
                  (gmul (wloc Fermion o (v - q)) (gsgn ((v - q - Z.max o 0 =? 1) && Pb))))
            (gmul (wloc Fermion q v) (cval f (upd M i (v - q - Z.max o 0))))).
Proof.
  intros Hi Hv Hq Hn Ho.
  assert (Hset : forall c a, geq (cval (cset i c f) (upd M i a)) (cval f (upd M i c))).
  { intros c a. rewrite cval_cset by (rewrite upd_length; auto). rewrite upd_upd. reflexivity. }
  assert (Hnum : forall a, cval (CNum i) (upd M i a) = gz a).
  { intros a. cbn [cval]. rewrite oget_upd_same by auto. reflexivity. }
  unfold bin_coeff.
  destruct Hq as [Hq|Hq]; subst q.
  - (* annihilation *)
    assert (Hoo : o = 0 \/ o = -1) by lia.
    destruct Hoo as [Hoo|Hoo]; subst o; cbn [Z.eqb Z.add Z.max Z.compare orb Z.opp Pos.eqb Z.sub Z.pos_sub].
    + rewrite Hset. destruct Hv; subst v; cbn [wloc Z.eqb gind Z.sub Z.add Z.opp Z.pos_sub andb gsgn Pos.eqb]; ring.
    + cbn [cval]. rewrite Hset, oget_upd_same by auto.
      destruct Hv; subst v; cbn [wloc Z.eqb gind Z.sub Z.add Z.opp Z.pos_sub andb gsgn Pos.eqb];
        destruct Pb; cbn [gsgn]; rewrite ?gz_0, ?gz_1; ring.
  - assert (Hoo : o = 0 \/ o = 1) by lia.
    destruct Hoo as [Hoo|Hoo]; subst o; cbn [Z.eqb Z.add Z.max Z.compare orb Z.opp Pos.eqb Z.sub Z.pos_sub].
    + rewrite Hset. destruct Hv; subst v; cbn [wloc Z.eqb gind Z.sub Z.add Z.opp Z.pos_sub andb gsgn Pos.eqb];
        destruct Pb; cbn [gsgn]; ring.
    + cbn [cval]. rewrite Hset, oget_upd_same by auto.
      destruct Hv; subst v; cbn [wloc Z.eqb gind Z.sub Z.add Z.opp Z.pos_sub andb gsgn Pos.eqb];
        destruct Pb; cbn [gsgn]; rewrite ?gz_0, ?gz_1; ring.
Qed.

(** ** the spin / fermion branch on one term, with the kind-based sign *)
Definition mulop_bin_sem (ks : sig) (i : nat) (q : Z) (t : term) : option term :=
  let (p, f) := t in
  let o := oget p i in
  let new := o + q in
  if 1 <? Z.abs new then None else
  let f1 := bin_coeff i q o f in
  Some (upd p i new, if isF (kget ks i) && code_sign ks p i o new then CNeg f1 else f1).

Lemma ws_has_factor ks : forall i p n,
  (i < length ks)%nat -> length p = length ks -> length n = length ks ->
  exists R, geq (ws ks p n) (gmul (wloc (kget ks i) (oget p i) (oget n i)) R).
Proof.
  induction ks as [|k ks IH]; intros i p n Hi Hp Hn; [cbn in Hi; lia|].
  destruct p as [|q p]; [discriminate|]. destruct n as [|v n]; [discriminate|].
  injection Hp as Hp. injection Hn as Hn. cbn [length] in Hi.
  destruct i as [|i]; unfold kget, oget; cbn [nth ws].
  - eexists. rewrite <- !Gauss.G_ring_theory.(Rmul_assoc). reflexivity.
  - destruct (IH i p n ltac:(lia) Hp Hn) as [R HR]. unfold kget, oget in HR.
    eexists (gmul (gmul (wloc k q v) (gsgn (isF k && (v - Z.max q 0 =? 1) && parF ks p))) R).
    rewrite HR. ring.
Qed.

Lemma wloc_bin_nil k q o v :
  isInf k = false -> (v = 0 \/ v = 1) -> (q = 1 \/ q = -1) -> 1 < Z.abs (o + q) ->
  geq (gmul (wloc k q v) (wloc k o (v - q))) g0.
Proof.
  intros Hk Hv Hq Hn.
  assert (E : wloc k = wloc Fermion) by (destruct k; try discriminate; reflexivity).
  rewrite E. unfold wloc.
  destruct Hq; subst q; destruct Hv; subst v; cbn [Z.eqb gind Z.sub Z.add Z.opp Z.pos_sub Pos.eqb];
    destruct (Z.eqb_spec o 0), (Z.eqb_spec o 1), (Z.eqb_spec o (-1)); try lia; cbn [gind]; ring.
Qed.

Lemma wloc_bin_eq k : isInf k = false -> wloc k = wloc Fermion.
Proof. destruct k; try discriminate; reflexivity. Qed.

Lemma mulop_bin_sem_term ks i q t n :
  (i < length ks)%nat -> length (fst t) = length ks -> length n = length ks ->
  isInf (kget ks i) = false ->
  Z.abs (oget (fst t) i) <= 1 ->
  (oget n i = 0 \/ oget n i = 1) -> (q = 1 \/ q = -1) ->
  match mulop_bin_sem ks i q t with
  | Some t' => peq (den_term ks t' n) (papp (den_term ks t) (opact ks i q n))
  | None => geq (fst (papp (den_term ks t) (opact ks i q n))) g0
  end.
Proof.
  intros Hi Hp Hn Hk Hpo Hv Hq. destruct t as [p f]. cbn [fst] in Hp, Hpo.
  set (o := oget p i) in *. set (v := oget n i) in *.
  unfold mulop_bin_sem. fold o.
  assert (Hpap : peq (papp (den_term ks (p, f)) (opact ks i q n))
                     (gmul (gmul (gsgn (jw ks i n && Z.odd q)) (wloc (kget ks i) q v))
                           (gmul (ws ks p (upd n i (v - q))) (cval f (omid (upd n i (v - q)) p))),
                      osub (upd n i (v - q)) p)).
  { rewrite opact_cf by auto. unfold papp. cbn [fst snd].
    rewrite (den_term_cf_eq ks (p, f)) by (rewrite ?upd_length; auto).
    unfold den_term_cf, pscale. cbn [fst snd]. reflexivity. }
  destruct (Z.ltb_spec 1 (Z.abs (o + q))) as [Hnil|Hnew].
  - (* nilpotent: the product vanishes *)
    rewrite Hpap. clear Hpap.
    cbn [fst].
    destruct (ws_has_factor ks i p (upd n i (v - q)) Hi Hp ltac:(rewrite upd_length; auto)) as [R HR].
    rewrite HR. fold o. rewrite oget_upd_same by congruence.
    pose proof (wloc_bin_nil (kget ks i) q o v Hk Hv Hq Hnil) as HZ.
    transitivity (gmul (gmul (wloc (kget ks i) q v) (wloc (kget ks i) o (v - q)))
                       (gmul (gmul (gsgn (jw ks i n && Z.odd q)) R) (cval f (omid (upd n i (v - q)) p)))); [ring|].
    rewrite HZ. ring.
  - rewrite Hpap. clear Hpap.
    rewrite den_term_cf_eq by (cbn [fst]; rewrite ?upd_length; auto).
    unfold den_term_cf. cbn [fst snd].
    split; cbn [fst snd].
    2:{ rewrite osub_upd_r, osub_upd_l by congruence. fold o v. apply upd_eq_val. lia. }
    rewrite omid_upd_r, omid_upd_l by congruence. fold o v.
    set (M := omid n p).
    assert (HM : (i < length M)%nat) by (subst M; rewrite omid_length; congruence).
    assert (Hodd : Z.odd q = true) by (destruct Hq; subst q; reflexivity).
    rewrite Hodd, andb_true_r.
    rewrite (wloc_bin_eq _ Hk).
    destruct (isF (kget ks i)) eqn:EF.
    + (* fermion *)
      assert (HkF : kget ks i = Fermion) by (destruct (kget ks i); try discriminate; reflexivity).
      cbn [andb].
      pose proof (ws_fermion_step ks i p n o q
                    (cval (bin_coeff i q o f) (upd M i (v - Z.max (o + q) 0)))
                    (gmul (wloc Fermion q v) (cval f (upd M i (v - q - Z.max o 0))))
                    Hi Hp Hn HkF eq_refl) as HS.
      fold v in HS.
      assert (Hoddn : Z.odd (o + q) = negb (Z.odd o)).
      { rewrite Z.odd_add, Hodd. destruct (Z.odd o); reflexivity. }
      specialize (HS Hoddn).
      specialize (HS (fun Pb => bin_local i q o v f M Pb HM Hv Hq ltac:(lia) Hpo)).
      set (cs := code_sign ks p i o (o + q)) in *.
      assert (Hc : geq (cval (if cs then CNeg (bin_coeff i q o f) else bin_coeff i q o f)
                             (upd M i (v - Z.max (o + q) 0)))
                       (gmul (gsgn cs) (cval (bin_coeff i q o f) (upd M i (v - Z.max (o + q) 0))))).
      { destruct cs; cbn [cval gsgn]; ring. }
      rewrite Hc.
      transitivity (gmul (gsgn cs) (gmul (ws ks (upd p i (o + q)) n)
                      (cval (bin_coeff i q o f) (upd M i (v - Z.max (o + q) 0))))); [ring|].
      rewrite HS.
      transitivity (gmul (gmul (gsgn cs) (gsgn cs))
                      (gmul (gmul (gsgn (jw ks i n)) (ws ks p (upd n i (v - q))))
                            (gmul (wloc Fermion q v) (cval f (upd M i (v - q - Z.max o 0)))))); [ring|].
      rewrite gsgn_sq. ring.
    + (* spin *)
      cbn [andb].
      assert (HjwF : jw ks i n = false) by (unfold jw; rewrite EF; reflexivity).
      rewrite HjwF. cbn [gsgn].
      rewrite (ws_factor_nonF ks i (upd p i (o + q)) n) by (rewrite ?upd_length; auto).
      rewrite (ws_factor_nonF ks i p (upd n i (v - q))) by (rewrite ?upd_length; auto).
      rewrite upd_upd. rewrite !oget_upd_same by congruence. fold o.
      rewrite (ws_indep_nonF ks i (upd p i 0) n (v - q)) by (rewrite ?upd_length; auto; apply oget_upd_same; congruence).
      fold v. rewrite (wloc_bin_eq _ Hk).
      pose proof (bin_local i q o v f M false HM Hv Hq ltac:(lia) Hpo) as HL.
      rewrite !andb_false_r in HL. cbn [gsgn] in HL.
      assert (Hif : (if (o =? 1) || (o + q =? 1) then false else false) = false) by (destruct ((o =? 1) || (o + q =? 1)); reflexivity).
      rewrite Hif in HL. cbn [gsgn] in HL.
      transitivity (gmul (ws ks (upd p i 0) n)
        (gmul (gmul (wloc Fermion (o + q) v) g1) (cval (bin_coeff i q o f) (upd M i (v - Z.max (o + q) 0))))); [ring|].
      rewrite HL. ring.
Qed.
