(** * Closed form of the action of a number-ordered term *)
Require Import List ZArith QArith Lia Setoid Morphisms Bool.
Require Import PV.NOF.Gauss PV.NOF.Coeff PV.NOF.Fock.
Import ListNotations.
Local Open Scope Z_scope.

Definition lift (v : Z) (cs : G * occ) : G * occ := (fst cs, v :: snd cs).

#[global] Instance lift_Proper v : Proper (peq ==> peq) (lift v).
Proof. intros [c s] [c' s'] [H1 H2]; split; cbn in *; congruence. Qed.

#[global] Instance fst_peq_Proper : Proper (peq ==> geq) (@fst G occ).
Proof. intros a b [H _]; exact H. Qed.
#[global] Instance snd_peq_Proper : Proper (peq ==> eq) (@snd G occ).
Proof. intros a b [_ H]; exact H. Qed.

Lemma pscale_pscale a b cs : peq (pscale a (pscale b cs)) (pscale (gmul a b) cs).
Proof. destruct cs; split; cbn; [ring|reflexivity]. Qed.
Lemma pscale_1 cs : peq (pscale g1 cs) cs.
Proof. destruct cs; split; cbn; [ring|reflexivity]. Qed.
Lemma lift_pscale v a cs : lift v (pscale a cs) = pscale a (lift v cs).
Proof. destruct cs; reflexivity. Qed.

(** a state map is "linear" when used through [papp] *)
Lemma papp_pscale F a cs : peq (papp F (pscale a cs)) (pscale a (papp F cs)).
Proof. destruct cs as [c s]; unfold papp; cbn. destruct (F s); split; cbn; [ring|reflexivity]. Qed.

#[global] Instance papp_Proper F : Proper (peq ==> peq) (papp F).
Proof.
  intros [c s] [c' s'] [H1 H2]; cbn in *; subst. unfold papp; cbn.
  destruct (F s'); split; cbn; [rewrite H1; reflexivity|reflexivity].
Qed.

#[global] Instance iter_step_Proper ks i dag r : Proper (peq ==> peq) (iter_step ks i dag r).
Proof.
  induction r; intros cs cs' H; cbn; auto.
  apply IHr. rewrite H. reflexivity.
Qed.

Lemma iter_step_pscale ks i dag r a cs :
  peq (iter_step ks i dag r (pscale a cs)) (pscale a (iter_step ks i dag r cs)).
Proof.
  revert cs; induction r; intros cs; cbn; [reflexivity|].
  rewrite papp_pscale. apply IHr.
Qed.

Lemma papp_opact ks i q cs :
  peq (papp (opact ks i q) cs) (iter_step ks i (q <? 0) (Z.abs_nat q) cs).
Proof.
  destruct cs as [c s]. unfold papp, opact; cbn [fst snd].
  rewrite <- iter_step_pscale. apply iter_step_Proper. split; cbn; [ring|reflexivity].
Qed.

#[global] Instance apass_aux_Proper ks p i : Proper (peq ==> peq) (apass_aux ks p i).
Proof.
  revert i; induction p; intros i cs cs' H; cbn; auto.
  apply IHp. destruct (0 <? a); [rewrite H; reflexivity|auto].
Qed.
#[global] Instance cpass_aux_Proper ks p i : Proper (peq ==> peq) (cpass_aux ks p i).
Proof.
  revert i; induction p; intros i cs cs' H; cbn; auto.
  destruct (a <? 0); [apply papp_Proper|]; apply IHp; auto.
Qed.

Lemma apass_aux_pscale ks p i a cs :
  peq (apass_aux ks p i (pscale a cs)) (pscale a (apass_aux ks p i cs)).
Proof.
  revert i cs; induction p; intros i cs; cbn; [reflexivity|].
  destruct (0 <? a0); [|apply IHp].
  rewrite papp_pscale. apply IHp.
Qed.
Lemma cpass_aux_pscale ks p i a cs :
  peq (cpass_aux ks p i (pscale a cs)) (pscale a (cpass_aux ks p i cs)).
Proof.
  revert i cs; induction p; intros i cs; cbn; [reflexivity|].
  destruct (a0 <? 0); [|apply IHp].
  rewrite IHp. apply papp_pscale.
Qed.

(** ** recursion equations of [step] over the mode list *)
Lemma step_cons_O k ks dag v n :
  peq (step (k :: ks) 0 dag (v :: n)) (fst (local k dag v), snd (local k dag v) :: n).
Proof.
  unfold step, jw, kget, oget. cbn [nth firstn occF upd].
  rewrite andb_false_r. destruct (local k dag v); split; cbn [fst snd gsgn]; [ring|reflexivity].
Qed.

Lemma step_cons_S k ks i dag v n :
  peq (step (k :: ks) (S i) dag (v :: n))
      (pscale (gsgn (isF (kget ks i) && isF k && (v =? 1))) (lift v (step ks i dag n))).
Proof.
  unfold step, jw, kget, oget. cbn [nth firstn occF upd].
  destruct (local (nth i ks Boson) dag (nth i n 0)) as [c v'].
  split; cbn [fst snd pscale lift]; [|reflexivity].
  destruct (isF (nth i ks Boson)); cbn [andb gsgn]; [|ring].
  rewrite gsgn_xorb. ring.
Qed.

Lemma iter_step_cons_S k ks i dag r v c n :
  peq (iter_step (k :: ks) (S i) dag r (c, v :: n))
      (pscale (gsgn (isF (kget ks i) && isF k && (v =? 1) && Nat.odd r))
              (lift v (iter_step ks i dag r (c, n)))).
Proof.
  revert c n; induction r; intros c n.
  - cbn [iter_step Nat.odd]. rewrite andb_false_r. split; cbn [fst snd pscale lift gsgn]; [ring|reflexivity].
  - cbn [iter_step]. unfold papp at 1. cbn [fst snd]. rewrite step_cons_S.
    set (b := isF (kget ks i) && isF k && (v =? 1)).
    destruct (step ks i dag n) as [c1 n1] eqn:E.
    assert (Hp : peq (pscale c (pscale (gsgn b) (lift v (c1, n1)))) (pscale (gsgn b) (gmul c c1, v :: n1))).
    { split; unfold lift, pscale; cbn [fst snd]; [ring|reflexivity]. }
    rewrite Hp, iter_step_pscale, IHr, pscale_pscale.
    unfold papp. cbn [fst snd]. rewrite E. unfold pscale at 3. cbn [fst snd].
    apply pscale_Proper; [|reflexivity].
    rewrite Nat.odd_succ, <- Nat.negb_odd.
    fold b. destruct b, (Nat.odd r); cbn [andb negb gsgn]; ring.
Qed.

Lemma Zodd_of_nat k : Z.odd (Z.of_nat k) = Nat.odd k.
Proof.
  induction k.
  - reflexivity.
  - rewrite Nat2Z.inj_succ, Z.odd_succ, Nat.odd_succ, <- Z.negb_odd, <- Nat.negb_odd, IHk.
    reflexivity.
Qed.
Lemma Zabs_nat_odd q : Nat.odd (Z.abs_nat q) = Z.odd q.
Proof.
  rewrite <- Zodd_of_nat, Zabs2Nat.id_abs.
  destruct (Z.abs_spec q) as [[_ E]|[_ E]]; rewrite E; [reflexivity|apply Z.odd_opp].
Qed.

Lemma opact_cons_S k ks i q v n :
  peq (opact (k :: ks) (S i) q (v :: n))
      (pscale (gsgn (isF (kget ks i) && isF k && (v =? 1) && Z.odd q))
              (lift v (opact ks i q n))).
Proof.
  unfold opact. rewrite iter_step_cons_S, Zabs_nat_odd. reflexivity.
Qed.

(** ** the operator of the head mode *)
Fixpoint wit (k : kind) (dag : bool) (r : nat) (v : Z) : G :=
  match r with
  | O => g1
  | S r' => gmul (fst (local k dag v)) (wit k dag r' (snd (local k dag v)))
  end.
Definition vshift (dag : bool) (r : nat) (v : Z) : Z :=
  if dag then v + Z.of_nat r else v - Z.of_nat r.

Lemma local_snd k dag v : snd (local k dag v) = if dag then v + 1 else v - 1.
Proof. destruct k, dag; reflexivity. Qed.

Lemma iter_step_cons_O k ks dag r c v n :
  peq (iter_step (k :: ks) 0 dag r (c, v :: n))
      (gmul c (wit k dag r v), vshift dag r v :: n).
Proof.
  revert c v; induction r; intros c v.
  - split; cbn [iter_step wit fst snd]; [ring|].
    unfold vshift. destruct dag; f_equal; cbn; lia.
  - cbn [iter_step wit]. unfold papp at 1. cbn [fst snd]. rewrite step_cons_O.
    unfold pscale. cbn [fst snd]. rewrite IHr.
    split; cbn [fst snd]; [ring|].
    rewrite local_snd. unfold vshift. destruct dag; f_equal; lia.
Qed.

Lemma ffall_succ v k : geq (ffall v (S k)) (gmul (gz v) (ffall (v - 1) k)).
Proof. reflexivity. Qed.

Lemma wit_wloc k q v : geq (wit k (q <? 0) (Z.abs_nat q) v) (wloc k q v).
Proof.
  destruct k.
  - (* boson *)
    unfold wloc. destruct (Z.ltb_spec q 0).
    + replace (Z.to_nat q) with O by lia. cbn [ffall].
      generalize (Z.abs_nat q). intros r. revert v. induction r; intros v; cbn [wit]; [reflexivity|].
      cbn [local fst snd]. rewrite IHr. ring.
    + replace (Z.abs_nat q) with (Z.to_nat q) by lia.
      generalize (Z.to_nat q). intros r. revert v. induction r; intros v; cbn [wit ffall]; [reflexivity|].
      cbn [local fst snd]. rewrite IHr. reflexivity.
  - (* ladder *)
    unfold wloc. generalize (Z.abs_nat q). intros r. revert v. induction r; intros v; cbn [wit]; [reflexivity|].
    destruct (q <? 0); cbn [local fst snd]; rewrite IHr; ring.
  - (* spin *)
    unfold wloc.
    destruct (Z.eqb_spec q 0); [subst; reflexivity|].
    destruct (Z.eqb_spec q 1); [subst; change (Z.abs_nat 1) with 1%nat; change (1 <? 0) with false; cbn [wit local fst snd]; ring|].
    destruct (Z.eqb_spec q (-1)); [subst; change (Z.abs_nat (-1)) with 1%nat; change (-1 <? 0) with true; cbn [wit local fst snd]; ring|].
    destruct (Z.abs_nat q) as [|[|r]] eqn:E; try lia.
    cbn [wit]. destruct (q <? 0); cbn [local fst snd].
    * destruct (Z.eqb_spec v 0), (Z.eqb_spec (v + 1) 0); cbn [gind]; try lia; ring.
    * destruct (Z.eqb_spec v 1), (Z.eqb_spec (v - 1) 1); cbn [gind]; try lia; ring.
  - (* fermion *)
    unfold wloc.
    destruct (Z.eqb_spec q 0); [subst; reflexivity|].
    destruct (Z.eqb_spec q 1); [subst; change (Z.abs_nat 1) with 1%nat; change (1 <? 0) with false; cbn [wit local fst snd]; ring|].
    destruct (Z.eqb_spec q (-1)); [subst; change (Z.abs_nat (-1)) with 1%nat; change (-1 <? 0) with true; cbn [wit local fst snd]; ring|].
    destruct (Z.abs_nat q) as [|[|r]] eqn:E; try lia.
    cbn [wit]. destruct (q <? 0); cbn [local fst snd].
    * destruct (Z.eqb_spec v 0), (Z.eqb_spec (v + 1) 0); cbn [gind]; try lia; ring.
    * destruct (Z.eqb_spec v 1), (Z.eqb_spec (v - 1) 1); cbn [gind]; try lia; ring.
Qed.

Lemma opact_cons_O k ks q v n :
  peq (opact (k :: ks) 0 q (v :: n)) (wloc k q v, (v - q) :: n).
Proof.
  unfold opact. rewrite iter_step_cons_O.
  split; cbn [fst snd]; [rewrite wit_wloc; ring|].
  unfold vshift. destruct (Z.ltb_spec q 0); f_equal; lia.
Qed.

(** ** lifting the passes over the tail of the mode list *)
Fixpoint parPosI (ks : sig) (p : list Z) (i : nat) : bool :=
  match p with
  | [] => false
  | q :: r => xorb (isF (kget ks i) && (0 <? q) && Z.odd q) (parPosI ks r (S i))
  end.
Fixpoint parNegI (ks : sig) (p : list Z) (i : nat) : bool :=
  match p with
  | [] => false
  | q :: r => xorb (isF (kget ks i) && (q <? 0) && Z.odd q) (parNegI ks r (S i))
  end.

Lemma parPosI_cons k ks p i : parPosI (k :: ks) p (S i) = parPosI ks p i.
Proof. revert i; induction p; intros i; cbn [parPosI]; [reflexivity|]. rewrite IHp. reflexivity. Qed.
Lemma parNegI_cons k ks p i : parNegI (k :: ks) p (S i) = parNegI ks p i.
Proof. revert i; induction p; intros i; cbn [parNegI]; [reflexivity|]. rewrite IHp. reflexivity. Qed.
Lemma kget_nil i : kget [] i = Boson.
Proof. destruct i; reflexivity. Qed.
Lemma parPosI_nil p i : parPosI [] p i = false.
Proof. revert i; induction p; intros i; cbn [parPosI]; [reflexivity|]. rewrite IHp, kget_nil. reflexivity. Qed.
Lemma parNegI_nil p i : parNegI [] p i = false.
Proof. revert i; induction p; intros i; cbn [parNegI]; [reflexivity|]. rewrite IHp, kget_nil. reflexivity. Qed.

Lemma par_split ks p : xorb (parPosI ks p 0) (parNegI ks p 0) = parF ks p.
Proof.
  revert p; induction ks; intros p.
  - rewrite parPosI_nil, parNegI_nil. destruct p; reflexivity.
  - destruct p as [|q p]; [reflexivity|].
    cbn [parPosI parNegI parF]. rewrite parPosI_cons, parNegI_cons, <- IHks.
    unfold kget; cbn [nth].
    destruct (isF a); cbn [andb]; [|destruct (parPosI ks p 0), (parNegI ks p 0); reflexivity].
    destruct (Z.ltb_spec 0 q), (Z.ltb_spec q 0); try lia; cbn [andb];
      destruct (parPosI ks p 0), (parNegI ks p 0), (Z.odd q) eqn:E; try reflexivity.
    all: assert (q = 0) by lia; subst; discriminate.
Qed.

Lemma apass_aux_cons_S k ks p i c v n :
  peq (apass_aux (k :: ks) p (S i) (c, v :: n))
      (pscale (gsgn (isF k && (v =? 1) && parPosI ks p i)) (lift v (apass_aux ks p i (c, n)))).
Proof.
  revert i c n; induction p as [|q r IH]; intros i c n.
  - cbn [apass_aux parPosI]. rewrite andb_false_r.
    split; unfold lift, pscale; cbn [fst snd gsgn]; [ring|reflexivity].
  - cbn [apass_aux parPosI].
    destruct (Z.ltb_spec 0 q) as [Hq|Hq].
    + unfold papp. cbn [fst snd].
      rewrite opact_cons_S.
      destruct (opact ks i q n) as [c1 n1].
      set (b1 := isF (kget ks i) && isF k && (v =? 1) && Z.odd q).
      assert (Hp : peq (pscale c (pscale (gsgn b1) (lift v (c1, n1)))) (pscale (gsgn b1) (gmul c c1, v :: n1))).
      { split; unfold lift, pscale; cbn [fst snd]; [ring|reflexivity]. }
      rewrite Hp, apass_aux_pscale, IH, pscale_pscale.
      unfold pscale at 3. cbn [fst snd].
      apply pscale_Proper; [|reflexivity].
      subst b1. rewrite andb_true_r.
      destruct (isF (kget ks i)), (isF k), (v =? 1), (Z.odd q), (parPosI ks r (S i)); cbn [andb xorb gsgn]; ring.
    + rewrite IH. rewrite andb_false_r. cbn [andb]. rewrite xorb_false_l. reflexivity.
Qed.

Lemma cpass_aux_cons_S k ks p i c v n :
  peq (cpass_aux (k :: ks) p (S i) (c, v :: n))
      (pscale (gsgn (isF k && (v =? 1) && parNegI ks p i)) (lift v (cpass_aux ks p i (c, n)))).
Proof.
  revert i c n; induction p as [|q r IH]; intros i c n.
  - cbn [cpass_aux parNegI]. rewrite andb_false_r.
    split; unfold lift, pscale; cbn [fst snd gsgn]; [ring|reflexivity].
  - cbn [cpass_aux parNegI].
    destruct (Z.ltb_spec q 0) as [Hq|Hq].
    + rewrite IH.
      destruct (cpass_aux ks r (S i) (c, n)) as [c0 n0].
      set (b0 := isF k && (v =? 1) && parNegI ks r (S i)).
      unfold lift at 1, pscale at 1. cbn [fst snd].
      unfold papp. cbn [fst snd].
      rewrite opact_cons_S.
      destruct (opact ks i q n0) as [c1 n1].
      split; unfold lift, pscale; cbn [fst snd]; [|reflexivity].
      subst b0. rewrite andb_true_r.
      destruct (isF (kget ks i)), (isF k), (v =? 1), (Z.odd q), (parNegI ks r (S i)); cbn [andb xorb gsgn]; ring.
    + rewrite IH. rewrite andb_false_r. cbn [andb]. rewrite xorb_false_l. reflexivity.
Qed.

(** ** closed form *)
Definition gact (g : occ -> G) (s : occ) : G * occ := (g s, s).
Definition den_term_g (ks : sig) (p : list Z) (g : occ -> G) (n : occ) : G * occ :=
  cpass_aux ks p 0 (papp (gact g) (apass_aux ks p 0 (g1, n))).

Lemma den_term_den_term_g ks t n : den_term ks t n = den_term_g ks (fst t) (cval (snd t)) n.
Proof. reflexivity. Qed.

Lemma wloc_zero k v : geq (wloc k 0 v) g1.
Proof. destruct k; reflexivity. Qed.

Theorem den_term_g_cf ks : forall p n g,
  length p = length ks -> length n = length ks ->
  peq (den_term_g ks p g n) (gmul (ws ks p n) (g (omid n p)), osub n p).
Proof.
  induction ks as [|k ks IH]; intros p n g Hp Hn.
  - destruct p, n; try discriminate.
    split; cbn; [ring|reflexivity].
  - destruct p as [|q p], n as [|v n]; try discriminate.
    injection Hp as Hp. injection Hn as Hn.
    unfold den_term_g. cbn [apass_aux cpass_aux].
    set (vm := v - Z.max q 0).
    set (wA := if 0 <? q then wloc k q v else g1).
    assert (HX : peq (if 0 <? q then papp (opact (k :: ks) 0 q) (g1, v :: n) else (g1, v :: n))
                     (wA, vm :: n)).
    { subst wA vm. destruct (Z.ltb_spec 0 q).
      - unfold papp. cbn [fst snd]. rewrite opact_cons_O.
        split; unfold pscale; cbn [fst snd]; [ring|f_equal; lia].
      - split; cbn [fst snd]; [reflexivity|f_equal; lia]. }
    set (sA := isF k && (vm =? 1) && parPosI ks p 0).
    set (sC := isF k && (vm =? 1) && parNegI ks p 0).
    assert (HIn : peq (cpass_aux (k :: ks) p 1 (papp (gact g) (apass_aux (k :: ks) p 1
                         (if 0 <? q then papp (opact (k :: ks) 0 q) (g1, v :: n) else (g1, v :: n)))))
                      (pscale (gsgn sC) (lift vm (pscale (gmul (gsgn sA) wA)
                         (gmul (ws ks p n) (g (vm :: omid n p)), osub n p))))).
    { rewrite HX. rewrite apass_aux_cons_S.
      specialize (IH p n (fun s => g (vm :: s)) Hp Hn).
      unfold den_term_g in IH.
      assert (HA : peq (apass_aux ks p 0 (wA, n)) (pscale wA (apass_aux ks p 0 (g1, n)))).
      { rewrite <- apass_aux_pscale. apply apass_aux_Proper.
        split; unfold pscale; cbn [fst snd]; [ring|reflexivity]. }
      rewrite HA.
      destruct (apass_aux ks p 0 (g1, n)) as [cA nA].
      fold sA.
      assert (HY : peq (papp (gact g) (pscale (gsgn sA) (lift vm (pscale wA (cA, nA)))))
                       (gmul (gmul (gsgn sA) wA) (gmul cA (g (vm :: nA))), vm :: nA)).
      { split; unfold papp, gact, lift, pscale; cbn [fst snd]; [ring|reflexivity]. }
      rewrite HY. rewrite cpass_aux_cons_S. fold sC.
      assert (HC : peq (cpass_aux ks p 0 (gmul (gmul (gsgn sA) wA) (gmul cA (g (vm :: nA))), nA))
                       (pscale (gmul (gsgn sA) wA) (gmul (ws ks p n) (g (vm :: omid n p)), osub n p))).
      { rewrite <- IH. rewrite <- cpass_aux_pscale. apply cpass_aux_Proper.
        split; unfold papp, gact, pscale; cbn [fst snd]; cbv beta; [ring|reflexivity]. }
      rewrite HC. reflexivity. }
    assert (Hsgn : geq (gmul (gsgn sC) (gsgn sA)) (gsgn (isF k && (vm =? 1) && parF ks p))).
    { subst sC sA. rewrite <- par_split.
      destruct (isF k), (vm =? 1), (parPosI ks p 0), (parNegI ks p 0); cbn [andb xorb gsgn]; ring. }
    cbn [ws omid osub]. fold vm.
    destruct (Z.ltb_spec q 0) as [Hq|Hq].
    + rewrite HIn.
      unfold lift, pscale. cbn [fst snd]. unfold papp. cbn [fst snd].
      rewrite opact_cons_O. unfold pscale. cbn [fst snd].
      assert (vm = v) by (subst vm; lia).
      assert (HwA : wA = g1) by (subst wA; destruct (Z.ltb_spec 0 q); [lia|reflexivity]).
      split; cbn [fst snd]; [|f_equal; lia].
      rewrite <- Hsgn, HwA. replace (wloc k q vm) with (wloc k q v) by (rewrite H; reflexivity). ring.
    + rewrite HIn.
      split; unfold pscale, lift; cbn [fst snd]; [|f_equal; subst vm; lia].
      rewrite <- Hsgn.
      assert (HwA : geq wA (wloc k q v)).
      { subst wA. destruct (Z.ltb_spec 0 q); [reflexivity|].
        assert (q = 0) by lia. subst q. rewrite wloc_zero. reflexivity. }
      rewrite HwA. ring.
Qed.

Corollary den_term_cf_eq ks t n :
  length (fst t) = length ks -> length n = length ks ->
  peq (den_term ks t n) (den_term_cf ks t n).
Proof.
  intros. rewrite den_term_den_term_g. apply den_term_g_cf; auto.
Qed.
