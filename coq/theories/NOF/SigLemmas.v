(** * Consequences of the operator ordering enforced by [_validate_operators]:
      index tests ([op_index < _n_inf_order], [op_index < _n_bosons]) decide the kind,
      and the Python slices of [preceding_fermions] count fermionic modes. *)
Require Import List ZArith QArith Lia Bool.
Require Import PV.NOF.Gauss PV.NOF.Coeff PV.NOF.Fock PV.NOF.FockLemmas PV.NOF.Model PV.NOF.FermiSign.
Import ListNotations.

Definition sorted4 (a b c d : nat) : sig :=
  repeat Boson a ++ repeat Ladder b ++ repeat Spin c ++ repeat Fermion d.

Lemma kind_eqb_spec x y : reflect (x = y) (kind_eqb x y).
Proof. destruct x, y; constructor; congruence. Qed.
Lemma sig_eqb_eq a b : sig_eqb a b = true -> a = b.
Proof.
  revert b; induction a as [|x a IH]; intros [|y b]; cbn; intros H; try discriminate; auto.
  apply andb_true_iff in H. destruct H as [H1 H2].
  destruct (kind_eqb_spec x y); try discriminate. subst. f_equal. auto.
Qed.
Lemma sig_ok_sorted ks : sig_ok ks = true ->
  ks = sorted4 (count_kind Boson ks) (count_kind Ladder ks) (count_kind Spin ks) (count_kind Fermion ks).
Proof. intros H. apply sig_eqb_eq in H. exact H. Qed.

Lemma count_kind_app k a b : count_kind k (a ++ b) = (count_kind k a + count_kind k b)%nat.
Proof. unfold count_kind. rewrite filter_app, app_length. reflexivity. Qed.
Lemma count_kind_repeat k k' n : count_kind k (repeat k' n) = if kind_eqb k k' then n else O.
Proof.
  unfold count_kind. induction n; cbn [repeat filter]; [destruct (kind_eqb k k'); reflexivity|].
  destruct (kind_eqb k k') eqn:E; cbn [length]; rewrite IHn; reflexivity.
Qed.

Lemma kget_app_repeat k n rest i :
  kget (repeat k n ++ rest) i = if (i <? n)%nat then k else kget rest (i - n).
Proof.
  unfold kget. revert i; induction n; intros i; cbn [repeat app].
  - rewrite Nat.sub_0_r. reflexivity.
  - destruct i; cbn [nth]; [reflexivity|]. rewrite IHn.
    change (S i <? S n)%nat with (i <? n)%nat. reflexivity.
Qed.

Lemma kget_sorted4 a b c d i :
  kget (sorted4 a b c d) i =
  if (i <? a)%nat then Boson else if (i <? a + b)%nat then Ladder
  else if (i <? a + b + c)%nat then Spin else if (i <? a + b + c + d)%nat then Fermion else Boson.
Proof.
  unfold sorted4. rewrite !kget_app_repeat.
  destruct (Nat.ltb_spec i a); [reflexivity|].
  destruct (Nat.ltb_spec (i - a) b), (Nat.ltb_spec i (a + b)); try lia; [reflexivity|].
  destruct (Nat.ltb_spec (i - a - b) c), (Nat.ltb_spec i (a + b + c)); try lia; [reflexivity|].
  rewrite <- (app_nil_r (repeat Fermion d)). rewrite kget_app_repeat.
  destruct (Nat.ltb_spec (i - a - b - c) d), (Nat.ltb_spec i (a + b + c + d)); try lia; try reflexivity.
  apply kget_nil.
Qed.

Lemma sig_ok_index ks i : sig_ok ks = true -> (i < length ks)%nat ->
  (i <? n_inf ks)%nat = isInf (kget ks i) /\ (i <? n_bosons ks)%nat = isB (kget ks i).
Proof.
  intros H Hi. pose proof (sig_ok_sorted ks H) as E.
  set (a := count_kind Boson ks) in *. set (b := count_kind Ladder ks) in *.
  set (c := count_kind Spin ks) in *. set (d := count_kind Fermion ks) in *.
  unfold n_inf, n_bosons. fold a b.
  assert (Hl : length ks = (a + b + c + d)%nat).
  { rewrite E at 1. unfold sorted4. rewrite !app_length, !repeat_length. lia. }
  pose proof (kget_sorted4 a b c d i) as HK. rewrite <- E in HK. rewrite HK.
  destruct (Nat.ltb_spec i a), (Nat.ltb_spec i (a + b)); try lia; cbn [isInf isB]; auto.
  destruct (Nat.ltb_spec i (a + b + c)); cbn [isInf isB]; auto.
  destruct (Nat.ltb_spec i (a + b + c + d)); cbn [isInf isB]; auto. lia.
Qed.

(** ** slices *)
Lemma count_eq_cons v q l : count_eq v (q :: l) = ((if (q =? v)%Z then 1 else 0) + count_eq v l)%nat.
Proof. unfold count_eq. cbn [filter]. rewrite (Z.eqb_sym v q). destruct (q =? v)%Z; reflexivity. Qed.
Lemma odd_count_cons v q l : Nat.odd (count_eq v (q :: l)) = xorb (q =? v)%Z (Nat.odd (count_eq v l)).
Proof.
  rewrite count_eq_cons. destruct (q =? v)%Z; cbn [Nat.add xorb].
  - rewrite Nat.odd_succ, <- Nat.negb_odd. reflexivity.
  - destruct (Nat.odd (count_eq v l)); reflexivity.
Qed.

Lemma prefix1_repF d : forall p i, length p = d ->
  prefix1 (repeat Fermion d) p i = Nat.odd (count_eq 1 (firstn i p)).
Proof.
  induction d; intros p i Hp; destruct p; try discriminate; cbn [repeat].
  - destruct i; reflexivity.
  - destruct i; cbn [prefix1 firstn]; [reflexivity|].
    rewrite odd_count_cons. rewrite IHd by (cbn in Hp; lia). reflexivity.
Qed.
Lemma all1_repF d : forall p, length p = d -> all1 (repeat Fermion d) p = Nat.odd (count_eq 1 p).
Proof.
  induction d; intros p Hp; destruct p; try discriminate; cbn [repeat all1]; [reflexivity|].
  rewrite odd_count_cons, IHd by (cbn in Hp; lia). reflexivity.
Qed.
Lemma allm1_repF d : forall p, length p = d -> allm1 (repeat Fermion d) p = Nat.odd (count_eq (-1) p).
Proof.
  induction d; intros p Hp; destruct p; try discriminate; cbn [repeat allm1]; [reflexivity|].
  rewrite odd_count_cons, IHd by (cbn in Hp; lia). reflexivity.
Qed.
Lemma suffm1_repF d : forall p i, length p = d -> (i < d)%nat ->
  suffm1 (repeat Fermion d) p i = Nat.odd (count_eq (-1) (skipn (S i) p)).
Proof.
  induction d; intros p i Hp Hi; [lia|]. destruct p; try discriminate. cbn [repeat].
  destruct i; cbn [suffm1 skipn].
  - apply allm1_repF. cbn in Hp; lia.
  - rewrite IHd by (cbn in Hp; lia). reflexivity.
Qed.

Lemma prefix1_sorted A d : Forall (fun k => isF k = false) A ->
  forall p i, length p = (length A + d)%nat ->
  prefix1 (A ++ repeat Fermion d) p i
  = Nat.odd (count_eq 1 (firstn (i - length A) (skipn (length A) p))).
Proof.
  induction A as [|k A' IH]; intros HA p i Hp.
  - cbn [app length skipn]. rewrite Nat.sub_0_r. apply prefix1_repF. cbn [length] in Hp; lia.
  - inversion HA as [|? ? Hk HA']; subst.
    destruct p as [|q p]; [discriminate|]. cbn [app length].
    destruct i; cbn [prefix1].
    + reflexivity.
    + rewrite Hk. cbn [andb skipn Nat.sub]. rewrite xorb_false_l.
      rewrite (IH HA') by (cbn [length] in Hp; lia). reflexivity.
Qed.
Lemma all1_sorted A d : Forall (fun k => isF k = false) A ->
  forall p, length p = (length A + d)%nat ->
  all1 (A ++ repeat Fermion d) p = Nat.odd (count_eq 1 (skipn (length A) p)).
Proof.
  induction A as [|k A' IH]; intros HA p Hp.
  - cbn [app length skipn]. apply all1_repF. cbn [length] in Hp; lia.
  - inversion HA as [|? ? Hk HA']; subst.
    destruct p as [|q p]; [discriminate|]. cbn [app length all1 skipn].
    rewrite Hk. cbn [andb]. rewrite xorb_false_l. apply (IH HA'). cbn [length] in Hp; lia.
Qed.
Lemma suffm1_sorted A d : Forall (fun k => isF k = false) A ->
  forall p i, length p = (length A + d)%nat ->
  (length A <= i)%nat -> (i < length A + d)%nat ->
  suffm1 (A ++ repeat Fermion d) p i = Nat.odd (count_eq (-1) (skipn (S i) p)).
Proof.
  induction A as [|k A' IH]; intros HA p i Hp Hi Hi2.
  - cbn [app length] in *. apply suffm1_repF; lia.
  - inversion HA as [|? ? Hk HA']; subst.
    destruct p as [|q p]; [discriminate|]. cbn [app length] in *.
    destruct i; [lia|]. cbn [suffm1]. rewrite (IH HA') by lia. reflexivity.
Qed.

Lemma code_sign_slices ks p i o new :
  sig_ok ks = true -> length p = length ks -> (i < length ks)%nat -> kget ks i = Fermion ->
  Nat.odd (preceding_fermions (n_fermions ks) p i o new) = code_sign ks p i o new.
Proof.
  intros H Hp Hi HF. pose proof (sig_ok_sorted ks H) as E.
  set (a := count_kind Boson ks) in *. set (b := count_kind Ladder ks) in *.
  set (c := count_kind Spin ks) in *. set (d := count_kind Fermion ks) in *.
  set (A := repeat Boson a ++ repeat Ladder b ++ repeat Spin c).
  assert (EA : ks = A ++ repeat Fermion d).
  { rewrite E at 1. unfold sorted4, A. rewrite <- !app_assoc. reflexivity. }
  assert (HA : Forall (fun k => isF k = false) A).
  { unfold A. rewrite !Forall_app. repeat split; apply Forall_forall; intros x Hx; rewrite (repeat_spec _ _ _ Hx); reflexivity. }
  assert (HlA : length A = (a + b + c)%nat) by (unfold A; rewrite !app_length, !repeat_length; lia).
  assert (Hl : length ks = (length A + d)%nat) by (rewrite EA at 1; rewrite app_length, repeat_length; lia).
  assert (Hi2 : (length A <= i)%nat).
  { pose proof (kget_sorted4 a b c d i) as HK. rewrite <- E in HK. rewrite HK in HF.
    destruct (Nat.ltb_spec i a); [discriminate|].
    destruct (Nat.ltb_spec i (a + b)); [discriminate|].
    destruct (Nat.ltb_spec i (a + b + c)); [discriminate|]. lia. }
  unfold preceding_fermions, code_sign, n_fermions. fold d.
  replace (length p - d)%nat with (length A) by lia.
  rewrite EA.
  destruct ((o =? 1)%Z || (new =? 1)%Z).
  - symmetry. apply prefix1_sorted; auto. lia.
  - rewrite Nat.odd_add. rewrite all1_sorted by (auto; lia). rewrite suffm1_sorted by (auto; lia).
    reflexivity.
Qed.
