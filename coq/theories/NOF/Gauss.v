(** * Gaussian rationals Q(i) with setoid equality, as a commutative ring with
      conjugation and inverse.  Coefficient field of the NumberOrderedForm model. *)
Require Import QArith Qring Qfield Setoid Morphisms Ring Lia ZArith.
Open Scope Q_scope.

Record G : Type := mkG { re : Q; im : Q }.

Definition geq (a b : G) : Prop := re a == re b /\ im a == im b.
Definition g0 : G := mkG 0 0.
Definition g1 : G := mkG 1 0.
Definition gi : G := mkG 0 1.
Definition gadd (a b : G) := mkG (re a + re b) (im a + im b).
Definition gmul (a b : G) := mkG (re a * re b - im a * im b) (re a * im b + im a * re b).
Definition gopp (a : G) := mkG (- re a) (- im a).
Definition gsub (a b : G) := gadd a (gopp b).
Definition gconj (a : G) := mkG (re a) (- im a).
Definition gnorm2 (a : G) : Q := re a * re a + im a * im a.
Definition ginv (a : G) := mkG (re a / gnorm2 a) (- im a / gnorm2 a).
Definition gq (q : Q) : G := mkG q 0.
Definition gz (z : Z) : G := mkG (inject_Z z) 0.
Definition geqb (a b : G) : bool := Qeq_bool (re a) (re b) && Qeq_bool (im a) (im b).
Definition gzerob (a : G) : bool := geqb a g0.

Declare Scope G_scope.
Delimit Scope G_scope with G.
Bind Scope G_scope with G.
Infix "==" := geq (at level 70, no associativity) : G_scope.
Infix "+" := gadd : G_scope.
Infix "*" := gmul : G_scope.
Infix "-" := gsub : G_scope.
Notation "- x" := (gopp x) : G_scope.
Notation "0" := g0 : G_scope.
Notation "1" := g1 : G_scope.

Lemma geq_refl a : geq a a. Proof. split; reflexivity. Qed.
Lemma geq_sym a b : geq a b -> geq b a. Proof. intros [? ?]; split; symmetry; auto. Qed.
Lemma geq_trans a b c : geq a b -> geq b c -> geq a c.
Proof. intros [? ?] [? ?]; split; etransitivity; eauto. Qed.

#[global] Instance geq_Equivalence : Equivalence geq.
Proof. split; [exact geq_refl | exact geq_sym | exact geq_trans]. Qed.

#[global] Instance gadd_Proper : Proper (geq ==> geq ==> geq) gadd.
Proof. intros a b [H1 H2] c d [H3 H4]; split; cbn; rewrite ?H1, ?H2, ?H3, ?H4; reflexivity. Qed.
#[global] Instance gmul_Proper : Proper (geq ==> geq ==> geq) gmul.
Proof. intros a b [H1 H2] c d [H3 H4]; split; cbn; rewrite ?H1, ?H2, ?H3, ?H4; reflexivity. Qed.
#[global] Instance gopp_Proper : Proper (geq ==> geq) gopp.
Proof. intros a b [H1 H2]; split; cbn; rewrite ?H1, ?H2; reflexivity. Qed.
#[global] Instance gsub_Proper : Proper (geq ==> geq ==> geq) gsub.
Proof. intros a b H c d H'; unfold gsub; rewrite H, H'; reflexivity. Qed.
#[global] Instance gconj_Proper : Proper (geq ==> geq) gconj.
Proof. intros a b [H1 H2]; split; cbn; rewrite ?H1, ?H2; reflexivity. Qed.
#[global] Instance gnorm2_Proper : Proper (geq ==> Qeq) gnorm2.
Proof. intros a b [H1 H2]; unfold gnorm2; rewrite H1, H2; reflexivity. Qed.
#[global] Instance ginv_Proper : Proper (geq ==> geq) ginv.
Proof.
  intros a b H. pose proof (gnorm2_Proper _ _ H) as Hn. destruct H as [H1 H2].
  split; cbn; rewrite ?H1, ?H2, ?Hn; reflexivity.
Qed.

Lemma G_ring_theory : ring_theory g0 g1 gadd gmul gsub gopp geq.
Proof.
  constructor; intros; split; cbn; try ring.
Qed.

Add Ring Gring : G_ring_theory.

Lemma geqb_spec a b : geqb a b = true <-> geq a b.
Proof.
  unfold geqb, geq. rewrite Bool.andb_true_iff, !Qeq_bool_iff. tauto.
Qed.
Lemma geq_dec a b : {geq a b} + {~ geq a b}.
Proof.
  destruct (geqb a b) eqn:E; [left; apply geqb_spec; auto|right].
  intro H. apply geqb_spec in H. congruence.
Qed.

Lemma gnorm2_zero a : gnorm2 a == 0 -> geq a g0.
Proof.
  unfold gnorm2. intros H.
  assert (H1 : 0 <= re a * re a) by (apply Qsqr_nonneg || (destruct (re a) as [[|p|p] d]; unfold Qle, Qmult; cbn; lia)).
  assert (H2 : 0 <= im a * im a) by (destruct (im a) as [[|p|p] d]; unfold Qle, Qmult; cbn; lia).
  assert (Ha : re a * re a == 0).
  { apply Qle_antisym; auto. rewrite <- H. rewrite <- (Qplus_0_r (re a * re a)) at 1.
    apply Qplus_le_r. auto. }
  assert (Hb : im a * im a == 0).
  { apply Qle_antisym; auto. rewrite <- H. rewrite <- (Qplus_0_l (im a * im a)) at 1.
    apply Qplus_le_l. auto. }
  split; cbn.
  - apply Qmult_integral in Ha. tauto.
  - apply Qmult_integral in Hb. tauto.
Qed.

Lemma gmul_inv_r a : ~ geq a g0 -> geq (gmul a (ginv a)) g1.
Proof.
  intros Hn.
  assert (Hz : ~ gnorm2 a == 0) by (intro Hz; apply Hn, gnorm2_zero; auto).
  unfold gnorm2 in *. split; cbn [re im gmul ginv g1 gnorm2]; unfold gnorm2; field; auto.
Qed.

Lemma gz_add x y : geq (gz (x + y)) (gadd (gz x) (gz y)).
Proof. split; cbn; rewrite ?inject_Z_plus; ring. Qed.
Lemma gz_mul x y : geq (gz (x * y)) (gmul (gz x) (gz y)).
Proof. split; cbn; rewrite ?inject_Z_mult; ring. Qed.
Lemma gz_opp x : geq (gz (- x)) (gopp (gz x)).
Proof. split; cbn; rewrite ?inject_Z_opp; ring. Qed.
Lemma gz_sub x y : geq (gz (x - y)) (gsub (gz x) (gz y)).
Proof. unfold Z.sub. rewrite gz_add, gz_opp. reflexivity. Qed.
Lemma gz_0 : geq (gz 0) g0. Proof. split; reflexivity. Qed.
Lemma gz_1 : geq (gz 1) g1. Proof. split; reflexivity. Qed.

Lemma gconj_add a b : geq (gconj (gadd a b)) (gadd (gconj a) (gconj b)).
Proof. split; cbn; ring. Qed.
Lemma gconj_mul a b : geq (gconj (gmul a b)) (gmul (gconj a) (gconj b)).
Proof. split; cbn; ring. Qed.
Lemma gconj_opp a : geq (gconj (gopp a)) (gopp (gconj a)).
Proof. split; cbn; ring. Qed.
Lemma gconj_inv a : geq (gconj (ginv a)) (ginv (gconj a)).
Proof.
  assert (E : gnorm2 (gconj a) == gnorm2 a) by (unfold gnorm2, gconj; cbn [re im]; ring).
  unfold ginv; split; cbn [re im gconj]; fold (gconj a); rewrite E.
  - reflexivity.
  - unfold Qdiv. ring.
Qed.
Lemma gconj_gz z : geq (gconj (gz z)) (gz z).
Proof. split; cbn; ring. Qed.
Lemma gconj_invol a : geq (gconj (gconj a)) a.
Proof. split; cbn; ring. Qed.
Lemma gconj_0 : geq (gconj g0) g0. Proof. split; cbn; ring. Qed.
Lemma gconj_1 : geq (gconj g1) g1. Proof. split; cbn; ring. Qed.

Lemma gz_nonzero z : z <> 0%Z -> ~ geq (gz z) g0.
Proof.
  intros Hz [H _]. cbn in H. apply Hz.
  unfold Qeq in H. cbn in H. lia.
Qed.

(** sign *)
Definition gsgn (b : bool) : G := if b then gopp g1 else g1.
Lemma gsgn_xorb a b : geq (gsgn (xorb a b)) (gmul (gsgn a) (gsgn b)).
Proof. destruct a, b; cbn; ring. Qed.
Lemma gsgn_sq b : geq (gmul (gsgn b) (gsgn b)) g1.
Proof. destruct b; cbn; ring. Qed.
Lemma gconj_gsgn b : geq (gconj (gsgn b)) (gsgn b).
Proof. destruct b; split; cbn; ring. Qed.

(** indicator *)
Definition gind (b : bool) : G := if b then g1 else g0.
