(** * Model of apply_mask_to_operator / NumberOrderedForm.filter_terms
      (second_quantization.py l. 190-265, number_ordered_form.py l. 1601-1637), one matrix
      element, and its laws.

    A mask element is a NumberOrderedForm whose term keys are the selection conditions.
    A condition entry is an integer or a symbolic power: [k + n] / [k - n] with n a positive
    integer symbol; sympy's [(power - ref).is_zero is not False] then means
    power = k / power > k / power < k. *)
Require Import List ZArith QArith Lia Bool Setoid Morphisms.
Require Import PV.NOF.Gauss PV.NOF.Coeff PV.NOF.Fock PV.NOF.FockLemmas PV.NOF.LinComb PV.NOF.Model
  PV.NOF.NofProof.
Import ListNotations.
Local Open Scope Z_scope.

Inductive pat : Type := PEq (k : Z) | PGt (k : Z) | PLt (k : Z).
Definition pat_match (r : pat) (q : Z) : bool :=
  match r with PEq k => q =? k | PGt k => k <? q | PLt k => q <? k end.
(** [all(... for power, ref in zip(powers, condition))] *)
Fixpoint cond_match (c : list pat) (p : list Z) : bool :=
  match c, p with
  | r :: c', q :: p' => pat_match r q && cond_match c' p'
  | _, _ => true
  end.
Definition matches (conds : list (list pat)) (p : list Z) : bool := existsb (fun c => cond_match c p) conds.

(** filter_terms: keep the term iff [keep == any(...)] *)
Definition filter_terms (x : nof) (conds : list (list pat)) (keep : bool) : nof :=
  filter (fun t : term => Bool.eqb keep (matches conds (fst t))) x.

(** one element of apply_mask_to_operator (value and mask already over a common operator list):
    [if not value: continue] (result 0), [if not mask: result = value unless keep], otherwise filter *)
Definition apply_mask (x : nof) (conds : list (list pat)) (keep : bool) : nof :=
  match x with
  | [] => []
  | _ => match conds with
         | [] => if keep then [] else x
         | _ => filter_terms x conds keep
         end
  end.

Lemma apply_mask_filter x conds keep : apply_mask x conds keep = filter_terms x conds keep.
Proof.
  destruct x as [|t x]; [reflexivity|]. destruct conds as [|c conds]; [|reflexivity].
  unfold apply_mask, filter_terms, matches. cbn [existsb].
  destruct keep; cbn [Bool.eqb].
  - induction (t :: x) as [|a l IH]; [reflexivity|]. cbn [filter]. exact IH.
  - induction (t :: x) as [|a l IH]; [reflexivity|]. cbn [filter]. f_equal. exact IH.
Qed.

(** ** laws *)
Section Laws.
  Variable P : list Z -> bool.
  Let sel (x : nof) : nof := filter (fun t : term => P (fst t)) x.

  Lemma filter_dadd k v d :
    sel (dadd k v d) = if P k then dadd k v (sel d) else sel d.
  Proof.
    unfold sel. induction d as [|[k' v'] d IH]; cbn [dadd filter fst].
    - destruct (P k); reflexivity.
    - destruct (occ_eqb_spec k' k) as [E|E].
      + subst k'. cbn [filter fst]. destruct (P k); cbn [dadd]; [rewrite occ_eqb_refl|]; reflexivity.
      + cbn [filter fst]. rewrite IH. destruct (P k'), (P k); cbn [dadd]; try reflexivity.
        destruct (occ_eqb_spec k' k); [contradiction|reflexivity].
  Qed.

  Lemma filter_fold_dadd l : forall acc,
    sel (fold_left (fun d t => dadd (fst t) (snd t) d) l acc)
    = fold_left (fun d t => dadd (fst t) (snd t) d) (sel l) (sel acc).
  Proof.
    induction l as [|[k v] l IH]; intros acc; [reflexivity|].
    cbn [fold_left fst snd]. rewrite IH, filter_dadd.
    change (sel ((k, v) :: l)) with (if P k then (k, v) :: sel l else sel l).
    destruct (P k); reflexivity.
  Qed.

  (** additive (as an identity of term dictionaries) *)
  Lemma sel_add x y : sel (add x y) = add (sel x) (sel y).
  Proof. unfold add. rewrite filter_fold_dadd. unfold sel. rewrite filter_app. reflexivity. Qed.

  Lemma sel_idem x : sel (sel x) = sel x.
  Proof.
    unfold sel. induction x as [|t x IH]; [reflexivity|]. cbn [filter].
    destruct (P (fst t)) eqn:E; cbn [filter]; rewrite ?E, IH; reflexivity.
  Qed.

  Lemma sel_neg x : sel (neg x) = neg (sel x).
  Proof.
    unfold sel, neg. induction x as [|t x IH]; [reflexivity|]. cbn [map filter fst].
    destruct (P (fst t)); cbn [map]; rewrite IH; reflexivity.
  Qed.

  Lemma sel_wf ks x : wf_nof ks x -> wf_nof ks (sel x).
  Proof.
    intros [Hnd Hwf]. split.
    - unfold sel. clear Hwf. induction x as [|t x IH]; [constructor|].
      cbn [map] in Hnd. inversion Hnd; subst. cbn [filter].
      destruct (P (fst t)); auto. cbn [map]. constructor; auto.
      intro Hin. apply H1. rewrite in_map_iff in *. destruct Hin as [u [Hu1 Hu2]].
      exists u. split; auto. apply filter_In in Hu2. tauto.
    - rewrite Forall_forall in *. intros t Ht. apply filter_In in Ht. apply Hwf. tauto.
  Qed.
End Laws.

Theorem mask_additive x y conds keep :
  apply_mask (add x y) conds keep = add (apply_mask x conds keep) (apply_mask y conds keep).
Proof. rewrite !apply_mask_filter. unfold filter_terms. apply (sel_add (fun p => Bool.eqb keep (matches conds p))). Qed.

Theorem mask_idempotent x conds keep :
  apply_mask (apply_mask x conds keep) conds keep = apply_mask x conds keep.
Proof. rewrite !apply_mask_filter. unfold filter_terms. apply (sel_idem (fun p => Bool.eqb keep (matches conds p))). Qed.

(** the kept and the discarded part add up to the operator *)
Theorem mask_partition ks x conds n :
  lc_eq (den ks (apply_mask x conds true) n ++ den ks (apply_mask x conds false) n) (den ks x n).
Proof.
  rewrite !apply_mask_filter. unfold filter_terms.
  induction x as [|t x IH]; [reflexivity|]. cbn [filter].
  destruct (matches conds (fst t)); cbn [Bool.eqb].
  - rewrite !den_cons. cbn [app]. apply lc_eq_cons; [reflexivity|]. cbn [Bool.eqb] in IH. exact IH.
  - rewrite !den_cons. intros m. specialize (IH m). rewrite !coef_at_app in *. cbn [Bool.eqb] in IH.
    destruct (den_term ks t n) as [c s]. cbn [coef_at]. rewrite <- IH. ring.
Qed.
Theorem mask_partition_keys x conds :
  forall t, In t x <-> In t (apply_mask x conds true) \/ In t (apply_mask x conds false).
Proof.
  intros t. rewrite !apply_mask_filter. unfold filter_terms. rewrite !filter_In.
  destruct (matches conds (fst t)); cbn [Bool.eqb]; intuition congruence.
Qed.

(** commutes with the adjoint when the set of conditions is closed under negation of powers *)
Theorem mask_adjoint x conds keep :
  (forall p, matches conds (map Z.opp p) = matches conds p) ->
  apply_mask (adj x) conds keep = adj (apply_mask x conds keep).
Proof.
  intros H. rewrite !apply_mask_filter. unfold filter_terms, adj.
  induction x as [|t x IH]; [reflexivity|]. cbn [map filter fst]. rewrite H.
  destruct (Bool.eqb keep (matches conds (fst t))); cbn [map]; rewrite IH; reflexivity.
Qed.

(** a checkable sufficient condition for closure under negation *)
Definition pat_opp (r : pat) : pat := match r with PEq k => PEq (- k) | PGt k => PLt (- k) | PLt k => PGt (- k) end.
Lemma pat_match_opp r q : pat_match (pat_opp r) (- q) = pat_match r q.
Proof.
  destruct r; cbn [pat_opp pat_match].
  - destruct (Z.eqb_spec (- q) (- k)), (Z.eqb_spec q k); try reflexivity; lia.
  - destruct (Z.ltb_spec (- q) (- k)), (Z.ltb_spec k q); try reflexivity; lia.
  - destruct (Z.ltb_spec (- k) (- q)), (Z.ltb_spec q k); try reflexivity; lia.
Qed.
Lemma cond_match_opp c p : cond_match (map pat_opp c) (map Z.opp p) = cond_match c p.
Proof.
  revert p; induction c as [|r c IH]; intros p; destruct p as [|q p]; cbn [map cond_match]; try reflexivity.
  rewrite pat_match_opp, IH. reflexivity.
Qed.
Lemma matches_closed conds :
  (forall p, matches (map (map pat_opp) conds) p = matches conds p) ->
  forall p, matches conds (map Z.opp p) = matches conds p.
Proof.
  intros H p. rewrite <- (H (map Z.opp p)). unfold matches.
  induction conds as [|c conds IH]; [reflexivity|]. cbn [map existsb].
  rewrite cond_match_opp.
  assert (E : existsb (fun c0 => cond_match c0 (map Z.opp p)) (map (map pat_opp) conds)
              = existsb (fun c0 => cond_match c0 p) conds).
  { clear. induction conds as [|c conds IH]; [reflexivity|]. cbn [map existsb]. rewrite cond_match_opp, IH. reflexivity. }
  rewrite E. reflexivity.
Qed.

(** the mask commutes with the commutator with a number-conserving H_0: selection is by keys,
    and multiplying by a function of number operators keeps the keys *)
Theorem mask_mulexpr ks x e conds keep :
  NoDup (map fst x) ->
  apply_mask (mulexpr ks x e) conds keep = mulexpr ks (apply_mask x conds keep) e.
Proof.
  intros Hnd. rewrite !apply_mask_filter. unfold filter_terms, mulexpr.
  rewrite dict_of_nodup by (rewrite map_fst_same; exact Hnd).
  assert (Hnd' : NoDup (map fst (filter (fun t : term => Bool.eqb keep (matches conds (fst t))) x))).
  { clear -Hnd. induction x as [|t x IH]; [constructor|]. cbn [map] in Hnd. inversion Hnd; subst. cbn [filter].
    destruct (Bool.eqb keep (matches conds (fst t))); auto. cbn [map]. constructor; auto.
    intro Hin. apply H1. rewrite in_map_iff in *. destruct Hin as [u [Hu1 Hu2]].
    exists u. split; auto. apply filter_In in Hu2. tauto. }
  rewrite dict_of_nodup by (rewrite map_fst_same; exact Hnd').
  clear. induction x as [|t x IH]; [reflexivity|]. cbn [map filter fst].
  destruct (Bool.eqb keep (matches conds (fst t))); cbn [map]; rewrite IH; reflexivity.
Qed.

(** observation for the harness: keys kept, in order *)
Definition check_mask (ks : sig) (tx : tree) (conds : list (list pat)) (keep : bool) (expected : list (list Z)) : bool :=
  match teval ks tx with
  | Ok x => let ks' := map fst (apply_mask x conds keep) in
            (length ks' =? length expected)%nat && forallb (fun k => existsb (occ_eqb k) expected) ks'
  | Raise _ => false
  end.
