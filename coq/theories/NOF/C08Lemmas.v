(** * Statements of the C08 theorems (wrappers around NofProof / NofProof2) and the
      concrete objects of the non-vacuity examples.  Props/C08.v re-states them. *)
Require Import List ZArith QArith Bool Lia.
Require Import PV.NOF.Gauss PV.NOF.Coeff PV.NOF.Fock PV.NOF.FockLemmas PV.NOF.LinComb PV.NOF.Model
  PV.NOF.NofProof PV.NOF.NofProof2.
Import ListNotations.
Local Open Scope Z_scope.

(** concrete objects used for the non-vacuity examples *)
Definition ex_ks : sig := [Boson; Ladder; Spin; Fermion; Fermion].
Definition ex_x : nof := [([-1; 0; 0; 1; 0], CAdd (CNum 0) (CConst (gz 2))); ([0; 1; -1; 0; -1], CNum 3)].
Definition ex_y : nof := [([2; 0; 1; 0; 1], CMul (CNum 0) (CNum 1)); ([0; 0; 0; -1; 1], CConst gi)].
Definition ex_n : list Z := [3; -2; 1; 0; 1].

Lemma ex_sig : sig_ok ex_ks = true. Proof. reflexivity. Qed.
Lemma ex_bok : bok ex_ks ex_n. Proof. cbn; repeat split; intros; try discriminate; auto. Qed.
Lemma ex_phys : phys ex_ks ex_n. Proof. cbn; repeat split; intros; auto; try discriminate; lia. Qed.
Lemma ex_wf_x : wf_nof ex_ks ex_x.
Proof.
  split.
  - repeat constructor; cbn; intuition discriminate.
  - repeat constructor; cbn; intros; lia.
Qed.
Lemma ex_wf_y : wf_nof ex_ks ex_y.
Proof.
  split.
  - repeat constructor; cbn; intuition discriminate.
  - repeat constructor; cbn; intros; lia.
Qed.

(** the action of a stored term, closed form: weight * coefficient(N at the middle) and
    target state n - p (used by all proofs; shows what a term means) *)
Lemma c08_term_closed_form : forall ks t n,
  length (fst t) = length ks -> length n = length ks ->
  peq (den_term ks t n)
      (gmul (ws ks (fst t) n) (cval (snd t) (omid n (fst t))), osub n (fst t)).
Proof. exact den_term_cf_eq. Qed.

(** _multiply_op : [[x._multiply_op(i,q)]] = [[x]] o [[op_i^q]], all four branches *)
Lemma c08_mulop : forall ks x i q n x',
  sig_ok ks = true -> wf_nof ks x -> bok ks n ->
  multiply_op ks x i q = Ok x' ->
  lc_eq (den ks x' n) (lc_bind [opact ks i q n] (den ks x)) /\ wf_nof ks x'.
Proof.
  intros ks x i q n x' Hs Hw Hb H. unfold multiply_op in H.
  destruct (Nat.ltb_spec i (length ks)); cbn [andb] in H; [|discriminate].
  destruct (Z.eqb_spec q 0); cbn [negb] in H; [discriminate|].
  injection H as H. subst x'.
  destruct (mulop_raw_correct ks x i q n Hs Hw Hb) as [H1 H2]; auto.
  split; auto. rewrite lc_bind_single'. exact H1.
Qed.
Lemma c08_ex_mulop_nonvacuous :
  exists x', multiply_op ex_ks ex_x 0 1 = Ok x' /\ ~ lc_eq (den ex_ks x' [3; -2; 1; 1; 1]) [].
Proof.
  eexists. split; [reflexivity|]. intros H. specialize (H [3; -2; 1; 0; 1]).
  vm_compute in H. destruct H as [H _]. discriminate H.
Qed.

(** _multiply_expr : multiplication by a function of the number operators *)
Lemma c08_mulexpr : forall ks x e n,
  sig_ok ks = true -> wf_nof ks x -> length n = length ks ->
  lc_eq (den ks (mulexpr ks x e) n) (lc_bind [fact e n] (den ks x)) /\ wf_nof ks (mulexpr ks x e).
Proof.
  intros. destruct (mulexpr_correct ks x e n) as [H2 H3]; auto. split; auto.
  rewrite lc_bind_single'. exact H2.
Qed.

(** __mul__ : [[x*y]] = [[x]] o [[y]] *)
Lemma c08_mul : forall ks x y n,
  sig_ok ks = true -> wf_nof ks x -> wf_nof ks y -> bok ks n ->
  lc_eq (den ks (mul ks x y) n) (lc_bind (den ks y n) (den ks x)) /\ wf_nof ks (mul ks x y).
Proof. exact mul_correct. Qed.
Lemma c08_ex_mul_nonvacuous :
  sig_ok ex_ks = true /\ wf_nof ex_ks ex_x /\ wf_nof ex_ks ex_y /\ bok ex_ks ex_n /\
  ~ lc_eq (den ex_ks (mul ex_ks ex_x ex_y) ex_n) [].
Proof.
  split; [exact ex_sig|]. split; [exact ex_wf_x|]. split; [exact ex_wf_y|]. split; [exact ex_bok|].
  intros H. specialize (H [4; -2; 1; 0; 0]). vm_compute in H. destruct H as [_ H]. discriminate H.
Qed.

(** __add__, __neg__ (hence __sub__) *)
Lemma c08_add : forall ks x y n,
  lc_eq (den ks (add x y) n) (den ks x n ++ den ks y n)
  /\ (wf_nof ks x -> wf_nof ks y -> wf_nof ks (add x y)).
Proof. intros. split; [apply add_correct|apply add_wf]. Qed.
Lemma c08_neg : forall ks x n,
  lc_eq (den ks (neg x) n) (lc_scale (gopp g1) (den ks x n)) /\ (wf_nof ks x -> wf_nof ks (neg x)).
Proof. intros. split; [apply neg_correct|apply neg_wf]. Qed.
Lemma c08_sub : forall ks x y n,
  lc_eq (den ks (sub x y) n) (den ks x n ++ lc_scale (gopp g1) (den ks y n)).
Proof. intros. unfold sub. rewrite add_correct, neg_correct. reflexivity. Qed.

(** _eval_adjoint : <x e_n, e_m> = <e_n, x† e_m> for the inner product <e_n,e_n> = prod n_boson!
    on physical states (boson occupations >= 0, spin/fermion occupations in {0,1}) *)
Lemma c08_adjoint : forall ks x n m,
  wf_nof ks x -> phys ks n -> phys ks m ->
  geq (gmul (gconj (melt ks x n m)) (mu ks m)) (gmul (melt ks (adj x) m n) (mu ks n))
  /\ wf_nof ks (adj x).
Proof. intros. split; [apply adj_correct; auto|apply adj_wf; auto]. Qed.
Lemma c08_ex_adjoint_nonvacuous :
  phys ex_ks [4; -2; 1; 1; 1] /\ phys ex_ks [5; -2; 1; 0; 1] /\
  ~ geq (melt ex_ks ex_x [4; -2; 1; 1; 1] [5; -2; 1; 0; 1]) g0 .
Proof.
  split; [cbn; repeat split; intros; auto; try discriminate; lia|].
  split; [cbn; repeat split; intros; auto; try discriminate; lia|].
  intros H. vm_compute in H. destruct H as [H _]. discriminate H.
Qed.

(** __pow__ with a non-negative integer exponent: x**0 = 1 and x**(e+1) = x**e * x *)
Lemma c08_pow : forall ks x e n,
  sig_ok ks = true -> wf_nof ks x -> bok ks n -> 0 <= e ->
  (exists y0, pow ks x 0 = Ok y0 /\ lc_eq (den ks y0 n) [(g1, n)]) /\
  exists y y', pow ks x e = Ok y /\ pow ks x (e + 1) = Ok y' /\ wf_nof ks y /\ wf_nof ks y' /\
               lc_eq (den ks y' n) (lc_bind (den ks x n) (den ks y)).
Proof.
  intros. split.
  - destruct (pow_zero ks x n) as [y [H3 [H4 _]]]. exists y. auto.
  - apply pow_correct; auto.
Qed.

(** corollaries: associativity and distributivity of the product as operator identities *)
Lemma c08_assoc : forall ks x y z,
  sig_ok ks = true -> wf_nof ks x -> wf_nof ks y -> wf_nof ks z ->
  forall n, bok ks n -> lc_eq (den ks (mul ks (mul ks x y) z) n) (den ks (mul ks x (mul ks y z)) n).
Proof. exact mul_assoc_den. Qed.
Lemma c08_distr_l : forall ks x y z,
  sig_ok ks = true -> wf_nof ks x -> wf_nof ks y -> wf_nof ks z ->
  forall n, bok ks n -> lc_eq (den ks (mul ks x (add y z)) n) (den ks (add (mul ks x y) (mul ks x z)) n).
Proof. exact mul_add_distr_l_den. Qed.
Lemma c08_distr_r : forall ks x y z,
  sig_ok ks = true -> wf_nof ks x -> wf_nof ks y -> wf_nof ks z ->
  forall n, bok ks n -> lc_eq (den ks (mul ks (add x y) z) n) (den ks (add (mul ks x z) (mul ks y z)) n).
Proof. exact mul_add_distr_r_den. Qed.
