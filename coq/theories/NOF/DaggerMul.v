(** * The adjoint reverses products:  (x*y)† = y† * x†  as matrix elements between physical states *)
Require Import List ZArith QArith Lia Setoid Morphisms Bool.
Require Import PV.NOF.Gauss PV.NOF.Coeff PV.NOF.Fock PV.NOF.FockLemmas PV.NOF.LinComb PV.NOF.Model
  PV.NOF.MulOpProof PV.NOF.FermiSign PV.NOF.SigLemmas PV.NOF.NofProof PV.NOF.NofProof2.
Import ListNotations.
Local Open Scope Z_scope.

(** ** G is an integral domain *)
Lemma gmul_cancel_r a b c : ~ geq c g0 -> geq (gmul a c) (gmul b c) -> geq a b.
Proof.
  intros Hc H. pose proof (gmul_inv_r c Hc) as HI.
  transitivity (gmul (gmul a c) (ginv c)).
  - transitivity (gmul a (gmul c (ginv c))); [rewrite HI; ring|ring].
  - rewrite H. transitivity (gmul b (gmul c (ginv c))); [ring|rewrite HI; ring].
Qed.
Lemma gmul_nonzero a b : ~ geq a g0 -> ~ geq b g0 -> ~ geq (gmul a b) g0.
Proof.
  intros Ha Hb H. apply Ha. apply (gmul_cancel_r a g0 b Hb). rewrite H. ring.
Qed.
Lemma g1_nonzero : ~ geq g1 g0.
Proof. intros [H _]. cbn in H. discriminate H. Qed.

Lemma ffall_nonzero v k : (Z.of_nat k <= v) -> ~ geq (ffall v k) g0.
Proof.
  revert v; induction k; intros v H; cbn [ffall]; [apply g1_nonzero|].
  apply gmul_nonzero; [apply gz_nonzero; lia|apply IHk; lia].
Qed.
Lemma mu_nonzero ks : forall n, phys ks n -> ~ geq (mu ks n) g0.
Proof.
  induction ks as [|k ks IH]; intros n H; destruct n as [|v n]; cbn in H; try tauto; cbn [mu]; try apply g1_nonzero.
  destruct H as [H1 [H2 H3]]. apply gmul_nonzero; [|apply IH; auto].
  destruct k; cbn [isB]; try apply g1_nonzero. apply ffall_nonzero. specialize (H2 eq_refl). lia.
Qed.

(** ** physical states are an invariant subspace: a term maps a physical state to a physical
    state or to zero *)
Lemma ffall_zero v k : 0 <= v -> (v < Z.of_nat k) -> geq (ffall v k) g0.
Proof.
  revert v; induction k; intros v H0 H; [cbn in H; lia|]. cbn [ffall].
  destruct (Z.eq_dec v 0) as [E|E]; [subst; rewrite gz_0; ring|].
  rewrite IHk by lia. ring.
Qed.

Lemma term_phys_or_zero ks : forall p n, pow_ok ks p -> phys ks n ->
  phys ks (osub n p) \/ geq (ws ks p n) g0.
Proof.
  induction ks as [|k ks IH]; intros p n Hp Hn; destruct p as [|q p]; cbn in Hp; try tauto;
    destruct n as [|v n]; cbn in Hn; try tauto.
  destruct Hp as [Hp1 Hp2]. destruct Hn as [Hn1 [Hn2 Hn3]].
  {
    destruct (IH p n Hp2 Hn3) as [H|H]; [|right; cbn [ws]; rewrite H; ring].
    cbn [osub ws].
    destruct k.
    + (* boson *) specialize (Hn2 eq_refl).
      destruct (Z.le_gt_cases q v); [left; cbn [phys]; repeat split; auto; intros; try discriminate; lia|].
      right. cbn [wloc]. rewrite ffall_zero by lia. ring.
    + left. cbn [phys]. repeat split; auto; intros; discriminate.
    + specialize (Hp1 eq_refl). destruct (Hn1 eq_refl) as [E|E]; subst v.
      * destruct (Z.eq_dec q 1) as [E1|E1]; [subst; right; cbn; ring|].
        left. cbn [phys]. repeat split; auto; intros; try discriminate; lia.
      * destruct (Z.eq_dec q (-1)) as [E1|E1]; [subst; right; cbn; ring|].
        left. cbn [phys]. repeat split; auto; intros; try discriminate; lia.
    + specialize (Hp1 eq_refl). destruct (Hn1 eq_refl) as [E|E]; subst v.
      * destruct (Z.eq_dec q 1) as [E1|E1]; [subst; right; cbn; ring|].
        left. cbn [phys]. repeat split; auto; intros; try discriminate; lia.
      * destruct (Z.eq_dec q (-1)) as [E1|E1]; [subst; right; cbn; ring|].
        left. cbn [phys]. repeat split; auto; intros; try discriminate; lia.
  }
Qed.

Lemma melt_unphys ks x n k : wf_nof ks x -> phys ks n -> ~ phys ks k -> geq (melt ks x n k) g0.
Proof.
  intros [_ Hwf] Hn Hk. unfold melt. pose proof (bok_length _ _ (phys_bok _ _ Hn)) as Hl.
  induction x as [|[p f] x IH]; [reflexivity|].
  inversion Hwf; subst. rewrite den_cons.
  change (den_term ks (p, f) n :: den ks x n) with ([den_term ks (p, f) n] ++ den ks x n).
  rewrite coef_at_app, (IH H2).
  rewrite (coef_at_peq k _ _ (den_term_cf_eq ks (p, f) n (pow_ok_length _ _ H1) Hl)).
  unfold den_term_cf. cbn [fst snd coef_at].
  destruct (occ_eqb_spec (osub n p) k) as [E|E]; [|ring].
  destruct (term_phys_or_zero ks p n H1 Hn) as [H|H]; [subst; contradiction|].
  rewrite H. ring.
Qed.

Lemma phys_dec ks : forall n, {phys ks n} + {~ phys ks n}.
Proof.
  induction ks as [|k ks IH]; intros n; destruct n as [|v n]; cbn [phys]; try (left; exact I); try (right; tauto).
  destruct (IH n) as [H|H]; [|right; tauto].
  destruct k; cbn [isInf].
  - destruct (Z_le_gt_dec 0 v); [left; repeat split; auto; intros; discriminate|right; intros [_ [H2 _]]; specialize (H2 eq_refl); lia].
  - left; repeat split; auto; intros; discriminate.
  - destruct (Z.eq_dec v 0); [left; repeat split; auto; intros; discriminate|].
    destruct (Z.eq_dec v 1); [left; repeat split; auto; intros; discriminate|].
    right. intros [H1 _]. specialize (H1 eq_refl). lia.
  - destruct (Z.eq_dec v 0); [left; repeat split; auto; intros; discriminate|].
    destruct (Z.eq_dec v 1); [left; repeat split; auto; intros; discriminate|].
    right. intros [H1 _]. specialize (H1 eq_refl). lia.
Qed.

(** ** matrix elements of a product as a finite sum over intermediate states *)
Definition sumK (S : list (list Z)) (phi : list Z -> G) : G :=
  fold_right (fun s acc => gadd (phi s) acc) g0 S.

Lemma sumK_ext S phi psi : (forall s, In s S -> geq (phi s) (psi s)) -> geq (sumK S phi) (sumK S psi).
Proof.
  induction S as [|s S IH]; intros H; cbn [sumK fold_right]; [reflexivity|].
  fold (sumK S phi). fold (sumK S psi). rewrite (H s (or_introl eq_refl)), IH; [reflexivity|].
  intros; apply H; right; auto.
Qed.
Lemma sumK_scale S phi c : geq (sumK S (fun s => gmul (phi s) c)) (gmul (sumK S phi) c).
Proof.
  induction S as [|s S IH]; cbn [sumK fold_right]; [ring|].
  fold (sumK S (fun s => gmul (phi s) c)). fold (sumK S phi). rewrite IH. ring.
Qed.
Lemma sumK_conj S phi : geq (gconj (sumK S phi)) (sumK S (fun s => gconj (phi s))).
Proof.
  induction S as [|s S IH]; cbn [sumK fold_right]; [apply gconj_0|].
  fold (sumK S phi). fold (sumK S (fun s => gconj (phi s))). rewrite gconj_add, IH. reflexivity.
Qed.

Lemma melt_mul_sum ks x y n m S :
  sig_ok ks = true -> wf_nof ks x -> wf_nof ks y -> bok ks n ->
  NoDup S -> (forall cs, In cs (den ks y n) -> In (snd cs) S) ->
  geq (melt ks (mul ks x y) n m) (sumK S (fun k => gmul (melt ks y n k) (melt ks x k m))).
Proof.
  intros Hs Hx Hy Hb Hn Hin. unfold melt at 1.
  destruct (mul_correct ks x y n Hs Hx Hy Hb) as [HM _]. rewrite (HM m).
  rewrite (bind_sumS (den ks x) m S (den ks y n) Hn Hin).
  unfold sumS, sumK, melt. reflexivity.
Qed.

Definition targets (l : lincomb) : list (list Z) := map snd l.

Theorem dagger_mul_correct ks x y n m :
  sig_ok ks = true -> wf_nof ks x -> wf_nof ks y -> phys ks n -> phys ks m ->
  geq (melt ks (adj (mul ks x y)) n m) (melt ks (mul ks (adj y) (adj x)) n m).
Proof.
  intros Hs Hx Hy Hn Hm.
  pose proof (phys_bok _ _ Hn) as Hbn. pose proof (phys_bok _ _ Hm) as Hbm.
  destruct (mul_correct ks x y m Hs Hx Hy Hbm) as [_ Wxy].
  pose proof (adj_wf ks x Hx) as Wax. pose proof (adj_wf ks y Hy) as Way.
  apply (gmul_cancel_r _ _ (mu ks m) (mu_nonzero ks m Hm)).
  (* left-hand side through the adjoint theorem *)
  pose proof (adj_correct ks (mul ks x y) m n Wxy Hm Hn) as HL. rewrite <- HL. clear HL.
  set (S := nodup (list_eq_dec Z.eq_dec) (targets (den ks y m) ++ targets (den ks (adj x) n))).
  assert (HS : NoDup S) by apply NoDup_nodup.
  rewrite (melt_mul_sum ks x y m n S Hs Hx Hy Hbm HS)
    by (intros cs Hc; apply nodup_In, in_or_app; left; apply in_map; exact Hc).
  rewrite (melt_mul_sum ks (adj y) (adj x) n m S Hs Way Wax Hbn HS)
    by (intros cs Hc; apply nodup_In, in_or_app; right; apply in_map; exact Hc).
  rewrite sumK_conj, <- !sumK_scale. apply sumK_ext. intros k _.
  destruct (phys_dec ks k) as [Hk|Hk].
  - pose proof (adj_correct ks x k n Hx Hk Hn) as H1.
    pose proof (adj_correct ks y m k Hy Hm Hk) as H2.
    rewrite gconj_mul.
    transitivity (gmul (gconj (melt ks y m k)) (gmul (gconj (melt ks x k n)) (mu ks n))); [ring|].
    rewrite H1.
    transitivity (gmul (melt ks (adj x) n k) (gmul (gconj (melt ks y m k)) (mu ks k))); [ring|].
    rewrite H2. ring.
  - rewrite (melt_unphys ks y m k Hy Hm Hk), (melt_unphys ks (adj x) n k Wax Hn Hk).
    rewrite gconj_mul, gconj_0. ring.
Qed.
