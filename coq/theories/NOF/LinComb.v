(** * Formal linear combinations of basis states: basic algebra *)
Require Import List ZArith QArith Lia Setoid Morphisms Bool.
Require Import PV.NOF.Gauss PV.NOF.Coeff PV.NOF.Fock PV.NOF.FockLemmas.
Import ListNotations.

#[global] Instance lc_eq_Equivalence : Equivalence lc_eq.
Proof.
  split.
  - intros a m; reflexivity.
  - intros a b H m; symmetry; apply H.
  - intros a b c H1 H2 m; rewrite (H1 m); apply H2.
Qed.

Lemma coef_at_app m a b : geq (coef_at m (a ++ b)) (gadd (coef_at m a) (coef_at m b)).
Proof.
  induction a as [|[c s] a IH]; cbn [coef_at app].
  - ring.
  - rewrite IH. ring.
Qed.

Lemma coef_at_scale m c l : geq (coef_at m (lc_scale c l)) (gmul c (coef_at m l)).
Proof.
  induction l as [|[c' s] l IH]; cbn [coef_at lc_scale map pscale fst snd].
  - ring.
  - fold (lc_scale c l). rewrite IH. destruct (occ_eqb s m); ring.
Qed.

#[global] Instance app_lc_Proper : Proper (lc_eq ==> lc_eq ==> lc_eq) (@app (G * occ)).
Proof. intros a a' Ha b b' Hb m. rewrite !coef_at_app, (Ha m), (Hb m). reflexivity. Qed.

#[global] Instance lc_scale_Proper : Proper (geq ==> lc_eq ==> lc_eq) lc_scale.
Proof. intros c c' Hc a a' Ha m. rewrite !coef_at_scale, (Ha m), Hc. reflexivity. Qed.

Lemma lc_scale_app c a b : lc_scale c (a ++ b) = lc_scale c a ++ lc_scale c b.
Proof. apply map_app. Qed.
Lemma lc_scale_scale c d l : lc_eq (lc_scale c (lc_scale d l)) (lc_scale (gmul c d) l).
Proof. intros m. rewrite !coef_at_scale. ring. Qed.
Lemma lc_scale_1 l : lc_eq (lc_scale g1 l) l.
Proof. intros m. rewrite coef_at_scale. ring. Qed.
Lemma lc_scale_0 c l : geq c g0 -> lc_eq (lc_scale c l) [].
Proof. intros H m. rewrite coef_at_scale, H. cbn [coef_at]. ring. Qed.

Lemma coef_at_peq m a b : peq a b -> geq (coef_at m [a]) (coef_at m [b]).
Proof.
  destruct a as [c s], b as [c' s']. intros [H1 H2]; cbn in *; subst.
  destruct (occ_eqb s' m); rewrite ?H1; reflexivity.
Qed.

Lemma lc_eq_cons a b l l' : peq a b -> lc_eq l l' -> lc_eq (a :: l) (b :: l').
Proof.
  intros H1 H2. change (lc_eq ([a] ++ l) ([b] ++ l')).
  apply app_lc_Proper; auto. intros m. apply coef_at_peq; auto.
Qed.

Lemma lc_eq_map {A} (f g : A -> G * occ) l :
  (forall a, In a l -> peq (f a) (g a)) -> lc_eq (map f l) (map g l).
Proof.
  induction l; intros H; cbn [map]; [reflexivity|].
  apply lc_eq_cons; [apply H; left; auto|apply IHl; intros; apply H; right; auto].
Qed.

(** a weighted basis state with zero weight is the zero vector *)
Lemma lc_eq_zero_cons c s l : geq c g0 -> lc_eq ((c, s) :: l) l.
Proof. intros H m. cbn [coef_at]. destruct (occ_eqb s m); rewrite ?H; ring. Qed.

(** apply a (linear-combination valued) map to a weighted state *)
Definition lapp (F : occ -> lincomb) (cs : G * occ) : lincomb := lc_scale (fst cs) (F (snd cs)).

#[global] Instance lapp_Proper F : Proper (peq ==> lc_eq) (lapp F).
Proof. intros [c s] [c' s'] [H1 H2]; cbn in *; subst. unfold lapp; cbn [fst snd]. rewrite H1. reflexivity. Qed.

Lemma lapp_pscale F a cs : lc_eq (lapp F (pscale a cs)) (lc_scale a (lapp F cs)).
Proof. destruct cs; unfold lapp, pscale; cbn [fst snd]. rewrite lc_scale_scale. reflexivity. Qed.

Lemma lc_bind_single cs F : lc_bind [cs] F = lapp F cs ++ [].
Proof. reflexivity. Qed.
Lemma lc_bind_single' cs F : lc_eq (lc_bind [cs] F) (lapp F cs).
Proof. rewrite lc_bind_single, app_nil_r. reflexivity. Qed.
Lemma lc_bind_cons cs l F : lc_bind (cs :: l) F = lapp F cs ++ lc_bind l F.
Proof. reflexivity. Qed.
Lemma lc_bind_app a b F : lc_bind (a ++ b) F = lc_bind a F ++ lc_bind b F.
Proof. unfold lc_bind. apply flat_map_app. Qed.

Lemma lc_bind_ext l F F' : (forall s, lc_eq (F s) (F' s)) -> lc_eq (lc_bind l F) (lc_bind l F').
Proof.
  intros H. induction l as [|[c s] l IH]; [reflexivity|].
  rewrite !lc_bind_cons. apply app_lc_Proper; auto.
  unfold lapp; cbn [fst snd]. rewrite (H s). reflexivity.
Qed.

Lemma lc_bind_scale c l F : lc_eq (lc_bind (lc_scale c l) F) (lc_scale c (lc_bind l F)).
Proof.
  induction l as [|[c' s] l IH]; [reflexivity|].
  cbn [lc_scale map]. fold (lc_scale c l). rewrite !lc_bind_cons, lc_scale_app, IH.
  apply app_lc_Proper; [|reflexivity].
  unfold lapp, pscale; cbn [fst snd]. rewrite lc_scale_scale. reflexivity.
Qed.

(** bind respects equality of linear combinations in its first argument *)
Lemma coef_at_bind m l F :
  geq (coef_at m (lc_bind l F))
      (fold_right (fun cs acc => gadd (gmul (fst cs) (coef_at m (F (snd cs)))) acc) g0 l).
Proof.
  induction l as [|[c s] l IH]; [reflexivity|].
  rewrite lc_bind_cons, coef_at_app, IH. unfold lapp. rewrite coef_at_scale. reflexivity.
Qed.

Lemma lc_bind_bind l F H :
  lc_eq (lc_bind (lc_bind l F) H) (lc_bind l (fun s => lc_bind (F s) H)).
Proof.
  induction l as [|[c s] l IH]; [reflexivity|].
  rewrite !lc_bind_cons, lc_bind_app, IH.
  apply app_lc_Proper; [|reflexivity].
  unfold lapp; cbn [fst snd]. apply lc_bind_scale.
Qed.
