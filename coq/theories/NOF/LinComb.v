(** * Formal linear combinations of basis states: basic algebra *)
Require Import List ZArith QArith Lia Setoid Morphisms Bool.
Require Import PV.NOF.Gauss PV.NOF.Coeff PV.NOF.Fock PV.NOF.FockLemmas.
Import ListNotations.

#[global] Instance lc_eq_Equivalence : Equivalence lc_eq.
Proof.
  split.
  - intros a m; reflexivity.
  - intros a b H m; symmetry; apply H.
  - intros a b c H1 H2 m; rewrite (H1 m); apply H2.
Qed.

Lemma coef_at_app m a b : geq (coef_at m (a ++ b)) (gadd (coef_at m a) (coef_at m b)).
Proof.
  induction a as [|[c s] a IH]; cbn [coef_at app].
  - ring.
  - rewrite IH. ring.
Qed.

Lemma coef_at_scale m c l : geq (coef_at m (lc_scale c l)) (gmul c (coef_at m l)).
Proof.
  induction l as [|[c' s] l IH]; cbn [coef_at lc_scale map pscale fst snd].
  - ring.
  - fold (lc_scale c l). rewrite IH. destruct (occ_eqb s m); ring.
Qed.

#[global] Instance app_lc_Proper : Proper (lc_eq ==> lc_eq ==> lc_eq) (@app (G * occ)).
Proof. intros a a' Ha b b' Hb m. rewrite !coef_at_app, (Ha m), (Hb m). reflexivity. Qed.

#[global] Instance lc_scale_Proper : Proper (geq ==> lc_eq ==> lc_eq) lc_scale.
Proof. intros c c' Hc a a' Ha m. rewrite !coef_at_scale, (Ha m), Hc. reflexivity. Qed.

Lemma lc_scale_app c a b : lc_scale c (a ++ b) = lc_scale c a ++ lc_scale c b.
Proof. apply map_app. Qed.
Lemma lc_scale_scale c d l : lc_eq (lc_scale c (lc_scale d l)) (lc_scale (gmul c d) l).
Proof. intros m. rewrite !coef_at_scale. ring. Qed.
Lemma lc_scale_1 l : lc_eq (lc_scale g1 l) l.
Proof. intros m. rewrite coef_at_scale. ring. Qed.
Lemma lc_scale_0 c l : geq c g0 -> lc_eq (lc_scale c l) [].
Proof. intros H m. rewrite coef_at_scale, H. cbn [coef_at]. ring. Qed.

Lemma coef_at_peq m a b : peq a b -> geq (coef_at m [a]) (coef_at m [b]).
Proof.
  destruct a as [c s], b as [c' s']. intros [H1 H2]; cbn in *; subst.
  destruct (occ_eqb s' m); rewrite ?H1; reflexivity.
Qed.

Lemma lc_eq_cons a b l l' : peq a b -> lc_eq l l' -> lc_eq (a :: l) (b :: l').
Proof.
  intros H1 H2. change (lc_eq ([a] ++ l) ([b] ++ l')).
  apply app_lc_Proper; auto. intros m. apply coef_at_peq; auto.
Qed.

Lemma lc_eq_map {A} (f g : A -> G * occ) l :
  (forall a, In a l -> peq (f a) (g a)) -> lc_eq (map f l) (map g l).
Proof.
  induction l; intros H; cbn [map]; [reflexivity|].
  apply lc_eq_cons; [apply H; left; auto|apply IHl; intros; apply H; right; auto].
Qed.

(** a weighted basis state with zero weight is the zero vector *)
Lemma lc_eq_zero_cons c s l : geq c g0 -> lc_eq ((c, s) :: l) l.
Proof. intros H m. cbn [coef_at]. destruct (occ_eqb s m); rewrite ?H; ring. Qed.

(** apply a (linear-combination valued) map to a weighted state *)
Definition lapp (F : occ -> lincomb) (cs : G * occ) : lincomb := lc_scale (fst cs) (F (snd cs)).

#[global] Instance lapp_Proper F : Proper (peq ==> lc_eq) (lapp F).
Proof. intros [c s] [c' s'] [H1 H2]; cbn in *; subst. unfold lapp; cbn [fst snd]. rewrite H1. reflexivity. Qed.

Lemma lapp_pscale F a cs : lc_eq (lapp F (pscale a cs)) (lc_scale a (lapp F cs)).
Proof. destruct cs; unfold lapp, pscale; cbn [fst snd]. rewrite lc_scale_scale. reflexivity. Qed.

Lemma lc_bind_single cs F : lc_bind [cs] F = lapp F cs ++ [].
Proof. reflexivity. Qed.
Lemma lc_bind_single' cs F : lc_eq (lc_bind [cs] F) (lapp F cs).
Proof. rewrite lc_bind_single, app_nil_r. reflexivity. Qed.
Lemma lc_bind_cons cs l F : lc_bind (cs :: l) F = lapp F cs ++ lc_bind l F.
Proof. reflexivity. Qed.
Lemma lc_bind_app a b F : lc_bind (a ++ b) F = lc_bind a F ++ lc_bind b F.
Proof. unfold lc_bind. apply flat_map_app. Qed.

Lemma lc_bind_ext l F F' : (forall s, lc_eq (F s) (F' s)) -> lc_eq (lc_bind l F) (lc_bind l F').
Proof.
  intros H. induction l as [|[c s] l IH]; [reflexivity|].
  rewrite !lc_bind_cons. apply app_lc_Proper; auto.
  unfold lapp; cbn [fst snd]. rewrite (H s). reflexivity.
Qed.

Lemma lc_bind_scale c l F : lc_eq (lc_bind (lc_scale c l) F) (lc_scale c (lc_bind l F)).
Proof.
  induction l as [|[c' s] l IH]; [reflexivity|].
  cbn [lc_scale map]. fold (lc_scale c l). rewrite !lc_bind_cons, lc_scale_app, IH.
  apply app_lc_Proper; [|reflexivity].
  unfold lapp, pscale; cbn [fst snd]. rewrite lc_scale_scale. reflexivity.
Qed.

(** bind respects equality of linear combinations in its first argument *)
Lemma coef_at_bind m l F :
  geq (coef_at m (lc_bind l F))
      (fold_right (fun cs acc => gadd (gmul (fst cs) (coef_at m (F (snd cs)))) acc) g0 l).
Proof.
  induction l as [|[c s] l IH]; [reflexivity|].
  rewrite lc_bind_cons, coef_at_app, IH. unfold lapp. rewrite coef_at_scale. reflexivity.
Qed.

Lemma lc_bind_bind l F H :
  lc_eq (lc_bind (lc_bind l F) H) (lc_bind l (fun s => lc_bind (F s) H)).
Proof.
  induction l as [|[c s] l IH]; [reflexivity|].
  rewrite !lc_bind_cons, lc_bind_app, IH.
  apply app_lc_Proper; [|reflexivity].
  unfold lapp; cbn [fst snd]. apply lc_bind_scale.
Qed.

(** ** bind respects equality of linear combinations in its first argument *)
Section BindProper.
  Variable F : occ -> lincomb.
  Variable m : occ.
  Let phi (s : occ) : G := coef_at m (F s).
  Definition sumS (S : list occ) (l : lincomb) : G :=
    fold_right (fun s acc => gadd (gmul (coef_at s l) (phi s)) acc) g0 S.

  Lemma sumS_nil S : geq (sumS S []) g0.
  Proof. induction S; cbn [sumS fold_right coef_at]; [reflexivity|]. fold (sumS S []). rewrite IHS. ring. Qed.

  Lemma sumS_cons S c s0 l :
    geq (sumS S ((c, s0) :: l))
        (gadd (fold_right (fun s acc => gadd (gmul (if occ_eqb s0 s then c else g0) (phi s)) acc) g0 S) (sumS S l)).
  Proof.
    induction S as [|s S IH]; cbn [sumS fold_right coef_at]; [ring|].
    fold (sumS S ((c, s0) :: l)). fold (sumS S l). rewrite IH. ring.
  Qed.

  Lemma pick_one S c s0 : NoDup S -> In s0 S ->
    geq (fold_right (fun s acc => gadd (gmul (if occ_eqb s0 s then c else g0) (phi s)) acc) g0 S) (gmul c (phi s0)).
  Proof.
    induction S as [|s S IH]; intros Hn Hi; [destruct Hi|].
    inversion Hn; subst. cbn [fold_right].
    destruct (occ_eqb_spec s0 s) as [E|E].
    - subst s.
      assert (Hz : geq (fold_right (fun s acc => gadd (gmul (if occ_eqb s0 s then c else g0) (phi s)) acc) g0 S) g0).
      { clear IH Hn Hi. induction S as [|s S IH]; cbn [fold_right]; [reflexivity|].
        destruct (occ_eqb_spec s0 s); [subst; exfalso; apply H1; left; auto|].
        rewrite IH; [ring| |]; [intro; apply H1; right; auto|inversion H2; auto]. }
      rewrite Hz. ring.
    - destruct Hi as [Hi|Hi]; [congruence|]. rewrite IH by auto. ring.
  Qed.

  Lemma bind_sumS S l : NoDup S -> (forall cs, In cs l -> In (snd cs) S) ->
    geq (coef_at m (lc_bind l F)) (sumS S l).
  Proof.
    intros Hn. induction l as [|[c s0] l IH]; intros Hin.
    - rewrite sumS_nil. reflexivity.
    - rewrite lc_bind_cons, coef_at_app, IH by (intros; apply Hin; right; auto).
      rewrite sumS_cons, pick_one; auto; [|apply (Hin (c, s0)); left; auto].
      unfold lapp. rewrite coef_at_scale. reflexivity.
  Qed.

  Lemma sumS_ext S l l' : lc_eq l l' -> geq (sumS S l) (sumS S l').
  Proof.
    intros H. induction S as [|s S IH]; cbn [sumS fold_right]; [reflexivity|].
    fold (sumS S l). fold (sumS S l'). rewrite IH, (H s). reflexivity.
  Qed.
End BindProper.

Lemma lc_bind_Proper_l F l l' : lc_eq l l' -> lc_eq (lc_bind l F) (lc_bind l' F).
Proof.
  intros H m.
  set (S := nodup (list_eq_dec Z.eq_dec) (map snd l ++ map snd l')).
  assert (Hn : NoDup S) by apply NoDup_nodup.
  rewrite (bind_sumS F m S l Hn), (bind_sumS F m S l' Hn).
  - apply sumS_ext. exact H.
  - intros cs Hc. apply nodup_In. apply in_or_app. right. apply in_map. exact Hc.
  - intros cs Hc. apply nodup_In. apply in_or_app. left. apply in_map. exact Hc.
Qed.

#[global] Instance lc_bind_Proper : Proper (lc_eq ==> (pointwise_relation _ lc_eq) ==> lc_eq) lc_bind.
Proof.
  intros l l' Hl F F' HF. rewrite (lc_bind_Proper_l F l l' Hl). apply lc_bind_ext. exact HF.
Qed.

Lemma lc_bind_unit l : lc_eq (lc_bind l (fun s => [(g1, s)])) l.
Proof.
  induction l as [|[c s] l IH]; [reflexivity|].
  rewrite lc_bind_cons, IH. unfold lapp, lc_scale, pscale. cbn [map fst snd app].
  apply lc_eq_cons; [split; cbn [fst snd]; [ring|reflexivity]|reflexivity].
Qed.
Lemma lc_bind_nil_r l : lc_eq (lc_bind l (fun _ => [])) [].
Proof. induction l as [|[c s] l IH]; [reflexivity|]. rewrite lc_bind_cons, IH. reflexivity. Qed.
Lemma lc_bind_app_r l F H : lc_eq (lc_bind l (fun s => F s ++ H s)) (lc_bind l F ++ lc_bind l H).
Proof.
  induction l as [|[c s] l IH]; [reflexivity|].
  rewrite !lc_bind_cons, IH. unfold lapp. cbn [fst snd]. rewrite lc_scale_app.
  intros m. rewrite !coef_at_app. ring.
Qed.
Lemma lc_bind_scale_r l F c : lc_eq (lc_bind l (fun s => lc_scale c (F s))) (lc_scale c (lc_bind l F)).
Proof.
  induction l as [|[c' s] l IH]; [reflexivity|].
  rewrite !lc_bind_cons, IH, lc_scale_app. unfold lapp. cbn [fst snd].
  rewrite !lc_scale_scale. apply app_lc_Proper; [|reflexivity].
  apply lc_scale_Proper; [ring|reflexivity].
Qed.
