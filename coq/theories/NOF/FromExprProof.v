(** * from_expr denotes the expression; as_expr denotes the form; round trip *)
Require Import List ZArith QArith Lia Setoid Morphisms Bool.
Require Import PV.NOF.Gauss PV.NOF.Coeff PV.NOF.Fock PV.NOF.FockLemmas PV.NOF.LinComb PV.NOF.Model
  PV.NOF.MulOpProof PV.NOF.FermiSign PV.NOF.SigLemmas PV.NOF.NofProof PV.NOF.NofProof2 PV.NOF.FromExpr.
Import ListNotations.
Local Open Scope Z_scope.

(** ** a generator power stored as one term *)
Lemma parF_zeros ks (l : sig) : parF ks (zeros l) = false.
Proof. revert ks; induction l; intros ks; destruct ks; cbn [zeros map parF]; auto. rewrite andb_false_r, xorb_false_l. apply IHl. Qed.
Lemma ws_zeros ks : forall n, geq (ws ks (zeros ks) n) g1.
Proof.
  induction ks as [|k ks IH]; intros n; destruct n as [|v n]; cbn [zeros map ws]; try reflexivity.
  fold (zeros ks). rewrite parF_zeros, andb_false_r, wloc_zero, IH. cbn [gsgn]. ring.
Qed.
Lemma parF_unit ks : forall i q, (i < length ks)%nat -> parF ks (upd (zeros ks) i q) = isF (kget ks i) && Z.odd q.
Proof.
  induction ks as [|k ks IH]; intros i q Hi; [cbn in Hi; lia|]. cbn [length] in Hi.
  destruct i; cbn [zeros map upd parF]; fold (zeros ks); unfold kget; cbn [nth].
  - rewrite parF_zeros. apply xorb_false_r.
  - rewrite andb_false_r, xorb_false_l. apply IH. lia.
Qed.

Lemma ws_unit ks : forall i q n, (i < length ks)%nat -> length n = length ks ->
  geq (ws ks (unit_powers ks i q) n) (gmul (gsgn (jw ks i n && Z.odd q)) (wloc (kget ks i) q (oget n i))).
Proof.
  unfold unit_powers.
  induction ks as [|k ks IH]; intros i q n Hi Hn; [cbn in Hi; lia|].
  destruct n as [|v n]; [discriminate|]. injection Hn as Hn. cbn [length] in Hi.
  destruct i as [|i]; cbn [zeros map upd ws]; fold (zeros ks).
  - rewrite parF_zeros, andb_false_r, ws_zeros. unfold jw, kget, oget. cbn [nth firstn occF].
    rewrite andb_false_r. cbn [andb gsgn]. ring.
  - rewrite wloc_zero, (IH i q n) by (auto; lia). rewrite parF_unit by lia.
    rewrite jw_cons_S. unfold kget, oget. cbn [nth]. replace (v - Z.max 0 0) with v by lia.
    fold (kget ks i). unfold jw.
    destruct (isF (kget ks i)), (isF k), (v =? 1), (Z.odd q), (occF (firstn i ks) (firstn i n));
      cbn [andb xorb gsgn]; ring.
Qed.

Lemma osub_zeros (l : sig) : forall n, osub n (zeros l) = n.
Proof. induction l; intros n; destruct n; cbn [zeros map osub]; auto. fold (zeros l). rewrite IHl. f_equal. lia. Qed.
Lemma zeros_length (l : sig) : length (zeros l) = length l.
Proof. unfold zeros. apply map_length. Qed.

Lemma den_gen_term ks i q n : (i < length ks)%nat -> length n = length ks ->
  lc_eq (den ks (gen_term ks i q) n) [opact ks i q n].
Proof.
  intros Hi Hn. unfold gen_term, den. cbn [map].
  apply lc_eq_cons; [|reflexivity].
  rewrite den_term_cf_eq by (cbn [fst]; unfold unit_powers; rewrite ?upd_length, ?zeros_length; auto).
  rewrite opact_cf by auto. unfold den_term_cf. cbn [fst snd cval].
  split; cbn [fst snd].
  - rewrite ws_unit by auto. ring.
  - unfold unit_powers. rewrite osub_upd_r by (rewrite zeros_length; auto).
    rewrite osub_zeros. reflexivity.
Qed.

Lemma gen_term_wf ks i q : (isInf (kget ks i) = false -> Z.abs q <= 1) -> wf_nof ks (gen_term ks i q).
Proof.
  intros H. split; cbn; [constructor; [intros []|constructor]|].
  constructor; [|constructor]. unfold wf_term, unit_powers. cbn [fst].
  apply pow_ok_upd; auto. apply pow_ok_zeros.
Qed.

(** ** powers of one generator *)
Lemma opact_one ks i dag n : opact ks i (opsign dag) n = papp (step ks i dag) (g1, n).
Proof. destruct dag; reflexivity. Qed.

Lemma opact_pow ks i dag : forall k n,
  lc_eq (lc_pow (fun s => [opact ks i (opsign dag) s]) k n) [opact ks i (opsign dag * Z.of_nat k) n].
Proof.
  induction k; intros n.
  - cbn [lc_pow]. replace (opsign dag * Z.of_nat 0) with 0 by lia. reflexivity.
  - cbn [lc_pow]. rewrite lc_bind_single'.
    unfold lapp.
    assert (E : lc_eq (lc_pow (fun s => [opact ks i (opsign dag) s]) k (snd (opact ks i (opsign dag) n)))
                      [opact ks i (opsign dag * Z.of_nat k) (snd (opact ks i (opsign dag) n))]) by apply IHk.
    rewrite E. unfold lc_scale. cbn [map].
    apply lc_eq_cons; [|reflexivity].
    change (pscale (fst (opact ks i (opsign dag) n)) (opact ks i (opsign dag * Z.of_nat k) (snd (opact ks i (opsign dag) n))))
      with (papp (opact ks i (opsign dag * Z.of_nat k)) (opact ks i (opsign dag) n)).
    rewrite papp_opact. rewrite opact_one. unfold opact.
    assert (E1 : (opsign dag * Z.of_nat k <? 0) = dag \/ k = O).
    { destruct k; [right; auto|left]. destruct dag; cbn [opsign]; [apply Z.ltb_lt|apply Z.ltb_ge]; lia. }
    assert (E2 : (opsign dag * Z.of_nat (S k) <? 0) = dag).
    { destruct dag; cbn [opsign]; [apply Z.ltb_lt|apply Z.ltb_ge]; lia. }
    assert (E3 : Z.abs_nat (opsign dag * Z.of_nat (S k)) = S (Z.abs_nat (opsign dag * Z.of_nat k))).
    { destruct dag; cbn [opsign]; lia. }
    rewrite E2, E3. cbn [iter_step].
    destruct E1 as [E1|E1]; [rewrite E1; reflexivity|].
    subst k. replace (Z.abs_nat (opsign dag * Z.of_nat 0)) with O by (destruct dag; cbn; lia).
    reflexivity.
Qed.

(** ** integer powers of a form *)
Lemma bok_zeros ks : bok ks (zeros ks).
Proof. induction ks; cbn; auto. Qed.

Lemma lc_pow_congr ks F F' :
  (forall s, bok ks s -> lc_eq (F s) (F' s)) -> (forall s, bok ks s -> Forall (vok ks) (F s)) ->
  forall k n, bok ks n -> lc_eq (lc_pow F k n) (lc_pow F' k n).
Proof.
  intros H Hv. induction k; intros n Hb; cbn [lc_pow]; [reflexivity|].
  rewrite (lc_bind_ext_vok ks (F n) _ (lc_pow F' k)); [|apply Hv; auto|intros; apply IHk; auto].
  apply lc_bind_Proper_l. apply H; auto.
Qed.

Lemma pow_den ks x : sig_ok ks = true -> wf_nof ks x -> forall k,
  exists y, pow ks x (Z.of_nat k) = Ok y /\ wf_nof ks y /\
            forall n, bok ks n -> lc_eq (den ks y n) (lc_pow (den ks x) k n).
Proof.
  intros Hs Hx. induction k.
  - exists (one_nof ks). split; [reflexivity|]. split; [apply one_wf|]. intros n _. apply den_one.
  - destruct IHk as [y [Hy [Wy Dy]]].
    destruct (pow_correct ks x (Z.of_nat k) (zeros ks) Hs Hx (bok_zeros ks) ltac:(lia)) as [y0 [y' [H0 [H1 [_ [Wy' _]]]]]].
    exists y'. replace (Z.of_nat (S k)) with (Z.of_nat k + 1) by lia.
    split; [exact H1|]. split; [exact Wy'|].
    intros n Hb.
    destruct (pow_correct ks x (Z.of_nat k) n Hs Hx Hb ltac:(lia)) as [y1 [y1' [G0 [G1 [_ [_ HD]]]]]].
    assert (y1' = y') by congruence. assert (y1 = y) by congruence. subst y1' y1.
    rewrite HD. cbn [lc_pow].
    apply (lc_bind_ext_vok ks); [apply den_vok; auto|]. intros s Hsb. apply Dy; auto.
Qed.

(** ** from_expr denotes the expression *)
Theorem from_expr_f_correct ks : sig_ok ks = true -> forall e flip x,
  from_expr_f ks flip e = Ok x ->
  wf_nof ks x /\ forall n, bok ks n -> lc_eq (den ks x n) (eden_f ks flip e n).
Proof.
  intros Hs. induction e as [i dag|i|g|a IHa b IHb|a IHa b IHb|a IHa k|a IHa]; intros flip x H.
  - (* generator *)
    cbn [from_expr_f] in H. destruct (Nat.ltb_spec i (length ks)) as [Hi|Hi]; [|discriminate].
    injection H as H. subst x. split.
    + apply gen_term_wf. intros _. destruct (xorb dag flip); cbn; lia.
    + intros n Hb. cbn [eden_f]. apply den_gen_term; auto. apply bok_length; auto.
  - injection H as H. subst x. split.
    + split; cbn; [constructor; [intros []|constructor]|]. constructor; [apply pow_ok_zeros|constructor].
    + intros n Hb. cbn [eden_f]. apply (NofProof2.den_one ks n) || idtac.
      unfold den, den_term. cbn [map fst snd]. rewrite apass_zeros, cpass_zeros.
      apply lc_eq_cons; [|reflexivity]. split; unfold papp, fact, pscale; cbn [fst snd cval]; [ring|reflexivity].
  - injection H as H. subst x. split.
    + split; cbn; [constructor; [intros []|constructor]|]. constructor; [apply pow_ok_zeros|constructor].
    + intros n Hb. cbn [eden_f].
      unfold den, den_term. cbn [map fst snd]. rewrite apass_zeros, cpass_zeros.
      apply lc_eq_cons; [|reflexivity]. split; unfold papp, fact, pscale; cbn [fst snd cval]; [ring|reflexivity].
  - (* sum *)
    cbn [from_expr_f] in H.
    destruct (from_expr_f ks flip a) as [xa|] eqn:Ea; [|discriminate].
    destruct (from_expr_f ks flip b) as [xb|] eqn:Eb; [|discriminate].
    cbn [rbind] in H. injection H as H. subst x.
    destruct (IHa flip xa Ea) as [Wa Da]. destruct (IHb flip xb Eb) as [Wb Db].
    split; [apply add_wf; auto; apply add_wf; auto; apply wf_nil|].
    intros n Hb. cbn [eden_f]. rewrite !add_correct. cbn [den map app]. rewrite Da, Db by auto. reflexivity.
  - (* product *)
    cbn [from_expr_f] in H.
    destruct (from_expr_f ks flip a) as [xa|] eqn:Ea; [|discriminate].
    destruct (from_expr_f ks flip b) as [xb|] eqn:Eb; [|discriminate].
    cbn [rbind] in H. injection H as H. subst x.
    destruct (IHa flip xa Ea) as [Wa Da]. destruct (IHb flip xb Eb) as [Wb Db].
    destruct flip.
    + split; [apply (mul_correct ks xb xa (zeros ks)); auto; apply bok_zeros|].
      intros n Hb. cbn [eden_f]. destruct (mul_correct ks xb xa n Hs Wb Wa Hb) as [HM _]. rewrite HM.
      rewrite (lc_bind_ext_vok ks _ _ (eden_f ks true b)); [|apply den_vok; auto|intros; apply Db; auto].
      apply lc_bind_Proper_l. apply Da; auto.
    + split; [apply (mul_correct ks xa xb (zeros ks)); auto; apply bok_zeros|].
      intros n Hb. cbn [eden_f]. destruct (mul_correct ks xa xb n Hs Wa Wb Hb) as [HM _]. rewrite HM.
      rewrite (lc_bind_ext_vok ks _ _ (eden_f ks false a)); [|apply den_vok; auto|intros; apply Da; auto].
      apply lc_bind_Proper_l. apply Db; auto.
  - (* power *)
    assert (Hgen : forall xa, from_expr_f ks flip a = Ok xa -> pow ks xa (Z.of_nat k) = Ok x ->
              wf_nof ks x /\ forall n, bok ks n -> lc_eq (den ks x n) (eden_f ks flip (EPow a k) n)).
    { intros xa Ea Hp. destruct (IHa flip xa Ea) as [Wa Da].
      destruct (pow_den ks xa Hs Wa k) as [y [Hy [Wy Dy]]].
      assert (y = x) by congruence. subst y. split; auto.
      intros n Hb. cbn [eden_f]. rewrite Dy by auto.
      apply (lc_pow_congr ks); auto. intros; apply den_vok; auto. }
    destruct a as [i dag| | | | | |];
      try (cbn [from_expr_f] in H;
           match type of H with rbind ?r _ = _ => destruct r as [xa|] eqn:Ea; [|discriminate] end;
           cbn [rbind] in H; apply (Hgen xa Ea H)).
    destruct k as [|k].
    + cbn [from_expr_f] in H.
      destruct (Nat.ltb_spec i (length ks)) as [Hi|Hi]; [|discriminate]. cbn [rbind] in H.
      assert (E : from_expr_f ks flip (EOp i dag) = Ok (gen_term ks i (opsign (xorb dag flip)))).
      { cbn [from_expr_f]. destruct (Nat.ltb_spec i (length ks)); [reflexivity|lia]. }
      apply (Hgen _ E H).
    + cbn [from_expr_f] in H. destruct (Nat.ltb_spec i (length ks)) as [Hi|Hi]; [|discriminate].
      set (sg := opsign (xorb dag flip)) in *.
      assert (HE : forall n, bok ks n ->
                 lc_eq (eden_f ks flip (EPow (EOp i dag) (S k)) n) [opact ks i (sg * Z.of_nat (S k)) n]).
      { intros n Hb. cbn [eden_f]. apply opact_pow. }
      destruct (isInf (kget ks i)) eqn:Ek; cbn [negb andb] in H.
      * injection H as H. subst x. split; [apply gen_term_wf; intros HH; congruence|].
        intros n Hb. rewrite HE by auto. apply den_gen_term; auto. apply bok_length; auto.
      * destruct (Nat.ltb_spec 0 k) as [Hk|Hk]; injection H as H; subst x.
        -- split; [apply wf_nil|]. intros n Hb. rewrite HE by auto. cbn [den map].
           symmetry. pose proof (bok_length _ _ Hb) as Hn.
           pose proof (opact_cf ks i (sg * Z.of_nat (S k)) n Hi Hn) as HO.
           destruct (opact ks i (sg * Z.of_nat (S k)) n) as [c s]. destruct HO as [HO _]. cbn [fst] in HO.
           apply lc_eq_zero_cons. rewrite HO. rewrite (wloc_bin_eq _ Ek). unfold wloc.
           assert (Hq : Z.abs (sg * Z.of_nat (S k)) >= 2) by (subst sg; destruct (xorb dag flip); cbn [opsign]; lia).
           destruct (Z.eqb_spec (sg * Z.of_nat (S k)) 0), (Z.eqb_spec (sg * Z.of_nat (S k)) 1),
                    (Z.eqb_spec (sg * Z.of_nat (S k)) (-1)); try lia. ring.
        -- assert (k = O) by lia. subst k.
           split; [apply gen_term_wf; intros _; subst sg; destruct (xorb dag flip); cbn; lia|].
           intros n Hb. rewrite HE by auto. apply den_gen_term; auto. apply bok_length; auto.
  - (* Dagger *)
    cbn [from_expr_f] in H. destruct (IHa (negb flip) x H) as [W D]. split; auto.
Qed.

(** ** as_expr denotes the form *)
Lemma eden_gen_pow ks i dag k n :
  lc_eq (eden ks (EPow (EOp i dag) k) n) [opact ks i (opsign dag * Z.of_nat k) n].
Proof.
  unfold eden. cbn [eden_f]. rewrite xorb_false_r. apply opact_pow.
Qed.

Lemma lc_single_scale c cs : lc_scale c [cs] = [pscale c cs].
Proof. reflexivity. Qed.

Lemma eden_coeff ks f n : cpoly f -> lc_eq (eden ks (coeff_expr f) n) [(cval f n, n)].
Proof.
  unfold eden. revert n. induction f; intros n Hp; cbn [coeff_expr eden_f cval cpoly] in *; try reflexivity; try tauto.
  - destruct Hp as [H1 H2]. rewrite IHf1, IHf2 by auto. intros m. cbn [app coef_at].
    destruct (occ_eqb n m); ring.
  - destruct Hp as [H1 H2]. rewrite (lc_bind_Proper_l _ _ _ (IHf2 n H2)). rewrite lc_bind_single'.
    unfold lapp. cbn [fst snd]. rewrite IHf1 by auto. rewrite lc_single_scale.
    apply lc_eq_cons; [|reflexivity]. split; unfold pscale; cbn [fst snd]; [ring|reflexivity].
  - rewrite (lc_bind_Proper_l _ _ _ (IHf n Hp)). rewrite lc_bind_single'. unfold lapp. cbn [fst snd].
    rewrite lc_single_scale. apply lc_eq_cons; [|reflexivity].
    split; unfold pscale; cbn [fst snd]; [ring|reflexivity].
Qed.

Lemma eden_gen_pow' ks i dag k n :
  lc_eq (eden_f ks false (EPow (EOp i dag) k) n) [opact ks i (opsign dag * Z.of_nat k) n].
Proof. apply eden_gen_pow. Qed.

Lemma eden_ann ks acc : forall p i n,
  lc_eq (eden_f ks false (ann_expr p i acc) n) (lapp (eden_f ks false acc) (apass_aux ks p i (g1, n))).
Proof.
  induction p as [|q r IH]; intros i n; cbn [ann_expr apass_aux].
  - unfold lapp. cbn [fst snd]. rewrite lc_scale_1. reflexivity.
  - destruct (Z.ltb_spec 0 q) as [Hq|Hq]; [|apply IH].
    change (eden_f ks false (EMul (ann_expr r (S i) acc) (EPow (EOp i false) (Z.to_nat q))) n)
      with (lc_bind (eden_f ks false (EPow (EOp i false) (Z.to_nat q)) n) (eden_f ks false (ann_expr r (S i) acc))).
    rewrite (lc_bind_Proper_l _ _ _ (eden_gen_pow' ks i false (Z.to_nat q) n)).
    replace (opsign false * Z.of_nat (Z.to_nat q)) with q by (cbn [opsign]; lia).
    rewrite lc_bind_single'.
    assert (HP : peq (papp (opact ks i q) (g1, n)) (opact ks i q n)) by (unfold papp; cbn [fst snd]; apply pscale_1).
    rewrite HP. destruct (opact ks i q n) as [c1 n1]. unfold lapp at 1. cbn [fst snd].
    rewrite IH. rewrite <- lapp_pscale. apply lapp_Proper.
    rewrite <- apass_aux_pscale. apply apass_aux_Proper. split; unfold pscale; cbn [fst snd]; [ring|reflexivity].
Qed.

Lemma eden_cre ks inner : forall p i n,
  lc_eq (eden_f ks false (cre_expr p i inner) n)
        (lc_bind (eden_f ks false inner n) (fun s => [cpass_aux ks p i (g1, s)])).
Proof.
  induction p as [|q r IH]; intros i n; cbn [cre_expr cpass_aux].
  - symmetry. apply lc_bind_unit.
  - destruct (Z.ltb_spec q 0) as [Hq|Hq]; [|apply IH].
    change (eden_f ks false (EMul (EPow (EOp i true) (Z.to_nat (- q))) (cre_expr r (S i) inner)) n)
      with (lc_bind (eden_f ks false (cre_expr r (S i) inner) n) (eden_f ks false (EPow (EOp i true) (Z.to_nat (- q))))).
    rewrite (lc_bind_Proper_l _ _ _ (IH (S i) n)). rewrite lc_bind_bind.
    apply lc_bind_ext. intros s. rewrite lc_bind_single'.
    unfold lapp. rewrite eden_gen_pow'.
    replace (opsign true * Z.of_nat (Z.to_nat (- q))) with q by (cbn [opsign]; lia).
    rewrite lc_single_scale. reflexivity.
Qed.

Lemma eden_term ks t n : cpoly (snd t) -> lc_eq (eden ks (term_expr t) n) [den_term ks t n].
Proof.
  intros Hp. destruct t as [p f]. unfold eden, term_expr, den_term. cbn [fst snd] in *.
  rewrite eden_cre. rewrite (lc_bind_Proper_l _ _ _ (eden_ann ks (coeff_expr f) p 0%nat n)).
  destruct (apass_aux ks p 0 (g1, n)) as [cA nA]. unfold lapp. cbn [fst snd].
  pose proof (eden_coeff ks f nA Hp) as HC. unfold eden in HC. rewrite HC. rewrite lc_single_scale. rewrite lc_bind_single'.
  unfold lapp, pscale. cbn [fst snd]. rewrite lc_single_scale.
  apply lc_eq_cons; [|reflexivity].
  rewrite <- cpass_aux_pscale. apply cpass_aux_Proper.
  split; unfold papp, fact, pscale; cbn [fst snd]; [ring|reflexivity].
Qed.

Definition cpoly_nof (x : nof) : Prop := Forall (fun t : term => cpoly (snd t)) x.

Theorem as_expr_correct ks x n : cpoly_nof x -> lc_eq (eden ks (as_expr x) n) (den ks x n).
Proof.
  intros Hp. unfold as_expr.
  assert (H : forall acc, lc_eq (eden ks (fold_left (fun acc t => EAdd acc (term_expr t)) x acc) n)
                                (eden ks acc n ++ den ks x n)).
  { induction x as [|t x IH]; intros acc; cbn [fold_left].
    - cbn [den map]. rewrite app_nil_r. reflexivity.
    - inversion Hp; subst. rewrite (IH H2). unfold eden. cbn [eden_f].
      pose proof (eden_term ks t n H1) as HT. unfold eden in HT. rewrite HT.
      rewrite den_cons, <- app_assoc. reflexivity. }
  rewrite H. unfold eden. cbn [eden_f]. apply lc_eq_zero_cons. reflexivity.
Qed.

(** ** from_expr never raises on the output of as_expr *)
Fixpoint eok (ks : sig) (e : expr) : Prop :=
  match e with
  | EOp i _ => (i < length ks)%nat
  | ENum _ | EConst _ => True
  | EAdd a b | EMul a b => eok ks a /\ eok ks b
  | EPow a _ => eok ks a
  | EDag a => eok ks a
  end.

Lemma pow_total ks x k : exists y, pow ks x (Z.of_nat k) = Ok y.
Proof.
  unfold pow. destruct (Z.eqb_spec (Z.of_nat k) 0); [eexists; reflexivity|].
  destruct (Z.ltb_spec 0 (Z.of_nat k)); [eexists; reflexivity|lia].
Qed.

Lemma from_expr_total ks : forall e flip, eok ks e -> exists x, from_expr_f ks flip e = Ok x.
Proof.
  induction e as [i dag|i|g|a IHa b IHb|a IHa b IHb|a IHa k|a IHa]; intros flip H; cbn [eok] in H.
  - cbn [from_expr_f]. destruct (Nat.ltb_spec i (length ks)); [eexists; reflexivity|lia].
  - eexists; reflexivity.
  - eexists; reflexivity.
  - destruct H as [H1 H2]. destruct (IHa flip H1) as [xa Ea]. destruct (IHb flip H2) as [xb Eb].
    cbn [from_expr_f]. rewrite Ea, Eb. eexists; reflexivity.
  - destruct H as [H1 H2]. destruct (IHa flip H1) as [xa Ea]. destruct (IHb flip H2) as [xb Eb].
    cbn [from_expr_f]. rewrite Ea, Eb. eexists; reflexivity.
  - destruct (IHa flip H) as [xa Ea].
    destruct a as [i dag| | | | | |];
      try (match goal with |- exists x, from_expr_f ks flip (EPow ?A k) = _ =>
             change (from_expr_f ks flip (EPow A k)) with (rbind (from_expr_f ks flip A) (fun x => pow ks x (Z.of_nat k))) end;
           rewrite Ea; cbn [rbind]; apply pow_total).
    destruct k as [|k].
    + change (from_expr_f ks flip (EPow (EOp i dag) 0)) with (rbind (from_expr_f ks flip (EOp i dag)) (fun x => pow ks x (Z.of_nat 0))).
      rewrite Ea. cbn [rbind]. apply (pow_total ks xa 0).
    + cbn [from_expr_f eok] in *. destruct (Nat.ltb_spec i (length ks)); [|lia].
      destruct (negb (isInf (kget ks i)) && (0 <? k)%nat); eexists; reflexivity.
  - cbn [from_expr_f]. apply IHa. exact H.
Qed.

Lemma eok_coeff ks f : eok ks (coeff_expr f).
Proof. induction f; cbn; auto. Qed.
Lemma eok_ann ks acc : eok ks acc -> forall p i, (i + length p <= length ks)%nat -> eok ks (ann_expr p i acc).
Proof.
  intros Ha. induction p as [|q r IH]; intros i Hi; cbn [ann_expr]; auto. cbn [length] in Hi.
  destruct (0 <? q); [cbn [eok]; split; [apply IH; lia|lia]|apply IH; lia].
Qed.
Lemma eok_cre ks inner : eok ks inner -> forall p i, (i + length p <= length ks)%nat -> eok ks (cre_expr p i inner).
Proof.
  intros Ha. induction p as [|q r IH]; intros i Hi; cbn [cre_expr]; auto. cbn [length] in Hi.
  destruct (q <? 0); [cbn [eok]; split; [lia|apply IH; lia]|apply IH; lia].
Qed.
Lemma eok_as_expr ks x : wf_nof ks x -> eok ks (as_expr x).
Proof.
  intros [_ Hwf]. unfold as_expr.
  assert (H : forall acc, eok ks acc -> eok ks (fold_left (fun acc t => EAdd acc (term_expr t)) x acc)).
  { induction x as [|t x IH]; intros acc Ha; cbn [fold_left]; auto.
    inversion Hwf; subst. apply IH; auto. cbn [eok]. split; auto.
    pose proof (pow_ok_length _ _ H1) as Hl. unfold term_expr.
    apply eok_cre; [|lia]. apply eok_ann; [apply eok_coeff|lia]. }
  apply H. exact I.
Qed.

(** C08_roundtrip *)
Theorem from_expr_correct ks e x : sig_ok ks = true -> from_expr ks e = Ok x ->
  wf_nof ks x /\ forall n, bok ks n -> lc_eq (den ks x n) (eden ks e n).
Proof. intros Hs H. apply (from_expr_f_correct ks Hs e false x H). Qed.

Theorem roundtrip_correct ks x : sig_ok ks = true -> wf_nof ks x -> cpoly_nof x ->
  exists x', from_expr ks (as_expr x) = Ok x' /\ wf_nof ks x' /\
             forall n, bok ks n -> lc_eq (den ks x' n) (den ks x n).
Proof.
  intros Hs Hw Hp. destruct (from_expr_total ks (as_expr x) false (eok_as_expr ks x Hw)) as [x' E].
  exists x'. split; [exact E|]. destruct (from_expr_correct ks _ _ Hs E) as [W D]. split; auto.
  intros n Hb. rewrite D by auto. apply as_expr_correct. exact Hp.
Qed.
