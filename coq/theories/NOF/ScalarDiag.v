(** * [solve_scalar] with [diagonal=True]: only the terms with lexicographically negative
      powers are solved, the rest is minus the adjoint of the result. *)
Require Import List ZArith QArith Lia Setoid Morphisms Bool.
Require Import PV.NOF.Gauss PV.NOF.Coeff PV.NOF.Fock PV.NOF.FockLemmas PV.NOF.LinComb PV.NOF.Model
  PV.NOF.MulOpProof PV.NOF.FermiSign PV.NOF.SigLemmas PV.NOF.NofProof PV.NOF.NofProof2 PV.NOF.SolveScalar
  PV.NOF.ScalarProof PV.NOF.Mask.
Import ListNotations.
Local Open Scope Z_scope.

Definition yneg (y : nof) : nof := filter (fun t : term => lex_neg (fst t)) y.

Lemma solve_terms_diag ks h y : solve_terms ks h h true y = solve_terms ks h h false (yneg y).
Proof.
  unfold solve_terms, yneg. f_equal.
  induction y as [|[p c] y IH]; [reflexivity|]. cbn [flat_map filter fst]. unfold solve_term at 1.
  destruct (lex_neg p) eqn:E; cbn [negb andb flat_map app].
  - unfold solve_term at 2. rewrite E. cbn [negb andb app]. rewrite IH. reflexivity.
  - exact IH.
Qed.

Lemma yneg_wf ks y : wf_nof ks y -> wf_nof ks (yneg y).
Proof. apply (sel_wf (fun p => lex_neg p)). Qed.

(** adjoint of a term whose coefficient was changed in a value-preserving way *)
Lemma adj_term_coeff ks p f f' n :
  length p = length ks -> length n = length ks ->
  (~ geq (ws ks (map Z.opp p) n) g0 -> geq (cval f' (omid n (map Z.opp p))) (cval f (omid n (map Z.opp p)))) ->
  peq (den_term ks (map Z.opp p, cconj f') n) (den_term ks (map Z.opp p, cconj f) n).
Proof.
  intros Hp Hn H.
  rewrite !den_term_cf_eq by (cbn [fst]; rewrite ?map_length; auto). unfold den_term_cf. cbn [fst snd].
  split; cbn [fst snd]; [|reflexivity].
  destruct (geq_dec (ws ks (map Z.opp p) n) g0) as [Hz|Hnz]; [rewrite Hz; ring|].
  rewrite !cval_cconj, (H Hnz). reflexivity.
Qed.

Lemma oget_map_opp (p : list Z) j : oget (map Z.opp p) j = - oget p j.
Proof.
  unfold oget. revert j; induction p; destruct j; cbn; auto.
Qed.

Lemma cancel_val ks p f n :
  sig_ok ks = true -> length p = length ks -> length n = length ks ->
  ~ geq (ws ks (map Z.opp p) n) g0 ->
  geq (cval (cancel_coeff ks (p, f)) (omid n (map Z.opp p))) (cval f (omid n (map Z.opp p))).
Proof.
  intros Hs Hp Hn Hnz. unfold cancel_coeff. cbn [fst snd].
  rewrite (cval_csubst _ f (omid n (map Z.opp p)) (omid n (map Z.opp p))); [reflexivity|].
  intros j. destruct (Nat.leb_spec (n_inf ks) j) as [Hj|Hj]; cbn [andb]; [|reflexivity].
  destruct (Z.eqb_spec (oget p j) 0) as [E|E]; cbn [negb]; [reflexivity|].
  cbn [cval].
  destruct (Nat.lt_ge_cases j (length ks)) as [Hjl|Hjl].
  - destruct (sig_ok_index ks j Hs Hjl) as [Hinf _].
    destruct (Nat.ltb_spec j (n_inf ks)); [lia|].
    rewrite (omid_binary_zero ks (map Z.opp p) n j); auto; [reflexivity|rewrite map_length; auto|].
    rewrite oget_map_opp. lia.
  - exfalso. apply E. unfold oget. apply nth_overflow. lia.
Qed.

Theorem adj_cancel_correct ks x n :
  sig_ok ks = true -> wf_nof ks x -> length n = length ks ->
  lc_eq (den ks (adj (cancel_binary ks x)) n) (den ks (adj x) n).
Proof.
  intros Hs [Hnd Hwf] Hn. unfold cancel_binary.
  destruct (length ks - n_inf ks =? 0)%nat; [reflexivity|].
  set (h := fun t : term => if csyn0 (cancel_coeff ks t) then None else Some (fst t, cancel_coeff ks t)).
  match goal with |- context [dict_of (flat_map ?F x)] =>
    replace (flat_map F x) with (flat_map (fun t => match h t with Some t' => [t'] | None => [] end) x)
      by (apply flat_map_ext; intros t; unfold h, cancel_coeff; cbv zeta; destruct (csyn0 _); reflexivity)
  end.
  assert (Hnd' : NoDup (map fst (flat_map (fun t => match h t with Some t' => [t'] | None => [] end) x))).
  { apply (NoDup_flat_map_opt h (fun p => p)); auto.
    intros t t' Ht. unfold h in Ht. destruct (csyn0 _); [discriminate|]. injection Ht as Ht. subst. reflexivity. }
  rewrite dict_of_nodup by exact Hnd'.
  unfold adj. rewrite !den_map.
  rewrite flat_map_concat_map, concat_map, map_map, <- flat_map_concat_map.
  apply lc_eq_flat_map. intros [p f] Ht.
  rewrite Forall_forall in Hwf. pose proof (pow_ok_length _ _ (Hwf _ Ht)) as Hp. cbn [fst] in Hp.
  unfold h. cbn [fst snd].
  destruct (csyn0 (cancel_coeff ks (p, f))) eqn:Ez; cbn [map fst snd].
  - symmetry.
    assert (HT : peq (den_term ks (map Z.opp p, cconj f) n) (den_term ks (map Z.opp p, cconj (CConst g0)) n)).
    { apply adj_term_coeff; auto. intros Hnz. rewrite <- (cancel_val ks p f n Hs Hp Hn Hnz).
      rewrite (csyn0_sound _ _ Ez). reflexivity. }
    rewrite (den_term_cf_eq ks (map Z.opp p, cconj (CConst g0)) n) in HT by (cbn [fst]; rewrite ?map_length; auto).
    unfold den_term_cf in HT. cbn [fst snd cconj cval] in HT.
    destruct (den_term ks (map Z.opp p, cconj f) n) as [c0 s0]. destruct HT as [HT1 _]. cbn [fst] in HT1.
    apply lc_eq_zero_cons. rewrite HT1. rewrite gconj_0. ring.
  - apply lc_eq_cons; [|reflexivity]. apply adj_term_coeff; auto. apply cancel_val; auto.
Qed.

Theorem adj_linearize_correct ks x n :
  sig_ok ks = true -> wf_nof ks x -> bok ks n ->
  lc_eq (den ks (adj (linearize ks x)) n) (den ks (adj x) n).
Proof.
  intros Hs [Hnd Hwf] Hb. pose proof (bok_length _ _ Hb) as Hn. unfold linearize.
  destruct (length (seq (n_inf ks) (length ks - n_inf ks)) =? 0)%nat; [reflexivity|].
  rewrite dict_of_nodup by (rewrite map_fst_same; exact Hnd).
  unfold adj. rewrite !den_map, map_map. apply lc_eq_map. intros [p f] Ht. cbn [fst snd].
  rewrite Forall_forall in Hwf. pose proof (pow_ok_length _ _ (Hwf _ Ht)) as Hp. cbn [fst] in Hp.
  apply adj_term_coeff; auto. intros Hnz.
  apply cval_lin_fold. intros j Hj. rewrite in_seq in Hj.
  assert (Hjl : (j < length ks)%nat) by lia.
  split; [rewrite omid_length; lia|].
  apply (omid_binary_ok ks (map Z.opp p) n j); auto; [rewrite map_length; auto|].
  destruct (sig_ok_index ks j Hs Hjl) as [Hinf _].
  destruct (Nat.ltb_spec j (n_inf ks)); [lia|]. auto.
Qed.

(** ** commutator with a number-conserving H *)
Definition comm (ks : sig) (h : cexpr) (z : nof) (n : list Z) : lincomb :=
  lc_bind (den ks z n) (den ks (hnof ks h)) ++ lc_scale (gopp g1) (lc_bind (den ks (hnof ks h) n) (den ks z)).

Lemma comm_simpl ks h z n :
  lc_eq (comm ks h z n)
        (lc_bind (den ks z n) (den ks (hnof ks h)) ++ lc_scale (gopp (cval h n)) (den ks z n)).
Proof.
  unfold comm. rewrite (lc_bind_Proper_l _ _ _ (den_hnof ks h n)).
  rewrite lc_bind_single'. unfold lapp. cbn [fst snd]. rewrite lc_scale_scale.
  apply app_lc_Proper; [reflexivity|]. apply lc_scale_Proper; [ring|reflexivity].
Qed.

Lemma comm_congr ks h z z' n : lc_eq (den ks z n) (den ks z' n) -> lc_eq (comm ks h z n) (comm ks h z' n).
Proof.
  intros H. rewrite !comm_simpl. rewrite (lc_bind_Proper_l _ _ _ H), H. reflexivity.
Qed.

Lemma comm_sub ks h a b n :
  lc_eq (comm ks h (sub a b) n) (comm ks h a n ++ lc_scale (gopp g1) (comm ks h b n)).
Proof.
  rewrite !comm_simpl.
  assert (HS : lc_eq (den ks (sub a b) n) (den ks a n ++ lc_scale (gopp g1) (den ks b n))).
  { unfold sub. rewrite add_correct, neg_correct. reflexivity. }
  rewrite (lc_bind_Proper_l _ _ _ HS), HS. rewrite lc_bind_app, lc_bind_scale.
  intros m. rewrite !coef_at_app, !coef_at_scale, !coef_at_app, !coef_at_scale. ring.
Qed.

(** the two shifts are exchanged by negating the powers *)
Lemma csubst_ext s1 s2 e : (forall j, s1 j = s2 j) -> csubst s1 e = csubst s2 e.
Proof. intros H. induction e; cbn [csubst]; try rewrite IHe1, IHe2; try rewrite IHe; auto. Qed.

Lemma shift_cre_opp ks p h : shift_cre ks p h = shift_ann ks (map Z.opp p) h.
Proof.
  unfold shift_cre, shift_ann. apply csubst_ext. intros j. cbv zeta. rewrite oget_map_opp.
  destruct (Z.ltb_spec (oget p j) 0), (Z.ltb_spec 0 (- oget p j)); try lia; reflexivity.
Qed.
Lemma shift_ann_opp ks p h : shift_ann ks p h = shift_cre ks (map Z.opp p) h.
Proof.
  unfold shift_cre, shift_ann. apply csubst_ext. intros j. cbv zeta. rewrite oget_map_opp.
  destruct (Z.ltb_spec 0 (oget p j)), (Z.ltb_spec (- oget p j) 0); try lia; try reflexivity.
  rewrite Z.opp_involutive. reflexivity.
Qed.

Definition creal (h : cexpr) : Prop := forall M, geq (gconj (cval h M)) (cval h M).
Definition denom_ok_adj (ks : sig) (h : cexpr) (y : nof) (n : list Z) : Prop :=
  forall t, In t y -> geq (ws ks (map Z.opp (fst t)) n) g0
                      \/ ~ geq (cval (denominator ks h h (fst t)) (omid n (map Z.opp (fst t)))) g0.

Lemma gconj_ginv_real d : geq (gconj d) d -> geq (gconj (ginv d)) (ginv d).
Proof. intros H. rewrite gconj_inv, H. reflexivity. Qed.

Lemma solve_coeff_adj_ok ks h p c n :
  creal h -> length p = length ks -> length n = length ks ->
  ~ geq (ws ks (map Z.opp p) n) g0 ->
  ~ geq (cval (denominator ks h h p) (omid n (map Z.opp p))) g0 ->
  geq (gmul (cval (cconj (CMul (CMul (CConst (if lex_neg p then gopp g1 else g1)) (CInv (denominator ks h h p))) c))
                  (omid n (map Z.opp p)))
            (gsub (cval h (osub n (map Z.opp p))) (cval h n)))
      (cval (CNeg (cconj c)) (omid n (map Z.opp p))).
Proof.
  intros Hr Hp Hn Hnz Hd. unfold creal in Hr.
  assert (Hp' : length (map Z.opp p) = length ks) by (rewrite map_length; auto).
  set (M := omid n (map Z.opp p)) in *.
  rewrite cval_cconj. cbn [cval]. rewrite cval_cconj.
  pose proof (shift_cre_ok ks (map Z.opp p) n h Hp' Hn Hnz) as H1.
  pose proof (shift_ann_ok ks (map Z.opp p) n h Hp' Hn Hnz) as H2.
  rewrite <- shift_ann_opp in H1. rewrite <- shift_cre_opp in H2. fold M in H1, H2.
  set (D := cval (denominator ks h h p) M) in *.
  pose proof (gmul_inv_r D Hd) as HI.
  assert (HDr : geq (gconj D) D).
  { subst D. unfold denominator. destruct (lex_neg p); cbn [cval];
    rewrite gconj_add, gconj_opp, H1, H2, !Hr; reflexivity. }
  rewrite !gconj_mul, (gconj_ginv_real D HDr).
  unfold denominator in D. destruct (lex_neg p); cbn [cval] in D.
  - assert (E : geq (gsub (cval h (osub n (map Z.opp p))) (cval h n)) D).
    { subst D. rewrite H1, H2. ring. }
    rewrite E. assert (Es : geq (gconj (gopp g1)) (gopp g1)) by (rewrite gconj_opp, gconj_1; reflexivity).
    rewrite Es.
    transitivity (gmul (gmul D (ginv D)) (gopp (gconj (cval c M)))); [ring|]. rewrite HI. ring.
  - assert (E : geq (gsub (cval h (osub n (map Z.opp p))) (cval h n)) (gopp D)).
    { subst D. rewrite H1, H2. ring. }
    rewrite E. rewrite gconj_1.
    transitivity (gmul (gmul D (ginv D)) (gopp (gconj (cval c M)))); [ring|]. rewrite HI. ring.
Qed.

(** C16_scalar, diagonal elements ([diagonal=True], H_ii = H_jj = H real):
    [H, X] = Y_neg + Y_neg†, where Y_neg collects the terms of Y with lexicographically negative
    powers (for a Hermitian Y this is Y minus its zero-shift term, which the code leaves out) *)
Theorem solve_scalar_diag_correct ks y h n :
  sig_ok ks = true -> wf_nof ks y -> bok ks n -> creal h ->
  denom_ok ks h h (yneg y) n -> denom_ok_adj ks h (yneg y) n ->
  let x := solve_scalar ks y h h true in
  lc_eq (comm ks h x n) (den ks (yneg y) n ++ den ks (adj (yneg y)) n).
Proof.
  intros Hs Hwf Hb Hr Hd1 Hd2 x. pose proof (bok_length _ _ Hb) as Hn.
  pose proof (yneg_wf ks y Hwf) as Wy.
  unfold solve_scalar in x. subst x. rewrite solve_terms_diag.
  set (x1 := solve_terms ks h h false (yneg y)).
  set (x0 := linearize ks (cancel_binary ks x1)).
  rewrite comm_sub.
  (* first part: the off-diagonal theorem on Y_neg *)
  pose proof (solve_scalar_offdiag_correct ks (yneg y) h h n Hs Wy Hb Hd1) as [HC _].
  cbv zeta in HC. unfold solve_scalar in HC. fold x1 x0 in HC. fold (comm ks h x0 n) in HC.
  rewrite HC.
  apply app_lc_Proper; [reflexivity|].
  (* second part *)
  assert (Hx1 : x1 = map (fun t : term => (fst t, CMul (CMul (CConst (if lex_neg (fst t) then gopp g1 else g1))
                                       (CInv (denominator ks h h (fst t)))) (snd t))) (yneg y))
    by (apply solve_terms_offdiag; apply Wy).
  assert (W1 : wf_nof ks x1).
  { destruct Wy as [Wy1 Wy2]. rewrite Hx1. split; [rewrite map_fst_same; auto|].
    rewrite Forall_forall in *. intros t' Ht'. rewrite in_map_iff in Ht'.
    destruct Ht' as [t [E Ht]]. subst t'. apply (Wy2 _ Ht). }
  destruct (cancel_correct ks x1 n Hs W1 Hn) as [_ W2].
  assert (HA : lc_eq (den ks (adj x0) n) (den ks (adj x1) n)).
  { unfold x0. rewrite adj_linearize_correct by auto. apply adj_cancel_correct; auto. }
  rewrite (comm_congr ks h _ _ n HA).
  rewrite comm_simpl. rewrite Hx1. unfold adj. rewrite !map_map. cbn [fst snd].
  rewrite !den_map. unfold den.
  assert (HT : lc_eq
    (lc_bind (map (fun t : term => den_term ks (map Z.opp (fst t),
                 cconj (CMul (CMul (CConst (if lex_neg (fst t) then gopp g1 else g1)) (CInv (denominator ks h h (fst t)))) (snd t))) n) (yneg y))
             (den ks (hnof ks h))
     ++ lc_scale (gopp (cval h n))
          (map (fun t : term => den_term ks (map Z.opp (fst t),
                 cconj (CMul (CMul (CConst (if lex_neg (fst t) then gopp g1 else g1)) (CInv (denominator ks h h (fst t)))) (snd t))) n) (yneg y)))
    (map (fun t : term => den_term ks (map Z.opp (fst t), CNeg (cconj (snd t))) n) (yneg y))).
  { apply comm_sum. intros [p c] Ht. cbn [fst snd].
    destruct Wy as [_ Wy2]. rewrite Forall_forall in Wy2.
    pose proof (pow_ok_length _ _ (Wy2 _ Ht)) as Hp. cbn [fst] in Hp.
    assert (Hp' : length (map Z.opp p) = length ks) by (rewrite map_length; auto).
    pose proof (comm_term ks (map Z.opp p) (CNeg (cconj c))
       (cconj (CMul (CMul (CConst (if lex_neg p then gopp g1 else g1)) (CInv (denominator ks h h p))) c)) h h n Hp' Hn) as HT.
    rewrite <- HT.
    - apply app_lc_Proper; [reflexivity|].
      unfold lapp. cbn [fst snd]. rewrite lc_scale_scale.
      apply lc_scale_Proper; [ring|reflexivity].
    - intros Hnz. destruct (Hd2 _ Ht) as [Hz|Hd]; [contradiction|]. cbn [fst] in Hd.
      apply solve_coeff_adj_ok; auto. }
  rewrite HT.
  (* -(Y_neg†) *)
  unfold lc_scale. rewrite map_map. apply lc_eq_map. intros [p c] _. cbn [fst snd].
  symmetry. apply den_term_scale. intros M. cbn [cval]. ring.
Qed.
