(** * Correctness of [_multiply_op] and [_multiply_expr] on single terms *)
Require Import List ZArith QArith Lia Setoid Morphisms Bool.
Require Import PV.NOF.Gauss PV.NOF.Coeff PV.NOF.Fock PV.NOF.FockLemmas PV.NOF.LinComb PV.NOF.Model.
Import ListNotations.
Local Open Scope Z_scope.

(** ** closed form of one operator power at an arbitrary mode *)
Lemma jw_cons_S k ks i v n :
  jw (k :: ks) (S i) (v :: n) = isF (kget ks i) && xorb (isF k && (v =? 1)) (occF (firstn i ks) (firstn i n)).
Proof. reflexivity. Qed.

Lemma opact_cf ks : forall i q n, (i < length ks)%nat -> length n = length ks ->
  peq (opact ks i q n)
      (gmul (gsgn (jw ks i n && Z.odd q)) (wloc (kget ks i) q (oget n i)), upd n i (oget n i - q)).
Proof.
  induction ks as [|k ks IH]; intros i q n Hi Hn; [cbn in Hi; lia|].
  destruct n as [|v n]; [discriminate|]. injection Hn as Hn.
  destruct i as [|i].
  - rewrite opact_cons_O. unfold jw, kget, oget. cbn [nth firstn occF upd].
    rewrite andb_false_r. cbn [andb gsgn]. split; cbn [fst snd]; [ring|reflexivity].
  - rewrite opact_cons_S. rewrite IH by (cbn in Hi; auto; lia).
    rewrite jw_cons_S. unfold kget, oget. cbn [nth upd].
    split; unfold pscale, lift; cbn [fst snd]; [|reflexivity].
    fold (kget ks i). unfold jw.
    destruct (isF (kget ks i)), (isF k), (v =? 1), (Z.odd q), (occF (firstn i ks) (firstn i n));
      cbn [andb xorb gsgn]; ring.
Qed.

(** ** factoring the weight of a non-fermionic mode out of [ws] *)
Lemma ws_factor_nonF ks : forall i p n,
  (i < length ks)%nat -> length p = length ks -> length n = length ks ->
  isF (kget ks i) = false ->
  geq (ws ks p n) (gmul (wloc (kget ks i) (oget p i) (oget n i)) (ws ks (upd p i 0) n)).
Proof.
  induction ks as [|k ks IH]; intros i p n Hi Hp Hn HF; [cbn in Hi; lia|].
  destruct p as [|q p]; [discriminate|]. destruct n as [|v n]; [discriminate|].
  injection Hp as Hp. injection Hn as Hn. cbn [length] in Hi.
  destruct i as [|i].
  - unfold kget, oget in *. cbn [nth upd ws] in *. rewrite HF. cbn [andb gsgn].
    rewrite wloc_zero. ring.
  - unfold kget, oget in *. cbn [nth upd ws] in *.
    rewrite (IH i p n) by (auto; lia).
    assert (HP : parF ks (upd p i 0) = parF ks p).
    { clear -HF Hp. revert i p Hp HF. induction ks as [|k' ks IHk]; intros i p Hp HF; destruct p; try discriminate; [reflexivity|].
      destruct i; cbn [upd parF nth] in *.
      - rewrite HF. reflexivity.
      - rewrite (IHk i p) by (auto; cbn in Hp; lia). reflexivity. }
    rewrite HP. unfold kget, oget. ring.
Qed.

Lemma ws_indep_nonF ks : forall i p n v',
  (i < length ks)%nat -> length p = length ks -> length n = length ks ->
  isF (kget ks i) = false -> oget p i = 0 ->
  geq (ws ks p (upd n i v')) (ws ks p n).
Proof.
  induction ks as [|k ks IH]; intros i p n v' Hi Hp Hn HF H0; [cbn in Hi; lia|].
  destruct p as [|q p]; [discriminate|]. destruct n as [|v n]; [discriminate|].
  injection Hp as Hp. injection Hn as Hn. cbn [length] in Hi.
  destruct i as [|i].
  - unfold kget, oget in *. cbn [nth upd ws] in *. subst q. rewrite HF. cbn [andb gsgn].
    rewrite !wloc_zero. reflexivity.
  - unfold kget, oget in *. cbn [nth upd ws] in *.
    rewrite (IH i p n v') by (auto; lia). reflexivity.
Qed.

Lemma oget_upd_same' (p : list Z) i v : (i < length p)%nat -> oget (upd p i v) i = v.
Proof. apply oget_upd_same. Qed.

Lemma upd_upd (p : list Z) i a b : upd (upd p i a) i b = upd p i b.
Proof. revert i; induction p; destruct i; cbn; auto. f_equal; auto. Qed.

Lemma osub_upd : forall n p i v q, length p = length n ->
  osub (upd n i v) (upd p i q) = upd (osub n p) i (v - q).
Proof.
  induction n as [|x n IH]; intros p i v q H; destruct p as [|y p]; try discriminate; [reflexivity|].
  destruct i; cbn [upd osub]; [reflexivity|]. f_equal. apply IH. cbn in H; lia.
Qed.
Lemma osub_upd_l : forall n p i v, length p = length n ->
  osub (upd n i v) p = upd (osub n p) i (v - oget p i).
Proof.
  induction n as [|x n IH]; intros p i v H; destruct p as [|y p]; try discriminate; [reflexivity|].
  destruct i; cbn [upd osub]; [reflexivity|]. unfold oget; cbn [nth]. f_equal. apply IH. cbn in H; lia.
Qed.
Lemma osub_upd_r : forall n p i q, length p = length n ->
  osub n (upd p i q) = upd (osub n p) i (oget n i - q).
Proof.
  induction n as [|x n IH]; intros p i q H; destruct p as [|y p]; try discriminate; [reflexivity|].
  destruct i; cbn [upd osub]; [reflexivity|]. unfold oget; cbn [nth]. f_equal. apply IH. cbn in H; lia.
Qed.
Lemma omid_upd_l : forall n p i v, length p = length n ->
  omid (upd n i v) p = upd (omid n p) i (v - Z.max (oget p i) 0).
Proof.
  induction n as [|x n IH]; intros p i v H; destruct p as [|y p]; try discriminate; [reflexivity|].
  destruct i; cbn [upd omid]; [reflexivity|]. unfold oget; cbn [nth]. f_equal. apply IH. cbn in H; lia.
Qed.
Lemma omid_upd_r : forall n p i q, length p = length n ->
  omid n (upd p i q) = upd (omid n p) i (oget n i - Z.max q 0).
Proof.
  induction n as [|x n IH]; intros p i q H; destruct p as [|y p]; try discriminate; [reflexivity|].
  destruct i; cbn [upd omid]; [reflexivity|]. unfold oget; cbn [nth]. f_equal. apply IH. cbn in H; lia.
Qed.
Lemma omid_length n p : length (omid n p) = length n.
Proof. revert p; induction n; destruct p; cbn; auto. Qed.
Lemma osub_length n p : length (osub n p) = length n.
Proof. revert p; induction n; destruct p; cbn; auto. Qed.
Lemma oget_omid : forall n p i, length p = length n -> (i < length n)%nat ->
  oget (omid n p) i = oget n i - Z.max (oget p i) 0.
Proof.
  induction n as [|x n IH]; intros p i H Hi; destruct p as [|y p]; try discriminate; [cbn in Hi; lia|].
  destruct i; unfold oget; cbn [omid nth]; [reflexivity|]. apply IH; cbn in *; lia.
Qed.

(** ** falling factorials *)
Lemma ffall_add v a b : geq (ffall v (a + b)) (gmul (ffall v a) (ffall (v - Z.of_nat a) b)).
Proof.
  revert v; induction a; intros v.
  - cbn [Nat.add ffall Z.of_nat]. replace (v - 0) with v by lia. ring.
  - cbn [Nat.add ffall]. rewrite IHa. replace (v - 1 - Z.of_nat a) with (v - Z.of_nat (S a)) by lia. ring.
Qed.
Lemma ffall_snoc v k : geq (ffall v (S k)) (gmul (ffall v k) (gz (v - Z.of_nat k))).
Proof.
  replace (S k) with (k + 1)%nat by lia. rewrite ffall_add. cbn [ffall]. ring.
Qed.

Lemma cval_cprod_map (h : nat -> cexpr) l M :
  geq (cval (cprod (map h l)) M) (fold_right (fun t acc => gmul (cval (h t) M) acc) g1 l).
Proof. induction l; cbn [map cprod cval fold_right]; [reflexivity|]. rewrite IHl. reflexivity. Qed.

Lemma cval_cfalling i k M : geq (cval (cfalling i k) M) (ffall (oget M i) k).
Proof.
  unfold cfalling. rewrite cval_cprod_map.
  assert (H : forall s (x : Z), geq (fold_right (fun t acc => gmul (cval (CAdd (CNum i) (CConst (gz (- Z.of_nat t)))) M) acc) g1 (seq s k))
                    (ffall (oget M i - Z.of_nat s) k)).
  { induction k; intros s x; cbn [seq fold_right ffall]; [reflexivity|].
    rewrite (IHk (S s) x). cbn [cval].
    replace (oget M i - Z.of_nat s - 1) with (oget M i - Z.of_nat (S s)) by lia.
    rewrite gz_sub, gz_opp. ring. }
  rewrite (H O 0). cbn [Z.of_nat]. replace (oget M i - 0) with (oget M i) by lia. reflexivity.
Qed.

Lemma cval_crising i k M : geq (cval (crising i k) M) (ffall (oget M i + Z.of_nat k) k).
Proof.
  unfold crising. rewrite cval_cprod_map.
  assert (H : forall s, geq (fold_right (fun t acc => gmul (cval (CAdd (CNum i) (CConst (gz (Z.of_nat t)))) M) acc) g1 (seq s k))
                    (ffall (oget M i + Z.of_nat s + Z.of_nat k - 1) k)).
  { induction k; intros s; cbn [seq fold_right]; [reflexivity|].
    rewrite (IHk (S s)). rewrite ffall_snoc. cbn [cval].
    replace (oget M i + Z.of_nat (S s) + Z.of_nat k - 1) with (oget M i + Z.of_nat s + Z.of_nat (S k) - 1) by lia.
    replace (oget M i + Z.of_nat s + Z.of_nat (S k) - 1 - Z.of_nat k) with (oget M i + Z.of_nat s) by lia.
    rewrite gz_add. ring. }
  rewrite (H 1%nat). replace (oget M i + Z.of_nat 1 + Z.of_nat k - 1) with (oget M i + Z.of_nat k) by lia.
  reflexivity.
Qed.

(** ** boson / ladder branch *)
Lemma cval_cshift_upd i d f M a :
  (i < length M)%nat ->
  geq (cval (cshift i d f) (upd M i a)) (cval f (upd M i (a + d))).
Proof.
  intros Hi. rewrite cval_cshift by (rewrite upd_length; auto).
  rewrite oget_upd_same by auto. rewrite upd_upd. reflexivity.
Qed.

Lemma upd_eq_val (M : list Z) i a b : a = b -> upd M i a = upd M i b.
Proof. intros; subst; reflexivity. Qed.

Lemma inf_core_ladder i q o v f M :
  (i < length M)%nat ->
  geq (cval (snd (mulop_inf false i q (upd M i o, f))) (upd M i (v - Z.max (o + q) 0)))
      (cval f (upd M i (v - q - Z.max o 0))).
Proof.
  intros Hi. unfold mulop_inf. rewrite oget_upd_same by auto.
  destruct (Z.ltb_spec 0 q).
  - cbn [snd]. rewrite cval_cshift_upd by auto.
    rewrite (upd_eq_val M i _ (v - q - Z.max o 0)) by lia. reflexivity.
  - destruct (Z.leb_spec (o + q) 0); cbn [snd].
    + rewrite cval_cshift_upd by auto.
      rewrite (upd_eq_val M i _ (v - q - Z.max o 0)) by lia. reflexivity.
    + rewrite (upd_eq_val M i _ (v - q - Z.max o 0)) by lia. reflexivity.
Qed.

Lemma inf_core_boson i q o v f M :
  (i < length M)%nat ->
  geq (gmul (ffall v (Z.to_nat (o + q)))
            (cval (snd (mulop_inf true i q (upd M i o, f))) (upd M i (v - Z.max (o + q) 0))))
      (gmul (gmul (ffall v (Z.to_nat q)) (ffall (v - q) (Z.to_nat o)))
            (cval f (upd M i (v - q - Z.max o 0)))).
Proof.
  intros Hi. unfold mulop_inf. rewrite oget_upd_same by auto.
  destruct (Z.ltb_spec 0 q) as [Hq|Hq].
  - cbn [snd cval]. rewrite cval_cshift_upd by auto. rewrite cval_cfalling.
    rewrite oget_upd_same by auto.
    rewrite (upd_eq_val M i _ (v - q - Z.max o 0)) by lia.
    destruct (Z.le_gt_cases 0 o) as [Ho|Ho].
    + replace (Z.min q (Z.max (- o) 0)) with 0 by lia. cbn [Z.to_nat ffall].
      replace (Z.to_nat (o + q)) with (Z.to_nat q + Z.to_nat o)%nat by lia.
      rewrite ffall_add. replace (v - Z.of_nat (Z.to_nat q)) with (v - q) by lia. ring.
    + destruct (Z.le_gt_cases 0 (o + q)) as [Hn|Hn].
      * replace (Z.min q (Z.max (- o) 0)) with (- o) by lia.
        replace (Z.to_nat o) with O by lia. cbn [ffall].
        replace (Z.to_nat q) with (Z.to_nat (o + q) + Z.to_nat (- o))%nat by lia.
        rewrite ffall_add.
        replace (v - Z.of_nat (Z.to_nat (o + q))) with (v - Z.max (o + q) 0) by lia. ring.
      * replace (Z.min q (Z.max (- o) 0)) with q by lia.
        replace (Z.to_nat o) with O by lia. replace (Z.to_nat (o + q)) with O by lia. cbn [ffall].
        replace (v - Z.max (o + q) 0) with v by lia. ring.
  - replace (Z.to_nat q) with O by lia. cbn [ffall].
    destruct (Z.ltb_spec 0 (o + q)) as [Hn|Hn].
    + (* new > 0 *)
      destruct (Z.leb_spec (o + q) 0); [lia|]. cbn [snd cval].
      replace (Z.min (- q) (Z.max o 0)) with (- q) by lia.
      rewrite cval_cshift_upd by auto. rewrite cval_crising. rewrite oget_upd_same by auto.
      rewrite (upd_eq_val M i (v - Z.max (o + q) 0) (v - q - Z.max o 0)) by lia.
      replace (Z.to_nat o) with (Z.to_nat (- q) + Z.to_nat (o + q))%nat by lia.
      rewrite ffall_add.
      replace (v - Z.max (o + q) 0 + (o + q) + Z.of_nat (Z.to_nat (- q))) with (v - q) by lia.
      replace (v - q - Z.of_nat (Z.to_nat (- q))) with v by lia. ring.
    + destruct (Z.leb_spec (o + q) 0); [|lia]. cbn [snd].
      rewrite cval_cshift_upd by auto. cbn [cval]. rewrite cval_crising. rewrite oget_upd_same by auto.
      replace (Z.to_nat (o + q)) with O by lia. cbn [ffall].
      rewrite (upd_eq_val M i _ (v - q - Z.max o 0)) by lia.
      replace (Z.min (- q) (Z.max o 0)) with (Z.max o 0) by lia.
      replace (Z.to_nat (Z.max o 0)) with (Z.to_nat o) by lia.
      replace (v - Z.max (o + q) 0 + (- q - Z.max o 0) + Z.of_nat (Z.to_nat o)) with (v - q) by lia.
      ring.
Qed.

Lemma mulop_inf_fst isbos i q p f : fst (mulop_inf isbos i q (p, f)) = upd p i (oget p i + q).
Proof. unfold mulop_inf. destruct (0 <? q), isbos, (oget p i + q <=? 0); reflexivity. Qed.

Lemma upd_same (p : list Z) i : upd p i (oget p i) = p.
Proof. revert i; induction p; destruct i; cbn; auto. unfold oget; cbn. f_equal. apply IHp. Qed.

Lemma mulop_inf_term ks i q t n :
  (i < length ks)%nat -> length (fst t) = length ks -> length n = length ks ->
  isInf (kget ks i) = true ->
  peq (den_term ks (mulop_inf (isB (kget ks i)) i q t) n) (papp (den_term ks t) (opact ks i q n)).
Proof.
  intros Hi Hp Hn Hk. destruct t as [p f]. cbn [fst] in Hp.
  assert (HF : isF (kget ks i) = false) by (destruct (kget ks i); try discriminate; reflexivity).
  set (o := oget p i). set (v := oget n i).
  rewrite opact_cf by auto. unfold jw. rewrite HF. cbn [andb gsgn].
  unfold papp. cbn [fst snd].
  rewrite (den_term_cf_eq ks (p, f)) by (rewrite ?upd_length; auto).
  rewrite den_term_cf_eq by (rewrite ?mulop_inf_fst, ?upd_length; auto).
  unfold den_term_cf, pscale. cbn [fst snd]. rewrite mulop_inf_fst. fold o v.
  split; cbn [fst snd].
  2:{ rewrite osub_upd_r, osub_upd_l by congruence. fold o v. apply upd_eq_val. lia. }
  rewrite (ws_factor_nonF ks i (upd p i (o + q)) n) by (rewrite ?upd_length; auto).
  rewrite (ws_factor_nonF ks i p (upd n i (v - q))) by (rewrite ?upd_length; auto).
  rewrite upd_upd. rewrite !oget_upd_same by congruence. fold o.
  rewrite (ws_indep_nonF ks i (upd p i 0) n (v - q)) by (rewrite ?upd_length; auto; apply oget_upd_same; congruence).
  fold v. rewrite omid_upd_r, omid_upd_l by congruence. fold o v.
  set (M := omid n p).
  assert (HM : (i < length M)%nat) by (subst M; rewrite omid_length; congruence).
  assert (Hpf : mulop_inf (isB (kget ks i)) i q (p, f) = mulop_inf (isB (kget ks i)) i q (upd p i o, f))
    by (subst o; rewrite upd_same; reflexivity).
  destruct (kget ks i) eqn:Ek; try discriminate; cbn [isB wloc] in *.
  - rewrite Hpf.
    assert (Hp' : forall X, mulop_inf true i q (upd p i o, X) = mulop_inf true i q (upd p i o, X)) by reflexivity.
    pose proof (inf_core_boson i q o v f M HM) as HC.
    assert (Hs : snd (mulop_inf true i q (upd p i o, f)) = snd (mulop_inf true i q (upd M i o, f))).
    { unfold mulop_inf. rewrite !oget_upd_same by (auto; congruence). destruct (0 <? q), (o + q <=? 0); reflexivity. }
    rewrite Hs.
    transitivity (gmul (ws ks (upd p i 0) n)
                       (gmul (ffall v (Z.to_nat (o + q)))
                             (cval (snd (mulop_inf true i q (upd M i o, f))) (upd M i (v - Z.max (o + q) 0))))).
    { ring. }
    rewrite HC. ring.
  - rewrite Hpf.
    pose proof (inf_core_ladder i q o v f M HM) as HC.
    assert (Hs : snd (mulop_inf false i q (upd p i o, f)) = snd (mulop_inf false i q (upd M i o, f))).
    { unfold mulop_inf. rewrite !oget_upd_same by (auto; congruence). destruct (0 <? q), (o + q <=? 0); reflexivity. }
    rewrite Hs, HC. ring.
Qed.
