(** * Model of pymablock/second_quantization.py : solve_scalar (the scalar Sylvester solver
      used by solve_sylvester_2nd_quant).  Line numbers refer to second_quantization.py.

    [H_ii], [H_jj] are number-conserving NumberOrderedForms (checked by
    [solve_sylvester_2nd_quant], l. 151); they are represented by the coefficient of their
    single zero-power term, [hi hj : cexpr].  [Y] and the result share the operator list. *)
Require Import List ZArith QArith Lia Bool.
Require Import PV.NOF.Gauss PV.NOF.Coeff PV.NOF.Fock PV.NOF.Model.
Import ListNotations.
Local Open Scope Z_scope.

(** number-conserving form with coefficient h *)
Definition hnof (ks : sig) (h : cexpr) : nof := [(zeros ks, h)].

(** [tuple(shift) < (0,)*len(shift)] : lexicographic comparison with the zero tuple *)
Fixpoint lex_neg (p : list Z) : bool :=
  match p with
  | [] => false
  | q :: r => if q <? 0 then true else if 0 <? q then false else lex_neg r
  end.

(** l. 83-93: H_jj with N -> N + delta (boson, ladder) or 1 (spin, fermion) for delta > 0 *)
Definition shift_ann (ks : sig) (p : list Z) (h : cexpr) : cexpr :=
  csubst (fun j => let d := oget p j in
                   if 0 <? d then (if isInf (kget ks j) then CAdd (CNum j) (CConst (gz d)) else CConst (gz 1))
                   else CNum j) h.
(** l. 94-104: H_ii with N -> N - delta (boson, ladder) or 1 (spin, fermion) for delta < 0 *)
Definition shift_cre (ks : sig) (p : list Z) (h : cexpr) : cexpr :=
  csubst (fun j => let d := oget p j in
                   if d <? 0 then (if isInf (kget ks j) then CAdd (CNum j) (CConst (gz (- d))) else CConst (gz 1))
                   else CNum j) h.

(** the energy denominator of a term with powers p, as written by the code (l. 105-108) *)
Definition denominator (ks : sig) (hi hj : cexpr) (p : list Z) : cexpr :=
  if lex_neg p then CAdd (shift_ann ks p hj) (CNeg (shift_cre ks p hi))
  else CAdd (shift_cre ks p hi) (CNeg (shift_ann ks p hj)).

(** l. 72-113; [None]: term skipped by the [diagonal] half-computation.
    (sympy's [simplify]/[collect_const]/[doit] on the denominator are value preserving.) *)
Definition solve_term (ks : sig) (hi hj : cexpr) (diagonal : bool) (t : term) : option term :=
  let (p, c) := t in
  let neg := lex_neg p in
  if diagonal && negb neg then None
  else Some (p, CMul (CMul (CConst (if neg then gopp g1 else g1)) (CInv (denominator ks hi hj p))) c).

Definition solve_terms (ks : sig) (hi hj : cexpr) (diagonal : bool) (y : nof) : nof :=
  dict_of (flat_map (fun t => match solve_term ks hi hj diagonal t with Some t' => [t'] | None => [] end) y).

(** l. 115-127 *)
Definition solve_scalar (ks : sig) (y : nof) (hi hj : cexpr) (diagonal : bool) : nof :=
  let x0 := linearize ks (cancel_binary ks (solve_terms ks hi hj diagonal y)) in
  if diagonal then sub x0 (adj x0) else x0.

(** observation for the harness *)
Definition check_scalar (ks : sig) (ty : tree) (hi hj : cexpr) (diagonal : bool) (grid : list (list Z))
           (expected : list (list Z * list (option G))) : bool :=
  match teval ks ty with
  | Ok y => obs_sem_eqb (obs (solve_scalar ks y hi hj diagonal) grid) expected
  | Raise _ => false
  end.

(** ** solve_sylvester_2nd_quant (l. 130-187): one entry of the matrix-valued solution for the
    block index (index[0], index[1]).  [same] = (index[0] == index[1]); levels [hi] = eigs_A[i],
    [hj] = eigs_B[j].  Entries with [same && i < j] are minus the adjoint of the transposed entry,
    which was computed from Y[j,i] with the levels exchanged; only the matrix-diagonal entries of a
    diagonal block use the Hermitian half-computation. *)
Definition solve_entry (ks : sig) (same : bool) (i j : nat) (yij yji : nof) (hi hj : cexpr) : nof :=
  if negb same || (j <=? i)%nat
  then solve_scalar ks yij hi hj (same && (i =? j)%nat)
  else neg (adj (solve_scalar ks yji hj hi false)).

Definition check_entry (ks : sig) (same : bool) (i j : nat) (tij tji : tree) (hi hj : cexpr)
           (grid : list (list Z)) (expected : list (list Z * list (option G))) : bool :=
  match teval ks tij, teval ks tji with
  | Ok yij, Ok yji => obs_sem_eqb (obs (solve_entry ks same i j yij yji hi hj) grid) expected
  | _, _ => false
  end.
