(** Index enumeration, association-list lookup and list-of-lists tabulation used by the
    executable representation of truncated series (Series/Exec.v).  No Ncring here. *)
Require Import List Arith Lia Bool.
From PV.Series Require Import MultiIndex.
Import ListNotations.
Set Implicit Arguments.

(** all multi-indices of length k and total degree <= N *)
Fixpoint idx (k N : nat) : list mi :=
  match k with
  | 0 => [[]]
  | S k' => flat_map (fun d => map (cons d) (idx k' (N - d))) (seq 0 (S N))
  end.

Lemma in_idx k N n : In n (idx k N) <-> length n = k /\ deg n <= N.
Proof.
  revert N n. induction k as [|k IH]; intros N n; cbn [idx].
  - cbn. split.
    + intros [<-|[]]. cbn. lia.
    + intros [L _]. destruct n; try discriminate. auto.
  - rewrite in_flat_map. split.
    + intros (d & Hd & Hn). apply in_seq in Hd. apply in_map_iff in Hn.
      destruct Hn as (m & <- & Hm). apply IH in Hm. cbn. lia.
    + intros [L Hdeg]. destruct n as [|d m]; try discriminate. cbn in L, Hdeg.
      exists d. split. apply in_seq; lia. apply in_map. apply IH. lia.
Qed.

(** first-match lookup in an association list keyed by multi-indices *)
Fixpoint lookup {V} (n : mi) (t : list (mi * V)) : option V :=
  match t with
  | [] => None
  | (m, v) :: t' => if mi_eqb m n then Some v else lookup n t'
  end.

Lemma lookup_tab {V} (g : mi -> V) n l :
  In n l -> lookup n (map (fun m => (m, g m)) l) = Some (g n).
Proof.
  induction l as [|m l IH]; cbn [map lookup In]. contradiction.
  destruct (mi_eqb m n) eqn:E.
  - apply mi_eqb_eq in E. subst. reflexivity.
  - intros [->|H]; auto. rewrite (proj2 (mi_eqb_eq n n) eq_refl) in E. discriminate.
Qed.

Lemma lookup_tab_none {V} (g : mi -> V) n l :
  ~ In n l -> lookup n (map (fun m => (m, g m)) l) = None.
Proof.
  induction l as [|m l IH]; cbn [map lookup In]; intros H. reflexivity.
  destruct (mi_eqb m n) eqn:E.
  - apply mi_eqb_eq in E. subst. elim H. now left.
  - apply IH. tauto.
Qed.

(** matrices as lists of rows *)
Definition nth2 {A} (d : A) (v : list (list A)) (p q : nat) : A := nth q (nth p v []) d.

Definition tabm {A} (D : nat) (h : nat -> nat -> A) : list (list A) :=
  map (fun p => map (fun q => h p q) (range D)) (range D).

Lemma nth_map_range {A} (F : nat -> A) D p d : p < D -> nth p (map F (range D)) d = F p.
Proof.
  intros Hp. rewrite (nth_indep _ d (F 0)) by (rewrite map_length; unfold range; now rewrite seq_length).
  rewrite map_nth. unfold range. now rewrite seq_nth.
Qed.

Lemma nth2_tabm {A} (d : A) D h p q : p < D -> q < D -> nth2 d (tabm D h) p q = h p q.
Proof.
  intros Hp Hq. unfold nth2, tabm. rewrite nth_map_range by assumption.
  now rewrite nth_map_range.
Qed.
