(** Concrete objects for the non-vacuity [Example]s of Props/C13.v and Props/C15.v:
    three basis states, blocks {0,1} | {2}, two parameters, rational coefficients (trivial
    conjugation), energies 0, 1, 2, the field inverse of Q as solver. *)
Require Import List ZArith QArith Arith Lia Ncring Morphisms.
From PV.Base Require Import Classes.
From PV.Series Require Import MultiIndex Cauchy Lift Inst SylvInst ExecExample.
From PV.Block Require Import Mat Masks CoefAlg BlockSel ExecScalar QLemmas QInst.

Lemma ex_keep_refl p : ex_keep p p = true.
Proof. apply Nat.eqb_refl. Qed.

Lemma ex_E_real p : conj (ex_E p) == ex_E p.
Proof. reflexivity. Qed.

Lemma ex_inv_P : Proper (_==_ ==> _==_) ex_inv.
Proof. intros x y H. unfold ex_inv. now apply Qinv_comp. Qed.

Lemma ex_inv_opp x : ex_inv (- x) == - ex_inv x.
Proof. unfold ex_inv. destruct x as [[|n|n] d]; reflexivity. Qed.

Lemma ex_inv_conj x : conj (ex_inv x) == ex_inv (conj x).
Proof. reflexivity. Qed.

(** the transposition of the basis states 0 and 2 (it exchanges the two blocks) *)
Definition ex_pi (p : nat) : nat := (match p with 0 => 2 | 1 => 1 | 2 => 0 | _ => p end)%nat.
Lemma ex_pi_lt p : (p < 3)%nat -> (ex_pi p < 3)%nat.
Proof. destruct p as [|[|[|p]]]; cbn; lia. Qed.
Lemma ex_pi_pi p : (p < 3)%nat -> ex_pi (ex_pi p) = p.
Proof. destruct p as [|[|[|p]]]; cbn; lia. Qed.

(** real scalars *)
Lemma ex_c_real : Forall (fun x : Q => conj x == x) (cons (2#1)%Q (cons (1#2)%Q nil)).
Proof. repeat constructor. Qed.

(** the swap of the states 0 and 1 (inside the block {0,1}) and the rows of the kept mask *)
Definition ex_sw (p : nat) : nat := (match p with 0 => 1 | 1 => 0 | _ => p end)%nat.
Lemma ex_sw_rows a p r : (a < 3)%nat -> (p < 3)%nat -> (r < 3)%nat -> Nat.eqb a (ex_sw p) = true -> ex_keep a r = ex_keep p r.
Proof.
  intros Ha Hp Hr H. apply Nat.eqb_eq in H. subst a.
  destruct p as [|[|[|p]]]; try lia; reflexivity.
Qed.

(** degenerate energies 1, 1, 2: kept elements (inside the blocks {0,1} | {2}) connect equal energies *)
Definition ex_Ed (p : nat) : Q := match p with O => 1%Q | S O => 1%Q | _ => 2%Q end.
Lemma ex_Ed_kept_equal p q : (p < 3)%nat -> (q < 3)%nat -> ex_keep p q = true -> ex_Ed p == ex_Ed q.
Proof.
  intros Hp Hq. destruct p as [|[|[|p]]]; try lia; destruct q as [|[|[|q]]]; try lia;
    cbn; intros K; try discriminate; reflexivity.
Qed.
Lemma ex_Ed_inv_spec p q : (p < 3)%nat -> (q < 3)%nat -> ex_keep p q = false ->
  (ex_Ed p - ex_Ed q) * ex_inv (ex_Ed p - ex_Ed q) == 1.
Proof.
  intros Hp Hq. destruct p as [|[|[|p]]]; try lia; destruct q as [|[|[|q]]]; try lia;
    cbn; intros K; try discriminate; reflexivity.
Qed.
