(** Executable, list-based representation of truncated series of D x D matrices over an
    executable scalar ring ([ExecScalar]: Q, Gaussian rationals - Block/QInst.v), suitable
    for [vm_compute], with its denotation into the function representation of
    Series/Inst.v.

    [tser := list (mi * list (list R0))]: association list multi-order |-> rows of entries.
    Every executable operation is  [tab N (abstract operation applied to denotations)],
    i.e. the abstract operation tabulated on all multi-orders of total degree <= N and
    normalised entry by entry; [den_tab] is therefore the single correctness lemma, and the
    [t*_den] lemmas are its instances.  [eqN N x y] is equality of all coefficients of
    total order <= N (equivalently [ord (S N) (x - y)]), a congruence for every operation
    of the [BlockAlg]; [teqb] decides it on denotations. *)
Require Import Ncring Ncring_tac Setoid Morphisms List ZArith Bool.
From PV.Base Require Import Classes BigSum.
From PV.Series Require Import MultiIndex Cauchy Lift Inst ExecIdx.
From PV.Block Require Import Mat Masks CoefAlg BlockSel ExecScalar.
Set Implicit Arguments.

Section Exec.
Variables D k : nat.
Context {R0 : Type} `{Rg : Ring R0} {CS : CStar R0} {ES : ExecScalar R0}.
Variable blk : nat -> nat.
Variable keep : nat -> nat -> bool.
Variable cm : nat -> bool.
Hypothesis keep_sym : forall p q, keep p q = keep q p.
Hypothesis keep_blk : forall p q, keep p q = true -> blk p = blk q.
Hypothesis cm_blk : forall p q, blk p = blk q -> cm p = cm q.

Local Notation T := (T D k R0).
Local Hint Extern 0 (BlockAlg _) =>
  exact (series_BlockAlg D k blk keep cm keep_sym keep_blk cm_blk) : typeclass_instances.

Definition tser : Type := list (mi * list (list R0)).

Definition den (t : tser) : T :=
  fun n p q => match lookup n t with Some v => nth2 0 v p q | None => 0 end.

Definition tab (N : nat) (f : T) : tser :=
  map (fun n => (n, tabm D (fun p q => norm0 (f n p q)))) (idx k N).

(** equality up to total order N *)
Definition eqN (N : nat) (x y : T) : Prop :=
  forall n, length n = k -> (deg n <= N)%nat -> x n == y n.

Lemma den_tab N f : eqN N (den (tab N f)) f.
Proof.
  intros n Hn Hd p q Hp Hq. unfold den, tab.
  rewrite (lookup_tab (fun n => tabm D (fun p q => norm0 (f n p q)))).
  - rewrite nth2_tabm by assumption. apply norm0_eq.
  - apply in_idx. auto.
Qed.

Lemma den_tab_high N f n p q : (N < deg n)%nat -> den (tab N f) n p q = 0.
Proof.
  intros H. unfold den, tab.
  rewrite (lookup_tab_none (fun n => tabm D (fun p q => norm0 (f n p q)))). reflexivity.
  rewrite in_idx. intros [_ H']. apply (Nat.lt_irrefl N). eapply Nat.lt_le_trans; eauto.
Qed.

(** ** executable operations *)
Definition tzero : tser := nil.
Definition tone (N : nat) : tser := tab N 1.
Definition tadd N (a b : tser) : tser := tab N (den a + den b).
Definition tsub N (a b : tser) : tser := tab N (den a - den b).
Definition topp N (a : tser) : tser := tab N (- den a).
Definition tadj N (a : tser) : tser := tab N (adj (den a)).
Definition tdivz N (a : tser) (z : Z) : tser := tab N (divz (den a) z).
Definition tDg N (a : tser) : tser := tab N (Dg (den a)).
Definition tUp N (a : tser) : tser := tab N (Up (den a)).
Definition tLo N (a : tser) : tser := tab N (Lo (den a)).
Definition tSel N (a : tser) : tser := tab N (Sel (den a)).
Definition tRw N (a : tser) : tser := tab N (Rw (den a)).
Definition tZc N (a : tser) : tser := tab N (Zc (den a)).
(** truncation / normalisation of a given table *)
Definition ttrunc N (a : tser) : tser := tab N (den a).

Lemma tzero_den : den tzero == 0.
Proof. intros n _ p q _ _. reflexivity. Qed.
Lemma tone_den N : eqN N (den (tone N)) 1. Proof. apply den_tab. Qed.
Lemma tadd_den N a b : eqN N (den (tadd N a b)) (den a + den b). Proof. apply den_tab. Qed.
Lemma tsub_den N a b : eqN N (den (tsub N a b)) (den a - den b). Proof. apply den_tab. Qed.
Lemma topp_den N a : eqN N (den (topp N a)) (- den a). Proof. apply den_tab. Qed.
Lemma tadj_den N a : eqN N (den (tadj N a)) (adj (den a)). Proof. apply den_tab. Qed.
Lemma tdivz_den N a z : eqN N (den (tdivz N a z)) (divz (den a) z). Proof. apply den_tab. Qed.
Lemma tDg_den N a : eqN N (den (tDg N a)) (Dg (den a)). Proof. apply den_tab. Qed.
Lemma tUp_den N a : eqN N (den (tUp N a)) (Up (den a)). Proof. apply den_tab. Qed.
Lemma tLo_den N a : eqN N (den (tLo N a)) (Lo (den a)). Proof. apply den_tab. Qed.
Lemma tSel_den N a : eqN N (den (tSel N a)) (Sel (den a)). Proof. apply den_tab. Qed.
Lemma tRw_den N a : eqN N (den (tRw N a)) (Rw (den a)). Proof. apply den_tab. Qed.
Lemma tZc_den N a : eqN N (den (tZc N a)) (Zc (den a)). Proof. apply den_tab. Qed.
Lemma ttrunc_den N a : eqN N (den (ttrunc N a)) (den a). Proof. apply den_tab. Qed.

(** ** products: the coefficient tables are looked up once per splitting and every partial
    sum is normalised (keeps rational numbers reduced) *)
Definition getm (t : tser) (n : mi) : list (list R0) :=
  match lookup n t with Some v => v | None => nil end.

Lemma den_getm t n p q : den t n p q = nth2 0 (getm t n) p q.
Proof.
  unfold den, getm. destruct (lookup n t). reflexivity.
  unfold nth2. destruct p; destruct q; reflexivity.
Qed.

Fixpoint nsum {A} (f : A -> R0) (l : list A) : R0 :=
  match l with nil => 0 | cons a l' => norm0 (f a + nsum f l') end.

Lemma nsum_bigsum {A} (f : A -> R0) l : nsum f l == bigsum f l.
Proof.
  induction l as [|a l IH]. reflexivity.
  cbn [nsum]. rewrite norm0_eq, IH. reflexivity.
Qed.

(** entry (p,q) of the product of two matrices given as lists of rows *)
Definition mm (A B : list (list R0)) (p q : nat) : R0 :=
  nsum (fun r => nth2 0 A p r * nth2 0 B r q) (range D).

Definition tmul N (a b : tser) : tser :=
  map (fun n =>
         (n, let prs := map (fun ab => (getm a (fst ab), getm b (snd ab))) (splits n) in
             tabm D (fun p q => nsum (fun AB => mm (fst AB) (snd AB) p q) prs)))
      (idx k N).

Lemma tmul_den N a b : eqN N (den (tmul N a b)) (den a * den b).
Proof.
  intros n Hn Hd p q Hp Hq. unfold tmul. unfold den at 1.
  rewrite (lookup_tab (fun n =>
             let prs := map (fun ab => (getm a (fst ab), getm b (snd ab))) (splits n) in
             tabm D (fun p q => nsum (fun AB => mm (fst AB) (snd AB) p q) prs)))
    by (apply in_idx; auto).
  cbv zeta. rewrite nth2_tabm by assumption.
  rewrite nsum_bigsum, bigsum_map, (mul_entry (Rg := Rg)).
  apply bigsum_ext. intros (a1, a2) _. cbn [fst snd]. unfold mm. rewrite nsum_bigsum.
  apply bigsum_ext. intros r _. rewrite !den_getm. reflexivity.
Qed.

Definition thsum N (a b : tser) : tser :=
  map (fun n =>
         (n, let prs := map (fun ab => (lexc (fst ab) (snd ab),
                                        (getm a (fst ab), getm b (snd ab)))) (splits n) in
             tabm D (fun p q =>
               if Nat.eqb (blk p) (blk q) then
                 nsum (fun t =>
                         match fst t with
                         | Gt => 0
                         | Eq => mm (fst (snd t)) (snd (snd t)) p q
                         | Lt => mm (fst (snd t)) (snd (snd t)) p q
                                 + conj (mm (fst (snd t)) (snd (snd t)) q p)
                         end) prs
               else 0)))
      (idx k N).

Lemma mm_tprod a b a1 a2 p q :
  mm (getm a a1) (getm b a2) p q == tprod (D := D) (den a) (den b) a1 a2 p q.
Proof.
  unfold mm, tprod. rewrite nsum_bigsum. apply bigsum_ext. intros r _.
  rewrite !den_getm. reflexivity.
Qed.

Lemma thsum_den N a b : eqN N (den (thsum N a b)) (hsum (den a) (den b)).
Proof.
  intros n Hn Hd p q Hp Hq. unfold thsum. unfold den at 1.
  rewrite (lookup_tab (fun n =>
     let prs := map (fun ab => (lexc (fst ab) (snd ab),
                                (getm a (fst ab), getm b (snd ab)))) (splits n) in
     tabm D (fun p q =>
       if Nat.eqb (blk p) (blk q) then
         nsum (fun t =>
                 match fst t with
                 | Gt => 0
                 | Eq => mm (fst (snd t)) (snd (snd t)) p q
                 | Lt => mm (fst (snd t)) (snd (snd t)) p q
                         + conj (mm (fst (snd t)) (snd (snd t)) q p)
                 end) prs
       else 0))) by (apply in_idx; auto).
  cbv zeta. rewrite nth2_tabm by assumption.
  rewrite (hsum_entry (Rg := Rg)). destruct (Nat.eqb (blk p) (blk q)); [|reflexivity].
  rewrite nsum_bigsum, bigsum_map. apply bigsum_ext. intros (a1, a2) _. cbn [fst snd].
  destruct (lexc a1 a2).
  - apply mm_tprod.
  - rewrite !mm_tprod. reflexivity.
  - reflexivity.
Qed.

(** ** deciding equality up to order N *)
Definition teqb (N : nat) (a b : tser) : bool :=
  forallb (fun n =>
    forallb (fun p =>
      forallb (fun q => eqb0 (den a n p q) (den b n p q)) (range D)) (range D)) (idx k N).

Lemma teqb_sound N a b : teqb N a b = true -> eqN N (den a) (den b).
Proof.
  unfold teqb. rewrite forallb_forall. intros H n Hn Hd p q Hp Hq.
  assert (I : In n (idx k N)) by (apply in_idx; auto).
  specialize (H n I). rewrite forallb_forall in H.
  specialize (H p (proj2 (in_range D p) Hp)). rewrite forallb_forall in H.
  specialize (H q (proj2 (in_range D q) Hq)). now apply eqb0_sound.
Qed.

(** ** [eqN] is a congruence *)
Lemma eqN_refl N x : eqN N x x.
Proof. intros n _ _. reflexivity. Qed.
Lemma eqN_sym N x y : eqN N x y -> eqN N y x.
Proof. intros H n Hn Hd. symmetry. now apply H. Qed.
Lemma eqN_trans N x y z : eqN N x y -> eqN N y z -> eqN N x z.
Proof. intros H1 H2 n Hn Hd. rewrite (H1 n Hn Hd). now apply H2. Qed.

Global Instance eqN_Equivalence N : Equivalence (eqN N).
Proof. split. exact (@eqN_refl N). exact (@eqN_sym N). exact (@eqN_trans N). Qed.

Lemma eq_eqN N (x y : T) : x == y -> eqN N x y.
Proof. intros H n Hn _. now apply H. Qed.

Lemma eqN_le N N' x y : (N' <= N)%nat -> eqN N x y -> eqN N' x y.
Proof. intros L H n Hn Hd. apply H; auto. eapply Nat.le_trans; eauto. Qed.

Lemma eqN_ord N (x y : T) : eqN N x y <-> ord (S N) (x - y).
Proof.
  split.
  - intros H n Hn Hd. apply (proj1 (lt_S_le _ _)) in Hd.
    change ((x - y) n) with (x n - y n). rewrite (H n Hn Hd). non_commutative_ring.
  - intros H n Hn Hd. apply (proj2 (lt_S_le _ _)) in Hd. specialize (H n Hn Hd).
    change ((x - y) n) with (x n - y n) in H.
    transitivity ((x n - y n) + y n). non_commutative_ring.
    rewrite H. change ((0 : T) n) with (0 : mat D R0). non_commutative_ring.
Qed.

Lemma eqN_add N x x' y y' : eqN N x x' -> eqN N y y' -> eqN N (x + y) (x' + y').
Proof.
  intros Hx Hy n Hn Hd. change (x n + y n == x' n + y' n).
  rewrite (Hx n Hn Hd), (Hy n Hn Hd). reflexivity.
Qed.
Lemma eqN_sub N x x' y y' : eqN N x x' -> eqN N y y' -> eqN N (x - y) (x' - y').
Proof.
  intros Hx Hy n Hn Hd. change (x n - y n == x' n - y' n).
  rewrite (Hx n Hn Hd), (Hy n Hn Hd). reflexivity.
Qed.
Lemma eqN_opp N x x' : eqN N x x' -> eqN N (- x) (- x').
Proof.
  intros Hx n Hn Hd. change (- x n == - x' n). rewrite (Hx n Hn Hd). reflexivity.
Qed.

Lemma eqN_mul N x x' y y' : eqN N x x' -> eqN N y y' -> eqN N (x * y) (x' * y').
Proof.
  intros Hx Hy n Hn Hd.
  change (conv (k := k) x y n == conv (k := k) x' y' n). unfold conv.
  apply bigsum_ext. intros (a, b) I. cbn [fst snd].
  destruct (splits_deg_le _ _ _ I Hd) as [Da Db].
  apply splits_length in I. destruct I as [La Lb].
  rewrite (Hx a), (Hy b); auto; try congruence. reflexivity.
Qed.

(** coefficient-wise maps *)
Lemma eqN_lift N (phi : mat D R0 -> mat D R0) x x' :
  Proper (_==_ ==> _==_) phi -> eqN N x x' -> eqN N (lift (k := k) phi x) (lift (k := k) phi x').
Proof. intros HP Hx n Hn Hd. unfold lift. apply HP. now apply Hx. Qed.

Lemma eqN_adj N x x' : eqN N x x' -> eqN N (adj x) (adj x').
Proof. apply eqN_lift. apply (madj_P (D := D)). Qed.
Lemma eqN_divz N z x x' : eqN N x x' -> eqN N (divz x z) (divz x' z).
Proof. apply (eqN_lift (phi := fun A => mdivz A z)). apply (mdivz_P (D := D)). Qed.
Lemma eqN_Dg N x x' : eqN N x x' -> eqN N (Dg x) (Dg x').
Proof. apply eqN_lift. apply (mmask_P (Rg := Rg)). Qed.
Lemma eqN_Up N x x' : eqN N x x' -> eqN N (Up x) (Up x').
Proof. apply eqN_lift. apply (mmask_P (Rg := Rg)). Qed.
Lemma eqN_Lo N x x' : eqN N x x' -> eqN N (Lo x) (Lo x').
Proof. apply eqN_lift. apply (mmask_P (Rg := Rg)). Qed.
Lemma eqN_Sel N x x' : eqN N x x' -> eqN N (Sel x) (Sel x').
Proof. apply eqN_lift. apply (mmask_P (Rg := Rg)). Qed.
Lemma eqN_Rw N x x' : eqN N x x' -> eqN N (Rw x) (Rw x').
Proof. apply eqN_lift. apply (mmask_P (Rg := Rg)). Qed.

Lemma eqN_Zc N x x' : eqN N x x' -> eqN N (Zc x) (Zc x').
Proof.
  intros Hx n Hn Hd. change (sZc (k := k) x n == sZc (k := k) x' n). unfold sZc.
  destruct (is_zero n). now apply Hx. reflexivity.
Qed.

Lemma eqN_hsum N x x' y y' : eqN N x x' -> eqN N y y' -> eqN N (hsum x y) (hsum x' y').
Proof.
  intros Hx Hy n Hn Hd.
  change (mDg blk (s_half (k := k) (CA := T_CoefAlg D blk keep cm keep_sym keep_blk cm_blk) x y n)
          == mDg blk (s_half (k := k) (CA := T_CoefAlg D blk keep cm keep_sym keep_blk cm_blk) x' y' n)).
  apply (mmask_P (Rg := Rg)). unfold s_half. apply bigsum_ext. intros (a, b) I.
  destruct (splits_deg_le _ _ _ I Hd) as [Da Db].
  apply splits_length in I. destruct I as [La Lb].
  assert (E1 : x a == x' a) by (apply Hx; congruence).
  assert (E2 : y b == y' b) by (apply Hy; congruence).
  unfold hterm. cbn [fst snd]. destruct (lexc a b); rewrite ?E1, ?E2; reflexivity.
Qed.

End Exec.

Arguments tser R0 : clear implicits.
Arguments tab D k {R0 ring0 ring1 add mul sub opp ring_eq Ro ES} N f.
Arguments eqN D k {R0 ring0 ring1 add mul sub opp ring_eq Ro} N x y.
