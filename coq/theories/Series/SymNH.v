(** Non-Hermitian mode: transport of the outputs of the generated program [nonhermitian_alg]
    along structure-preserving maps ([SGHom], Alg/Equivariance.v: no adjoint involved) between
    concrete instances, and the direct arguments for shift / scale / direct sum.

    The non-Hermitian program satisfies its defining conditions [similarity_gauge] only when
    every kept matrix element connects equal unperturbed energies, [H_0, S x] = 0 (known finding
    C05-kept-distinct-energies: outside this class the similarity statement is false on the
    unchanged code).  That hypothesis ([kept_equal]: keep p q = true -> E p == E q) is needed on
    BOTH sides of every statement below, which is why the Props theorems built on this file are
    named *_partial.  Inverse and gauge need no such hypothesis, but uniqueness needs the
    elimination condition.  No reality of the energies, no Hermiticity of the input and no
    compatibility of the solver with conjugation is assumed here.  (The concrete algebra has a
    symmetric kept mask; asymmetric masks are covered by the oracle only.) *)
Require Import Ncring Ncring_tac Setoid Morphisms List ZArith String.
From PV.Base Require Import Classes BigSum AlgLemmas.
From PV.Series Require Import MultiIndex Cauchy Lift Inst SylvInst Wiring SymBase.
From PV.Block Require Import Mat Masks CoefAlg BlockSel.
From PV.DSL Require Import Syntax Sem.
From PV.Gen Require Import Algorithms_gen.
From PV.Alg Require Import MainLift UniqueNH NonHerm Equivariance.
Open Scope string_scope.

(** * [SGHom] from the same data as [mkLAHom], without the adjoint; every [LAHom] is an [SGHom] *)
Section MkSGHom.
Context {T : Type} {r0 r1 : T} {add mul sub : T -> T -> T} {opp : T -> T} {req : T -> T -> Prop}
        {Ro : @Ring_ops T r0 r1 add mul sub opp req} {Rg : @Ring T r0 r1 add mul sub opp req Ro}
        {BA : BlockAlg T}.
Context {T' : Type} {r0' r1' : T'} {add' mul' sub' : T' -> T' -> T'} {opp' : T' -> T'} {req' : T' -> T' -> Prop}
        {Ro' : @Ring_ops T' r0' r1' add' mul' sub' opp' req'} {Rg' : @Ring T' r0' r1' add' mul' sub' opp' req' Ro'}
        {BA' : BlockAlg T'}.
Variable phi : T -> T'.

Lemma LAHom_SGHom : LAHom phi -> SGHom phi.
Proof. intros [a b c d e f g h i]. constructor; assumption. Qed.

Hypothesis hP : Proper (_==_ ==> _==_) phi.
Hypothesis hadd : forall x y, phi (x + y) == phi x + phi y.
Hypothesis hopp : forall x, phi (- x) == - phi x.
Hypothesis hone : phi 1 == 1.
Hypothesis hmul : forall x y, phi (x * y) == phi x * phi y.
Hypothesis hSel : forall x, phi (Sel x) == Sel (phi x).
Hypothesis hord : forall k x, ord k x -> ord k (phi x).

Lemma mkSGHom : SGHom phi.
Proof.
  constructor; try assumption.
  - apply additive_zero. exact hadd. exact hP.
  - intros x y. transitivity (phi (x + - y)). apply hP. non_commutative_ring.
    rewrite hadd, hopp. non_commutative_ring.
Qed.
End MkSGHom.

(** * what block_diagonalize(hermitian=False) provides, abstractly *)
Section AbstractNH.
Context {T : Type} `{Rg : Ring T} {BA : BlockAlg T}.

Record nh_wiring (fenv : string -> list T -> T) (H : T) : Prop := {
  nw_P : Proper (_==_ ==> _==_) (nsylv fenv);
  nw_ord : forall k y, ord k y -> ord k (nsylv fenv y);
  nw_H0 : Sel (Zc H) == Zc H;
  nw_adH0 : forall x, Sel (comm (Zc H) x) == comm (Zc H) (Sel x);
  nw_spec : forall y, Rp (comm (Zc H) (nsylv fenv y)) == Rp y;
  nw_left : forall x, Rp (nsylv fenv (comm (Zc H) (Rp x))) == Rp x;
  (* kept matrix elements connect equal unperturbed energies (domain of validity, C05) *)
  nw_central : forall x, comm (Zc H) (Sel x) == 0
}.

Lemma sg_proper (H1 H2 U1 U2 G1 G2 : T) :
  H1 == H2 -> U1 == U2 -> G1 == G2 -> similarity_gauge H1 U1 G1 -> similarity_gauge H2 U2 G2.
Proof.
  intros EH EU EG (a & b & c & d & e). unfold similarity_gauge. rewrite <- EH, <- EU, <- EG.
  repeat split; assumption.
Qed.

Section Sol.
Variable gflag : string -> bool.
Variable rflag : string -> T -> T.
Variable fenv : string -> list T -> T.
Variable sol : string -> T.
Hypothesis Hsol : solution gflag rflag fenv sol nonhermitian_alg.
Hypothesis Hw : nh_wiring fenv (sol "H").

Lemma nh_similarity_gauge : similarity_gauge (sol "H") (sol "U") (sol "U†").
Proof.
  destruct Hw as [sP so h0 ad sp lf ce].
  unfold similarity_gauge. repeat split.
  - assert (E : sol "U" - 1 == sol "U'") by (rewrite (eU gflag rflag fenv sol Hsol); non_commutative_ring).
    rewrite E. apply (oU' gflag rflag fenv sol Hsol).
  - assert (E : sol "U†" - 1 == sol "U_inv'") by (rewrite (eUi gflag rflag fenv sol Hsol); non_commutative_ring).
    rewrite E. apply (oG gflag rflag fenv sol Hsol).
  - apply (nh_inverse_l gflag rflag fenv sol Hsol).
  - apply (nh_eliminated_partial gflag rflag fenv sol Hsol (sylv_P := sP)); assumption.
  - apply (nh_gauge gflag rflag fenv sol Hsol (sylv_P := sP)); assumption.
Qed.

Lemma nh_kept : Sel (sol "U†" * sol "H" * sol "U") == sol "H_tilde".
Proof.
  destruct Hw as [sP so h0 ad sp lf ce].
  apply (nh_kept_partial gflag rflag fenv sol Hsol (sylv_P := sP)); assumption.
Qed.

(* any pair satisfying the defining conditions for sol "H" is the computed one *)
Lemma nh_unique U G : similarity_gauge (sol "H") U G -> sol "U" == U /\ sol "U†" == G.
Proof.
  intros L. pose proof nh_similarity_gauge as L0. destruct Hw as [sP so h0 ad sp lf ce].
  exact (similarity_unique ad (nsylv fenv) so lf L0 L).
Qed.
End Sol.

(** shift and scale, directly from the defining conditions *)
Lemma sg_shift H U G C : (forall x, C * x == x * C) -> Sel C == C ->
  similarity_gauge H U G -> similarity_gauge (H + C) U G.
Proof.
  intros Cc Cs (a & b & c & d & e). unfold similarity_gauge. repeat split; try assumption.
  assert (E : G * (H + C) * U == G * H * U + C).
  { assert (E0 : G * (H + C) * U == G * H * U + G * (C * U)) by non_commutative_ring.
    rewrite E0, (Cc U). assert (E1 : G * (U * C) == (G * U) * C) by non_commutative_ring.
    rewrite E1, c. non_commutative_ring. }
  rewrite E, Rp_add, d. unfold Rp. rewrite Cs. non_commutative_ring.
Qed.
Lemma sg_kept_shift H U G C : (forall x, C * x == x * C) -> Sel C == C -> G * U == 1 ->
  Sel (G * (H + C) * U) == Sel (G * H * U) + C.
Proof.
  intros Cc Cs c.
  assert (E : G * (H + C) * U == G * H * U + C).
  { assert (E0 : G * (H + C) * U == G * H * U + G * (C * U)) by non_commutative_ring.
    rewrite E0, (Cc U). assert (E1 : G * (U * C) == (G * U) * C) by non_commutative_ring.
    rewrite E1, c. non_commutative_ring. }
  rewrite E, Sel_add, Cs. reflexivity.
Qed.
Lemma sg_scale H U G S : (forall x, S * x == x * S) -> (forall y, Sel (S * y) == S * Sel y) ->
  similarity_gauge H U G -> similarity_gauge (S * H) U G.
Proof.
  intros Sc Ss (a & b & c & d & e). unfold similarity_gauge. repeat split; try assumption.
  assert (E : G * (S * H) * U == S * (G * H * U)).
  { assert (E0 : G * (S * H) * U == (G * S) * H * U) by non_commutative_ring.
    rewrite E0, <- (Sc G). non_commutative_ring. }
  rewrite E. unfold Rp. rewrite Ss.
  assert (E2 : S * (G * H * U) - S * Sel (G * H * U) == S * Rp (G * H * U)) by (unfold Rp; non_commutative_ring).
  rewrite E2, d. non_commutative_ring.
Qed.
Lemma sg_kept_scale H U G S : (forall x, S * x == x * S) -> (forall y, Sel (S * y) == S * Sel y) ->
  Sel (G * (S * H) * U) == S * Sel (G * H * U).
Proof.
  intros Sc Ss.
  assert (E : G * (S * H) * U == S * (G * H * U)).
  { assert (E0 : G * (S * H) * U == (G * S) * H * U) by non_commutative_ring.
    rewrite E0, <- (Sc G). non_commutative_ring. }
  rewrite E. apply Ss.
Qed.

Section ShiftScaleOutputs.
Variable gflag gflag' : string -> bool.
Variable rflag rflag' : string -> T -> T.
Variable fenv fenv' : string -> list T -> T.
Variable sol sol' : string -> T.
Hypothesis Hsol : solution gflag rflag fenv sol nonhermitian_alg.
Hypothesis Hsol' : solution gflag' rflag' fenv' sol' nonhermitian_alg.
Hypothesis Hw : nh_wiring fenv (sol "H").
Hypothesis Hw' : nh_wiring fenv' (sol' "H").

Theorem nh_shift_outputs C :
  (forall x, C * x == x * C) -> Sel C == C -> sol' "H" == sol "H" + C ->
  sol' "U" == sol "U" /\ sol' "U†" == sol "U†" /\ sol' "H_tilde" == sol "H_tilde" + C.
Proof.
  intros Cc Cs Hin.
  pose proof (nh_similarity_gauge gflag rflag fenv sol Hsol Hw) as L.
  assert (L' : similarity_gauge (sol' "H") (sol "U") (sol "U†")).
  { apply (sg_proper (sol "H" + C) (sol' "H") (sol "U") (sol "U") (sol "U†") (sol "U†")); try reflexivity.
    symmetry; exact Hin. apply sg_shift; assumption. }
  destruct (nh_unique gflag' rflag' fenv' sol' Hsol' Hw' _ _ L') as [EU EG].
  repeat split; try assumption.
  rewrite <- (nh_kept gflag' rflag' fenv' sol' Hsol' Hw'), <- (nh_kept gflag rflag fenv sol Hsol Hw).
  rewrite EU, EG, Hin. apply sg_kept_shift; try assumption.
  destruct L as (_ & _ & c & _). exact c.
Qed.

Theorem nh_scale_outputs S :
  (forall x, S * x == x * S) -> (forall y, Sel (S * y) == S * Sel y) -> sol' "H" == S * sol "H" ->
  sol' "U" == sol "U" /\ sol' "U†" == sol "U†" /\ sol' "H_tilde" == S * sol "H_tilde".
Proof.
  intros Sc Ss Hin.
  pose proof (nh_similarity_gauge gflag rflag fenv sol Hsol Hw) as L.
  assert (L' : similarity_gauge (sol' "H") (sol "U") (sol "U†")).
  { apply (sg_proper (S * sol "H") (sol' "H") (sol "U") (sol "U") (sol "U†") (sol "U†")); try reflexivity.
    symmetry; exact Hin. apply sg_scale; assumption. }
  destruct (nh_unique gflag' rflag' fenv' sol' Hsol' Hw' _ _ L') as [EU EG].
  repeat split; try assumption.
  rewrite <- (nh_kept gflag' rflag' fenv' sol' Hsol' Hw'), <- (nh_kept gflag rflag fenv sol Hsol Hw).
  rewrite EU, EG, Hin. apply sg_kept_scale; assumption.
Qed.
End ShiftScaleOutputs.
End AbstractNH.

(** transport of the three outputs along an [SGHom] *)
Section AbstractTransport.
Context {T : Type} {r0 r1 : T} {add mul sub : T -> T -> T} {opp : T -> T} {req : T -> T -> Prop}
        {Ro : @Ring_ops T r0 r1 add mul sub opp req} {Rg : @Ring T r0 r1 add mul sub opp req Ro}
        {BA : BlockAlg T}.
Context {T' : Type} {r0' r1' : T'} {add' mul' sub' : T' -> T' -> T'} {opp' : T' -> T'} {req' : T' -> T' -> Prop}
        {Ro' : @Ring_ops T' r0' r1' add' mul' sub' opp' req'} {Rg' : @Ring T' r0' r1' add' mul' sub' opp' req' Ro'}
        {BA' : BlockAlg T'}.
Variable phi : T -> T'.
Hypothesis HS : SGHom phi.
Variable gflag gflag' : string -> bool.
Variable rflag : string -> T -> T.
Variable rflag' : string -> T' -> T'.
Variable fenv : string -> list T -> T.
Variable fenv' : string -> list T' -> T'.
Variable sol : string -> T.
Variable sol' : string -> T'.
Hypothesis Hsol : solution gflag rflag fenv sol nonhermitian_alg.
Hypothesis Hsol' : solution gflag' rflag' fenv' sol' nonhermitian_alg.
Hypothesis Hw : nh_wiring fenv (sol "H").
Hypothesis Hw' : nh_wiring fenv' (sol' "H").
Hypothesis Hin : sol' "H" == phi (sol "H").

Theorem nh_outputs_transport :
  sol' "U" == phi (sol "U") /\ sol' "U†" == phi (sol "U†") /\ sol' "H_tilde" == phi (sol "H_tilde").
Proof.
  pose proof (nh_similarity_gauge gflag rflag fenv sol Hsol Hw) as L.
  pose proof (nh_similarity_gauge gflag' rflag' fenv' sol' Hsol' Hw') as L'.
  assert (X : sol' "U" == phi (sol "U") /\ sol' "U†" == phi (sol "U†")).
  { destruct Hw' as [sP so h0 ad sp lf ce].
    exact (transport_nh phi HS (sol' "H") ad (nsylv fenv') so lf _ _ _ _ _ Hin L L'). }
  destruct X as [EU EG]. repeat split; try assumption.
  destruct HS as [hP _ _ _ hmul hsel _].
  rewrite <- (nh_kept gflag' rflag' fenv' sol' Hsol' Hw').
  rewrite EU, EG, Hin, <- !hmul, <- hsel. apply hP.
  apply (nh_kept gflag rflag fenv sol Hsol Hw).
Qed.
End AbstractTransport.

(** * the concrete instance *)
Section InstNH.
Variables D k : nat.
Context {R0 : Type} `{Rg : Ring R0} {CS : CStar R0}.
Variable blk : nat -> nat.
Variable keep : nat -> nat -> bool.
Variable cm : nat -> bool.
Hypothesis keep_sym : forall p q, keep p q = keep q p.
Hypothesis keep_refl : forall p, keep p p = true.
Hypothesis keep_blk : forall p q, keep p q = true -> blk p = blk q.
Hypothesis cm_blk : forall p q, blk p = blk q -> cm p = cm q.
Variable E : nat -> R0.
Variable inv : R0 -> R0.
Hypothesis inv_spec : forall p q, (p < D)%nat -> (q < D)%nat -> keep p q = false ->
                                  (E p - E q) * inv (E p - E q) == 1.
(* domain of validity of the non-Hermitian similarity theorems *)
Hypothesis kept_equal : forall p q, (p < D)%nat -> (q < D)%nat -> keep p q = true -> E p == E q.
Local Notation T := (T D k R0).
Local Hint Extern 0 (BlockAlg _) =>
  exact (series_BlockAlg D k blk keep cm keep_sym keep_blk cm_blk) : typeclass_instances.

Lemma central_H0 (x : T) : comm (SylvInst.H0 D k E) (Sel x) == 0.
Proof.
  intros n Hn p q Hp Hq. unfold comm. rewrite (comm_H0_entry (k := k) E (Sel x) n Hp Hq), Sel_entry.
  destruct (keep p q) eqn:K.
  - rewrite (kept_equal p q Hp Hq K). change ((0 : T) n p q) with (0 : R0). non_commutative_ring.
  - change ((0 : T) n p q) with (0 : R0). non_commutative_ring.
Qed.

Variable fenv : string -> list T -> T.
Hypothesis fenv_spec : forall y, fenv "solve_sylvester" (cons y nil) == SylvInst.sylv E inv y.
Variable H : T.
Hypothesis H_zero : Zc H == SylvInst.H0 D k E.

Theorem inst_nh_wiring : nh_wiring fenv H.
Proof.
  constructor.
  - intros y y' Ey. unfold nsylv. rewrite !fenv_spec. apply (SylvInst.sylv_P (k := k) (D := D) E inv). exact Ey.
  - intros m y Hy. unfold nsylv. rewrite fenv_spec.
    apply (SylvInst.sylv_ord (keep_sym := keep_sym) (keep_blk := keep_blk) (cm_blk := cm_blk) E inv). exact Hy.
  - rewrite H_zero. apply (SylvInst.Sel_H0 (k := k) blk keep cm keep_sym keep_refl keep_blk cm_blk E).
  - intros x. unfold comm. rewrite H_zero. apply (SylvInst.Sel_comm_H0 (k := k) blk keep cm keep_sym keep_blk cm_blk E).
  - intros y. unfold nsylv, comm. rewrite H_zero, fenv_spec.
    apply (SylvInst.sylv_spec (k := k) blk keep cm keep_sym keep_blk cm_blk E inv inv_spec).
  - exact (sylv_left_inst D k blk keep cm keep_sym keep_blk cm_blk E inv inv_spec fenv H fenv_spec H_zero).
  - intros x. assert (E1 : comm (Zc H) (Sel x) == comm (SylvInst.H0 D k E) (Sel x)).
    { unfold comm. rewrite H_zero. reflexivity. }
    rewrite E1. apply central_H0.
Qed.
End InstNH.

(** transport between two concrete instances *)
Section InstTransportNH.
Context {R0 : Type} `{Rg : Ring R0} {CS : CStar R0}.
Variables D k : nat.
Variable blk : nat -> nat.
Variable keep : nat -> nat -> bool.
Variable cm : nat -> bool.
Hypothesis keep_sym : forall p q, keep p q = keep q p.
Hypothesis keep_refl : forall p, keep p p = true.
Hypothesis keep_blk : forall p q, keep p q = true -> blk p = blk q.
Hypothesis cm_blk : forall p q, blk p = blk q -> cm p = cm q.
Variable E : nat -> R0.
Variable inv : R0 -> R0.
Hypothesis inv_spec : forall p q, (p < D)%nat -> (q < D)%nat -> keep p q = false ->
                                  (E p - E q) * inv (E p - E q) == 1.
Hypothesis kept_equal : forall p q, (p < D)%nat -> (q < D)%nat -> keep p q = true -> E p == E q.
Variables D' k' : nat.
Variable blk' : nat -> nat.
Variable keep' : nat -> nat -> bool.
Variable cm' : nat -> bool.
Hypothesis keep_sym' : forall p q, keep' p q = keep' q p.
Hypothesis keep_refl' : forall p, keep' p p = true.
Hypothesis keep_blk' : forall p q, keep' p q = true -> blk' p = blk' q.
Hypothesis cm_blk' : forall p q, blk' p = blk' q -> cm' p = cm' q.
Variable E' : nat -> R0.
Variable inv' : R0 -> R0.
Hypothesis inv_spec' : forall p q, (p < D')%nat -> (q < D')%nat -> keep' p q = false ->
                                   (E' p - E' q) * inv' (E' p - E' q) == 1.
Hypothesis kept_equal' : forall p q, (p < D')%nat -> (q < D')%nat -> keep' p q = true -> E' p == E' q.

Local Notation B1 := (series_BlockAlg D k blk keep cm keep_sym keep_blk cm_blk).
Local Notation B2 := (series_BlockAlg D' k' blk' keep' cm' keep_sym' keep_blk' cm_blk').

Variable phi : T D k R0 -> T D' k' R0.
Hypothesis HS : SGHom (BA := B1) (BA' := B2) phi.
Hypothesis phi_Zc : forall x, phi (Zc (BlockAlg := B1) x) == Zc (BlockAlg := B2) (phi x).
Hypothesis phi_H0 : phi (SylvInst.H0 D k E) == SylvInst.H0 D' k' E'.

Variable gflag gflag' : string -> bool.
Variable rflag : string -> T D k R0 -> T D k R0.
Variable fenv : string -> list (T D k R0) -> T D k R0.
Variable rflag' : string -> T D' k' R0 -> T D' k' R0.
Variable fenv' : string -> list (T D' k' R0) -> T D' k' R0.
Hypothesis fenv_spec : forall y, fenv "solve_sylvester" (cons y nil) == SylvInst.sylv E inv y.
Hypothesis fenv_spec' : forall y, fenv' "solve_sylvester" (cons y nil) == SylvInst.sylv E' inv' y.
Variable sol : string -> T D k R0.
Variable sol' : string -> T D' k' R0.
Hypothesis Hsol : solution (BA := B1) gflag rflag fenv sol nonhermitian_alg.
Hypothesis Hsol' : solution (BA := B2) gflag' rflag' fenv' sol' nonhermitian_alg.
Hypothesis H_zero : Zc (BlockAlg := B1) (sol "H") == SylvInst.H0 D k E.
Hypothesis Hin : sol' "H" == phi (sol "H").

Lemma itn_zero' : Zc (BlockAlg := B2) (sol' "H") == SylvInst.H0 D' k' E'.
Proof.
  destruct HS as [hP _ _ _ _ _ _].
  rewrite Hin, <- phi_Zc, <- phi_H0. apply hP. exact H_zero.
Qed.

Theorem inst_transport_nh :
  sol' "U" == phi (sol "U") /\ sol' "U†" == phi (sol "U†") /\ sol' "H_tilde" == phi (sol "H_tilde").
Proof.
  apply (nh_outputs_transport (BA := B1) (BA' := B2) phi HS gflag gflag' rflag rflag' fenv fenv' sol sol' Hsol Hsol').
  - exact (inst_nh_wiring D k blk keep cm keep_sym keep_refl keep_blk cm_blk E inv inv_spec kept_equal fenv fenv_spec (sol "H") H_zero).
  - exact (inst_nh_wiring D' k' blk' keep' cm' keep_sym' keep_refl' keep_blk' cm_blk' E' inv' inv_spec' kept_equal' fenv' fenv_spec' (sol' "H") itn_zero').
  - exact Hin.
Qed.
End InstTransportNH.
