(** A concrete instance (3 basis states, blocks {0,1} and {2}, 2 parameters, rational
    coefficients) of the [BlockAlg] of Series/Inst.v, and the workflow of Series/Exec.v:
    an equation between denotations up to total order N is obtained from a [vm_compute]
    of [teqb] on tables, the [t*_den] lemmas and the congruence lemmas [eqN_*]. *)
Require Import List ZArith QArith Arith Ncring.
From PV.Base Require Import Classes.
From PV.Series Require Import MultiIndex Cauchy Lift Inst ExecIdx Exec.
From PV.Block Require Import Mat Masks CoefAlg BlockSel ExecScalar QLemmas QInst.
Import ListNotations.

Definition ex_blk (p : nat) : nat := (match p with 0 => 0 | 1 => 0 | _ => 1 end)%nat.
Definition ex_keep (p q : nat) : bool := Nat.eqb (ex_blk p) (ex_blk q).
Definition ex_cm (p : nat) : bool := true.
Lemma ex_keep_sym p q : ex_keep p q = ex_keep q p.
Proof. apply Nat.eqb_sym. Qed.
Lemma ex_keep_blk p q : ex_keep p q = true -> ex_blk p = ex_blk q.
Proof. apply Nat.eqb_eq. Qed.
Lemma ex_cm_blk p q : ex_blk p = ex_blk q -> ex_cm p = ex_cm q.
Proof. reflexivity. Qed.

Definition ex_BA : BlockAlg (T 3 2 Q) :=
  series_BlockAlg 3 2 ex_blk ex_keep ex_cm ex_keep_sym ex_keep_blk ex_cm_blk.

(** a Hermitian series with coefficients at orders (0,0), (1,0), (0,1) *)
Definition ex_a : tser Q :=
  [([0;0]%nat, [[1;0;0];[0;2;0];[0;0;3]]);
   ([1;0]%nat, [[0;1;1#2];[1;0;0];[1#2;0;0]]);
   ([0;1]%nat, [[1;0;0];[0;0;1];[0;1;0]])]%Q.

Example ex_mul_table :
  tmul 3 2 2 ex_a ex_a =
  [([0;0]%nat, [[1;0;0];[0;4;0];[0;0;9]]);
   ([0;1]%nat, [[2;0;0];[0;0;5];[0;5;0]]);
   ([0;2]%nat, [[1;0;0];[0;1;0];[0;0;1]]);
   ([1;0]%nat, [[0;3;2];[3;0;0];[2;0;0]]);
   ([1;1]%nat, [[0;3#2;3#2];[3#2;0;0];[3#2;0;0]]);
   ([2;0]%nat, [[5#4;0;0];[0;1;1#2];[0;1#2;1#4]])]%Q.
Proof. vm_compute. reflexivity. Qed.

Local Close Scope Q_scope.

(** associativity instance, up to total order 2, from a computation on tables *)
Example ex_assoc :
  eqN 3 2 2 (den 3 2 ex_a * (den 3 2 ex_a * den 3 2 ex_a))
            ((den 3 2 ex_a * den 3 2 ex_a) * den 3 2 ex_a).
Proof.
  assert (C : teqb 3 2 2 (tmul 3 2 2 ex_a (tmul 3 2 2 ex_a ex_a))
                         (tmul 3 2 2 (tmul 3 2 2 ex_a ex_a) ex_a) = true)
    by (vm_compute; reflexivity).
  apply teqb_sound in C.
  (* den (tmul a (tmul a a)) =N den a * (den a * den a), and symmetrically *)
  pose proof (eqN_trans (tmul_den (N := 2) ex_a (tmul 3 2 2 ex_a ex_a))
                        (eqN_mul (eqN_refl (N := 2) (den 3 2 ex_a)) (tmul_den (N := 2) ex_a ex_a))) as L.
  pose proof (eqN_trans (tmul_den (N := 2) (tmul 3 2 2 ex_a ex_a) ex_a)
                        (eqN_mul (tmul_den (N := 2) ex_a ex_a) (eqN_refl (N := 2) (den 3 2 ex_a)))) as R.
  exact (eqN_trans (eqN_sym L) (eqN_trans C R)).
Qed.

(** the half-sum agrees with the diagonal blocks of the product when the second factor is
    the adjoint of the first (computation; cf. [hsum_spec]) *)
Example ex_hsum :
  teqb 3 2 3
    (thsum 3 2 ex_blk 3 ex_a (tadj 3 2 ex_blk ex_keep ex_cm ex_keep_sym ex_keep_blk ex_cm_blk 3 ex_a))
    (tDg 3 2 ex_blk ex_keep ex_cm ex_keep_sym ex_keep_blk ex_cm_blk 3
         (tmul 3 2 3 ex_a (tadj 3 2 ex_blk ex_keep ex_cm ex_keep_sym ex_keep_blk ex_cm_blk 3 ex_a)))
  = true.
Proof. vm_compute. reflexivity. Qed.

Print Assumptions ex_assoc.

(** the hypotheses of the solver lemmas of Series/SylvInst.v are satisfiable: energies
    0, 1, 2 and the field inverse on Q *)
From PV.Series Require Import SylvInst.
Require Import Lia.
Definition ex_E (p : nat) : Q := inject_Z (Z.of_nat p).
Definition ex_inv (x : Q) : Q := Qinv x.

Lemma ex_inv_spec p q :
  (p < 3)%nat -> (q < 3)%nat -> ex_keep p q = false ->
  Qeq (Qmult (Qminus (ex_E p) (ex_E q)) (ex_inv (Qminus (ex_E p) (ex_E q)))) 1%Q.
Proof.
  intros Hp Hq.
  destruct p as [|[|[|p]]]; try lia; destruct q as [|[|[|q]]]; try lia;
    cbn; intros K; try discriminate; reflexivity.
Qed.

Local Existing Instance ex_BA.
Example ex_sylv_spec (y : T 3 2 Q) :
  let X := H0 3 2 ex_E * sylv ex_E ex_inv y - sylv ex_E ex_inv y * H0 3 2 ex_E in
  X - Sel X == y - Sel y.
Proof.
  exact (sylv_spec (k := 2) ex_blk ex_keep ex_cm ex_keep_sym ex_keep_blk ex_cm_blk ex_E ex_inv
                   ex_inv_spec y).
Qed.
Print Assumptions ex_sylv_spec.

(** the euclidean condition of Series/Wiring.v holds for this wiring (a) *)
Example ex_eucl : keep_eucl_on 3 ex_keep ex_cm.
Proof. exact (@keep_eucl_blocks 3 ex_blk ex_cm). Qed.

(** Gaussian rationals: sigma_y = [[0, -i], [i, 0]] is Hermitian and squares to 1 *)
Definition ey_blk (p : nat) : nat := p.
Definition ey_keep (p q : nat) : bool := Nat.eqb p q.
Definition ey_cm (p : nat) : bool := true.
Lemma ey_keep_sym p q : ey_keep p q = ey_keep q p. Proof. apply Nat.eqb_sym. Qed.
Lemma ey_keep_blk p q : ey_keep p q = true -> ey_blk p = ey_blk q. Proof. apply Nat.eqb_eq. Qed.
Lemma ey_cm_blk p q : ey_blk p = ey_blk q -> ey_cm p = ey_cm q. Proof. reflexivity. Qed.
Definition sigma_y : tser gq :=
  cons (cons 0%nat nil, [[(0, 0); (0, -1)]; [(0, 1); (0, 0)]]%Q) nil.
Example ex_sigma_y :
  teqb 2 1 3 (tadj 2 1 ey_blk ey_keep ey_cm ey_keep_sym ey_keep_blk ey_cm_blk 3 sigma_y) sigma_y
  && teqb 2 1 3 (tmul 2 1 3 sigma_y sigma_y) (tone 2 1 3) = true.
Proof. vm_compute. reflexivity. Qed.
