(** Multi-index formal power series over an [Ncring] ring, with the Cauchy product.

    [series k R := mi -> R]; two series are equal when they agree on every well-formed
    index (length k).  [conv f g n := sum over (a,b) in splits n of f a * g b].
    - [series_Ring]: the ring instance (associativity from the triple-splitting
      permutation of Series/MultiIndex.v);
    - [lift phi]: coefficient-wise application of a map of the coefficient ring;
    - [sord], [sZc]: filtration by total degree and order-zero coefficient. *)
Require Import Ncring Ncring_tac Setoid Morphisms List ZArith Permutation.
From PV.Base Require Import Classes BigSum.
From PV.Series Require Import MultiIndex.
Set Implicit Arguments.

Definition series (k : nat) (R : Type) : Type := mi -> R.

Section Cauchy.
Variable k : nat.
Context {R : Type} `{Rg : Ring R}.
Notation Ser := (series k R).

Definition seq_eq (f g : Ser) : Prop := forall n, length n = k -> f n == g n.
Definition szero : Ser := fun _ => 0.
Definition sone : Ser := fun n => if is_zero n then 1 else 0.
Definition sadd (f g : Ser) : Ser := fun n => f n + g n.
Definition ssub (f g : Ser) : Ser := fun n => f n - g n.
Definition sopp (f : Ser) : Ser := fun n => - f n.
Definition conv (f g : Ser) : Ser :=
  fun n => bigsum (fun p => f (fst p) * g (snd p)) (splits n).

Lemma seq_eq_Equivalence : Equivalence seq_eq.
Proof.
  split.
  - intros f n _. reflexivity.
  - intros f g H n Hn. symmetry. auto.
  - intros f g h H1 H2 n Hn. rewrite (H1 n Hn), (H2 n Hn). reflexivity.
Qed.

Lemma sadd_P : Proper (seq_eq ==> seq_eq ==> seq_eq) sadd.
Proof. intros f f' Hf g g' Hg n Hn. unfold sadd. rewrite (Hf n Hn), (Hg n Hn). reflexivity. Qed.
Lemma ssub_P : Proper (seq_eq ==> seq_eq ==> seq_eq) ssub.
Proof. intros f f' Hf g g' Hg n Hn. unfold ssub. rewrite (Hf n Hn), (Hg n Hn). reflexivity. Qed.
Lemma sopp_P : Proper (seq_eq ==> seq_eq) sopp.
Proof. intros f f' Hf n Hn. unfold sopp. rewrite (Hf n Hn). reflexivity. Qed.

Lemma conv_P : Proper (seq_eq ==> seq_eq ==> seq_eq) conv.
Proof.
  intros f f' Hf g g' Hg n Hn. unfold conv. apply bigsum_ext.
  intros (a, b) I. cbn [fst snd]. apply splits_length in I. destruct I as [La Lb].
  rewrite (Hf a), (Hg b) by congruence. reflexivity.
Qed.

Lemma sadd_0_l f : seq_eq (sadd szero f) f.
Proof. intros n _. unfold sadd, szero. non_commutative_ring. Qed.
Lemma sadd_comm f g : seq_eq (sadd f g) (sadd g f).
Proof. intros n _. unfold sadd. non_commutative_ring. Qed.
Lemma sadd_assoc f g h : seq_eq (sadd f (sadd g h)) (sadd (sadd f g) h).
Proof. intros n _. unfold sadd. non_commutative_ring. Qed.
Lemma ssub_def f g : seq_eq (ssub f g) (sadd f (sopp g)).
Proof. intros n _. unfold sadd, ssub, sopp. non_commutative_ring. Qed.
Lemma sopp_def f : seq_eq (sadd f (sopp f)) szero.
Proof. intros n _. unfold sadd, sopp, szero. non_commutative_ring. Qed.

Lemma conv_1_l f : seq_eq (conv sone f) f.
Proof.
  intros n Hn. unfold conv, sone.
  rewrite (@bigsum_single _ _ _ _ _ _ _ _ _ _ _
             (fun p : mi * mi => (if is_zero (fst p) then 1 else 0) * f (snd p))
             (mzero (length n), n)).
  - cbn [fst snd]. rewrite is_zero_mzero_k. non_commutative_ring.
  - apply nodup_splits.
  - apply splits_zero_l.
  - intros (a, b) I Hne. cbn [fst snd]. destruct (is_zero a) eqn:Z.
    + destruct (splits_zero_l_inv _ _ _ I Z). subst. now elim Hne.
    + non_commutative_ring.
Qed.

Lemma conv_1_r f : seq_eq (conv f sone) f.
Proof.
  intros n Hn. unfold conv, sone.
  rewrite (@bigsum_single _ _ _ _ _ _ _ _ _ _ _
             (fun p : mi * mi => f (fst p) * (if is_zero (snd p) then 1 else 0))
             (n, mzero (length n))).
  - cbn [fst snd]. rewrite is_zero_mzero_k. non_commutative_ring.
  - apply nodup_splits.
  - apply splits_zero_r.
  - intros (a, b) I Hne. cbn [fst snd]. destruct (is_zero b) eqn:Z.
    + destruct (splits_zero_r_inv _ _ _ I Z). subst. now elim Hne.
    + non_commutative_ring.
Qed.

Lemma conv_assoc f g h : seq_eq (conv f (conv g h)) (conv (conv f g) h).
Proof.
  intros n _. unfold conv.
  transitivity (bigsum (fun t : mi * mi * mi =>
                          f (fst (fst t)) * g (snd (fst t)) * h (snd t)) (trip1 n)).
  - unfold trip1. rewrite bigsum_flat_map. apply bigsum_ext. intros (a, bc) _. cbn [fst snd].
    rewrite bigsum_mul_l, bigsum_map. apply bigsum_ext. intros (b, c) _. cbn [fst snd].
    non_commutative_ring.
  - rewrite (bigsum_perm _ (trip_perm n)). unfold trip2. rewrite bigsum_flat_map.
    apply bigsum_ext. intros (ab, c) _. cbn [fst snd].
    rewrite bigsum_mul_r, bigsum_map. apply bigsum_ext. intros (a, b) _. cbn [fst snd].
    reflexivity.
Qed.

Lemma conv_distr_l f g h : seq_eq (conv (sadd f g) h) (sadd (conv f h) (conv g h)).
Proof.
  intros n _. unfold conv, sadd. rewrite <- bigsum_add. apply bigsum_ext.
  intros p _. non_commutative_ring.
Qed.

Lemma conv_distr_r f g h : seq_eq (conv h (sadd f g)) (sadd (conv h f) (conv h g)).
Proof.
  intros n _. unfold conv, sadd. rewrite <- bigsum_add. apply bigsum_ext.
  intros p _. non_commutative_ring.
Qed.

Global Instance series_ops : @Ring_ops Ser szero sone sadd conv ssub sopp seq_eq := {}.

Global Instance series_Ring : Ring (Ro := series_ops).
Proof.
  constructor.
  - exact seq_eq_Equivalence.
  - exact sadd_P.
  - exact conv_P.
  - exact ssub_P.
  - exact sopp_P.
  - exact sadd_0_l.
  - exact sadd_comm.
  - exact sadd_assoc.
  - exact conv_1_l.
  - exact conv_1_r.
  - exact conv_assoc.
  - exact conv_distr_l.
  - exact conv_distr_r.
  - exact ssub_def.
  - exact sopp_def.
Qed.

(** product with a series concentrated at order zero *)
Lemma conv_const_l (c f : Ser) n :
  (forall a, is_zero a = false -> c a == 0) ->
  conv c f n == c (mzero (length n)) * f n.
Proof.
  intros Hc. unfold conv.
  rewrite (@bigsum_single _ _ _ _ _ _ _ _ _ _ _
             (fun p : mi * mi => c (fst p) * f (snd p)) (mzero (length n), n)).
  - reflexivity.
  - apply nodup_splits.
  - apply splits_zero_l.
  - intros (a, b) I Hne. cbn [fst snd]. destruct (is_zero a) eqn:Z.
    + destruct (splits_zero_l_inv _ _ _ I Z). subst. now elim Hne.
    + rewrite (Hc a Z). non_commutative_ring.
Qed.

Lemma conv_const_r (c f : Ser) n :
  (forall a, is_zero a = false -> c a == 0) ->
  conv f c n == f n * c (mzero (length n)).
Proof.
  intros Hc. unfold conv.
  rewrite (@bigsum_single _ _ _ _ _ _ _ _ _ _ _
             (fun p : mi * mi => f (fst p) * c (snd p)) (n, mzero (length n))).
  - reflexivity.
  - apply nodup_splits.
  - apply splits_zero_r.
  - intros (a, b) I Hne. cbn [fst snd]. destruct (is_zero b) eqn:Z.
    + destruct (splits_zero_r_inv _ _ _ I Z). subst. now elim Hne.
    + rewrite (Hc b Z). non_commutative_ring.
Qed.

(** the swapped Cauchy sum *)
Lemma conv_swap f g n :
  conv f g n == bigsum (fun p => f (snd p) * g (fst p)) (splits n).
Proof.
  unfold conv. rewrite <- (bigsum_perm _ (splits_swap n)), bigsum_map.
  apply bigsum_ext. intros (a, b) _. reflexivity.
Qed.

(** coefficients of n-fold sums *)
Lemma nmul_coeff m (f : Ser) n : nmul m f n == nmul m (f n).
Proof.
  induction m as [|m IH]; cbn [nmul]. reflexivity.
  change ((f + nmul m f) n) with (f n + nmul m f n). rewrite IH. reflexivity.
Qed.

Lemma zmul_coeff z (f : Ser) n : zmul z f n == zmul z (f n).
Proof.
  destruct z; cbn [zmul]. reflexivity. apply nmul_coeff.
  change ((- nmul (Pos.to_nat p) f) n) with (- nmul (Pos.to_nat p) f n).
  rewrite nmul_coeff. reflexivity.
Qed.

(** * coefficient-wise maps *)
Definition lift (phi : R -> R) (f : Ser) : Ser := fun n => phi (f n).

Lemma lift_P phi : Proper (_==_ ==> _==_) phi -> Proper (seq_eq ==> seq_eq) (lift phi).
Proof. intros HP f g H n Hn. unfold lift. apply HP. auto. Qed.

Global Instance lift_am (phi : R -> R) {AM : AddMap phi} : AddMap (lift phi).
Proof.
  split.
  - apply lift_P. apply am_P.
  - intros f g n _. exact (am_add (f n) (g n)).
  - intros f n _. exact (am_opp (f n)).
Qed.

Lemma am_zero (phi : R -> R) {AM : AddMap phi} : phi 0 == 0.
Proof. apply additive_zero. apply am_add. apply am_P. Qed.
Arguments am_zero phi {AM}.

Lemma am_sub (phi : R -> R) {AM : AddMap phi} x y : phi (x - y) == phi x - phi y.
Proof.
  transitivity (phi (x + - y)). apply am_P. non_commutative_ring.
  rewrite am_add, am_opp. non_commutative_ring.
Qed.
Arguments am_sub phi {AM} x y.

Lemma am_bigsum (phi : R -> R) {AM : AddMap phi} {A} (F : A -> R) l :
  phi (bigsum F l) == bigsum (fun a => phi (F a)) l.
Proof. apply bigsum_morph. apply (am_zero phi). apply am_add. apply am_P. Qed.
Arguments am_bigsum phi {AM} {A} F l.

(** pointwise identities lift *)
Lemma lift_ext phi psi (f : Ser) :
  (forall x, phi x == psi x) -> seq_eq (lift phi f) (lift psi f).
Proof. intros H n _. apply H. Qed.

Lemma lift_lift phi psi (f : Ser) : seq_eq (lift phi (lift psi f)) (lift (fun x => phi (psi x)) f).
Proof. intros n _. reflexivity. Qed.

Lemma lift_one (phi : R -> R) {AM : AddMap phi} : phi 1 == 1 -> seq_eq (lift phi sone) sone.
Proof.
  intros H n _. unfold lift, sone. destruct (is_zero n). exact H. apply (am_zero phi).
Qed.

(** multiplicative laws lift through the Cauchy sum *)
Lemma lift_conv (phi : R -> R) {AM : AddMap phi} (F G : Ser) n :
  lift phi (conv F G) n == bigsum (fun p => phi (F (fst p) * G (snd p))) (splits n).
Proof. unfold lift, conv. apply (am_bigsum phi). Qed.

Lemma lift_conv_closed (phi : R -> R) {AM : AddMap phi} (F G : Ser) :
  (forall a b, length a = k -> length b = k -> phi (F a * G b) == F a * G b) ->
  seq_eq (lift phi (conv F G)) (conv F G).
Proof.
  intros H n Hn. rewrite (lift_conv (AM := AM)). unfold conv. apply bigsum_ext.
  intros (a, b) I. cbn [fst snd]. apply splits_length in I. destruct I.
  apply H; congruence.
Qed.

Lemma conv_zero_terms (F G : Ser) :
  (forall a b, length a = k -> length b = k -> F a * G b == 0) ->
  seq_eq (conv F G) szero.
Proof.
  intros H n Hn. unfold conv, szero. apply bigsum_zero.
  intros (a, b) I. cbn [fst snd]. apply splits_length in I. destruct I.
  apply H; congruence.
Qed.

(** * filtration by total degree, order-zero coefficient *)
Definition sord (m : nat) (f : Ser) : Prop :=
  forall n, length n = k -> (deg n < m)%nat -> f n == 0.
Definition sZc (f : Ser) : Ser := fun n => if is_zero n then f n else 0.

Lemma sord_P m : Proper (seq_eq ==> iff) (sord m).
Proof.
  intros f g H. split; intros Hf n Hn Hd.
  - rewrite <- (H n Hn). auto.
  - rewrite (H n Hn). auto.
Qed.

Lemma sord_O f : sord O f.
Proof. intros n _ H. inversion H. Qed.

Lemma sord_S m f : sord (S m) f -> sord m f.
Proof. intros H n Hn Hd. apply H; auto. Qed.

Lemma sord_le m m' f : (m <= m')%nat -> sord m' f -> sord m f.
Proof. intros Hle H n Hn Hd. apply H; auto. eapply Nat.lt_le_trans; eauto. Qed.

Lemma sord_zero m : sord m szero.
Proof. intros n _ _. reflexivity. Qed.

Lemma sord_add m f g : sord m f -> sord m g -> sord m (sadd f g).
Proof. intros Hf Hg n Hn Hd. unfold sadd. rewrite Hf, Hg; auto. non_commutative_ring. Qed.

Lemma sord_opp m f : sord m f -> sord m (sopp f).
Proof. intros Hf n Hn Hd. unfold sopp. rewrite Hf; auto. non_commutative_ring. Qed.

Lemma sord_mul a b f g : sord a f -> sord b g -> sord (Nat.add a b) (conv f g).
Proof.
  intros Hf Hg n Hn Hd. unfold conv. apply bigsum_zero. intros (x, y) I. cbn [fst snd].
  pose proof (splits_deg _ _ _ I) as E. apply splits_length in I. destruct I as [Lx Ly].
  destruct (Nat.lt_ge_cases (deg x) a) as [Hx|Hx].
  - rewrite Hf; auto. non_commutative_ring. congruence.
  - rewrite (Hg y). non_commutative_ring. congruence.
    rewrite <- E in Hd. eapply Nat.add_lt_mono_l.
    eapply Nat.le_lt_trans. 2: exact Hd. apply Nat.add_le_mono_r. exact Hx.
Qed.

Lemma sord_sep f : (forall m, sord m f) -> seq_eq f szero.
Proof. intros H n Hn. apply (H (S (deg n))); auto. Qed.

Lemma sord_lift (phi : R -> R) {AM : AddMap phi} m f : sord m f -> sord m (lift phi f).
Proof.
  intros H n Hn Hd. unfold lift. rewrite (H n Hn Hd). apply (am_zero phi).
Qed.

Lemma sZc_P : Proper (seq_eq ==> seq_eq) sZc.
Proof. intros f g H n Hn. unfold sZc. destruct (is_zero n). auto. reflexivity. Qed.

Global Instance sZc_am : AddMap sZc.
Proof.
  split. exact sZc_P.
  - intros f g n _.
    change ((if is_zero n then f n + g n else 0)
            == (if is_zero n then f n else 0) + (if is_zero n then g n else 0)).
    destruct (is_zero n); non_commutative_ring.
  - intros f n _.
    change ((if is_zero n then - f n else 0) == - (if is_zero n then f n else 0)).
    destruct (is_zero n); non_commutative_ring.
Qed.

Lemma sZc_mul f g : seq_eq (sZc (conv f g)) (conv (sZc f) (sZc g)).
Proof.
  intros n Hn. unfold sZc at 1. unfold conv. destruct (is_zero n) eqn:Z.
  - apply bigsum_ext. intros (a, b) I. cbn [fst snd]. unfold sZc.
    rewrite (splits_is_zero _ _ _ I) in Z. apply andb_prop in Z. destruct Z as [-> ->].
    reflexivity.
  - symmetry. apply bigsum_zero. intros (a, b) I. cbn [fst snd]. unfold sZc.
    rewrite (splits_is_zero _ _ _ I) in Z.
    destruct (is_zero a), (is_zero b); try discriminate; non_commutative_ring.
Qed.

Lemma sZc_one : seq_eq (sZc sone) sone.
Proof. intros n _. unfold sZc, sone. destruct (is_zero n); reflexivity. Qed.

Lemma sZc_idem f : seq_eq (sZc (sZc f)) (sZc f).
Proof. intros n _. unfold sZc. destruct (is_zero n); reflexivity. Qed.

Lemma sZc_ord f : sord 1 f <-> seq_eq (sZc f) szero.
Proof.
  split.
  - intros H n Hn. unfold sZc, szero. destruct (is_zero n) eqn:Z; [|reflexivity].
    apply H; auto. apply is_zero_deg in Z. rewrite Z. constructor.
  - intros H n Hn Hd. specialize (H n Hn). unfold sZc, szero in H.
    assert (Z : is_zero n = true).
    { apply is_zero_deg. inversion Hd; auto. inversion H1. }
    now rewrite Z in H.
Qed.

Lemma sZc_lift (phi : R -> R) {AM : AddMap phi} f : seq_eq (sZc (lift phi f)) (lift phi (sZc f)).
Proof.
  intros n _. unfold sZc, lift. destruct (is_zero n). reflexivity.
  symmetry. apply (am_zero phi).
Qed.

End Cauchy.

Arguments am_zero {R ring0 ring1 add mul sub opp ring_eq Ro Rg} phi {AM}.
Arguments am_sub {R ring0 ring1 add mul sub opp ring_eq Ro Rg} phi {AM} x y.
Arguments am_bigsum {R ring0 ring1 add mul sub opp ring_eq Ro Rg} phi {AM} {A} F l.
Arguments lift_conv_closed [k] {R ring0 ring1 add mul sub opp ring_eq Ro Rg} phi {AM} F G _ n _.
Arguments lift_conv [k] {R ring0 ring1 add mul sub opp ring_eq Ro Rg} phi {AM} F G n.
Arguments lift_one [k] {R ring0 ring1 add mul sub opp ring_eq Ro Rg} phi {AM} _ n _.
Arguments sord_lift [k] {R ring0 ring1 add mul sub opp ring_eq Ro Rg} phi {AM} [m f] _ n _ _.
Arguments sZc_lift [k] {R ring0 ring1 add mul sub opp ring_eq Ro Rg} phi {AM} f n _.
