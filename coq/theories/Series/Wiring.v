(** Wiring facts of block_diagonalize in the concrete [BlockAlg] of Series/Inst.v:

    - [comm_sound_l], [comm_sound_r]: on the rows flagged commuting_blocks, a product of an
      eliminated part and a kept part has no kept part - provided the kept mask is
      "euclidean" on those rows ([keep_eucl_on], Block/Masks.v, with the three wirings
      under which it holds: [keep_eucl_blocks], [keep_eucl_equiv], [keep_eucl_flagged]);
    - the parity laws of the block-triangular parts when there are exactly two blocks. *)
Require Import Ncring Ncring_tac Setoid Morphisms List ZArith.
From PV.Base Require Import Classes BigSum AlgLemmas.
From PV.Series Require Import MultiIndex Cauchy Lift Inst.
From PV.Block Require Import Mat Masks CoefAlg BlockSel.
Set Implicit Arguments.

Section Wiring.
Variables D k : nat.
Context {R0 : Type} `{Rg : Ring R0} {CS : CStar R0}.
Variable blk : nat -> nat.
Variable keep : nat -> nat -> bool.
Variable cm : nat -> bool.
Hypothesis keep_sym : forall p q, keep p q = keep q p.
Hypothesis keep_refl : forall p, keep p p = true.
Hypothesis keep_blk : forall p q, keep p q = true -> blk p = blk q.
Hypothesis cm_blk : forall p q, blk p = blk q -> cm p = cm q.

Local Notation T := (T D k R0).
(* typeclass resolution produces the literal instance term of Series/Inst.v *)
Local Hint Extern 0 (BlockAlg _) =>
  exact (series_BlockAlg D k blk keep cm keep_sym keep_blk cm_blk) : typeclass_instances.

(** * commuting rows *)
Section CommSound.
Hypothesis keep_eucl : keep_eucl_on D keep cm.

Lemma comm_sound_l (x y : T) : Rw (Sel (Rp x * Sel y)) == 0.
Proof.
  intros n Hn p q Hp Hq. rewrite Rw_entry, Sel_entry.
  destruct (cm p) eqn:C; [|reflexivity]. destruct (keep p q) eqn:K; [|reflexivity].
  rewrite (mul_entry (Rg := Rg)). apply bigsum_zero. intros (a, b) _. apply bigsum_zero.
  intros r Hr. apply in_range in Hr. cbn [fst snd].
  unfold Rp. rewrite sub_entry, !Sel_entry.
  destruct (keep r q) eqn:K2; [|non_commutative_ring].
  rewrite (keep_eucl Hp Hq Hr C K K2). non_commutative_ring.
Qed.

Lemma comm_sound_r (x y : T) : Rw (Sel (Sel y * Rp x)) == 0.
Proof.
  intros n Hn p q Hp Hq. rewrite Rw_entry, Sel_entry.
  destruct (cm p) eqn:C; [|reflexivity]. destruct (keep p q) eqn:K; [|reflexivity].
  rewrite (mul_entry (Rg := Rg)). apply bigsum_zero. intros (a, b) _. apply bigsum_zero.
  intros r Hr. apply in_range in Hr. cbn [fst snd].
  unfold Rp. rewrite sub_entry, !Sel_entry.
  destruct (keep p r) eqn:K2; [|non_commutative_ring].
  assert (K3 : keep r q = true).
  { apply (keep_eucl (p := r) (q := p) (r := q)); auto.
    - rewrite <- C. symmetry. apply cm_blk. now apply keep_blk.
    - now rewrite keep_sym.
    - now rewrite keep_sym. }
  rewrite K3. non_commutative_ring.
Qed.
End CommSound.

(** * products of block parts *)
Local Notation eqT := (seq_eq (k := k) (R := mat D R0)).
Local Notation cv := (conv (k := k) (R := mat D R0)).
Local Notation lf m := (lift (k := k) (mmask (D := D) m)).

Lemma Dg_Dg_closed (x y : T) : Dg (Dg x * Dg y) == Dg x * Dg y.
Proof.
  change (eqT (lf (dgm blk) (cv (lf (dgm blk) x) (lf (dgm blk) y)))
              (cv (lf (dgm blk) x) (lf (dgm blk) y))).
  apply (lift_conv_closed (mmask (D := D) (dgm blk))). intros a b _ _. unfold lift.
  apply (mmask_mul_closed (Rg := Rg)). intros i r j _ _ _. apply dgm_dgm.
Qed.

Lemma Up_Dg_Up (x y : T) : Up (Dg x * Up y) == Dg x * Up y.
Proof.
  change (eqT (lf (upm blk) (cv (lf (dgm blk) x) (lf (upm blk) y)))
              (cv (lf (dgm blk) x) (lf (upm blk) y))).
  apply (lift_conv_closed (mmask (D := D) (upm blk))). intros a b _ _. unfold lift.
  apply (mmask_mul_closed (Rg := Rg)). intros i r j _ _ _. apply dgm_upm.
Qed.

Lemma Up_Up_Dg (x y : T) : Up (Up x * Dg y) == Up x * Dg y.
Proof.
  change (eqT (lf (upm blk) (cv (lf (upm blk) x) (lf (dgm blk) y)))
              (cv (lf (upm blk) x) (lf (dgm blk) y))).
  apply (lift_conv_closed (mmask (D := D) (upm blk))). intros a b _ _. unfold lift.
  apply (mmask_mul_closed (Rg := Rg)). intros i r j _ _ _. apply upm_dgm.
Qed.

Lemma Lo_Dg_Lo (x y : T) : Lo (Dg x * Lo y) == Dg x * Lo y.
Proof.
  change (eqT (lf (lom blk) (cv (lf (dgm blk) x) (lf (lom blk) y)))
              (cv (lf (dgm blk) x) (lf (lom blk) y))).
  apply (lift_conv_closed (mmask (D := D) (lom blk))). intros a b _ _. unfold lift.
  apply (mmask_mul_closed (Rg := Rg)). intros i r j _ _ _. apply dgm_lom.
Qed.

Lemma Lo_Lo_Dg (x y : T) : Lo (Lo x * Dg y) == Lo x * Dg y.
Proof.
  change (eqT (lf (lom blk) (cv (lf (lom blk) x) (lf (dgm blk) y)))
              (cv (lf (lom blk) x) (lf (dgm blk) y))).
  apply (lift_conv_closed (mmask (D := D) (lom blk))). intros a b _ _. unfold lift.
  apply (mmask_mul_closed (Rg := Rg)). intros i r j _ _ _. apply lom_dgm.
Qed.

(** ** exactly two blocks *)
Section TwoBlocks.
Hypothesis two_blocks : forall p, (p < D)%nat -> (blk p < 2)%nat.

Lemma Up_Up_zero (x y : T) : Up x * Up y == 0.
Proof.
  change (eqT (cv (lf (upm blk) x) (lf (upm blk) y)) (szero k)).
  apply (conv_zero_terms (Rg := mat_Ring D)). intros a b _ _. unfold lift.
  apply (mmask_mul_zero (Rg := Rg)). intros i r j. now apply upm_upm2.
Qed.

Lemma Lo_Lo_zero (x y : T) : Lo x * Lo y == 0.
Proof.
  change (eqT (cv (lf (lom blk) x) (lf (lom blk) y)) (szero k)).
  apply (conv_zero_terms (Rg := mat_Ring D)). intros a b _ _. unfold lift.
  apply (mmask_mul_zero (Rg := Rg)). intros i r j. now apply lom_lom2.
Qed.

Lemma Dg_Up_Lo (x y : T) : Dg (Up x * Lo y) == Up x * Lo y.
Proof.
  change (eqT (lf (dgm blk) (cv (lf (upm blk) x) (lf (lom blk) y)))
              (cv (lf (upm blk) x) (lf (lom blk) y))).
  apply (lift_conv_closed (mmask (D := D) (dgm blk))). intros a b _ _. unfold lift.
  apply (mmask_mul_closed (Rg := Rg)). intros i r j. now apply upm_lom2.
Qed.

Lemma Dg_Lo_Up (x y : T) : Dg (Lo x * Up y) == Lo x * Up y.
Proof.
  change (eqT (lf (dgm blk) (cv (lf (lom blk) x) (lf (upm blk) y)))
              (cv (lf (lom blk) x) (lf (upm blk) y))).
  apply (lift_conv_closed (mmask (D := D) (dgm blk))). intros a b _ _. unfold lift.
  apply (mmask_mul_closed (Rg := Rg)). intros i r j. now apply lom_upm2.
Qed.
End TwoBlocks.

End Wiring.
