(** C15, complex conjugation: entry-wise conjugation (NOT transposed) of every coefficient is an
    [LAHom] of the concrete algebra (D, k, blk, keep, cm) to itself; it fixes H_0 when the
    unperturbed energies are real.  Hence conjugating the Hamiltonian conjugates H_tilde, U, U†. *)
Require Import Ncring Ncring_tac Setoid Morphisms List ZArith String.
From PV.Base Require Import Classes BigSum AlgLemmas.
From PV.Series Require Import MultiIndex Cauchy Lift Inst SylvInst Wiring SymBase.
From PV.Block Require Import Mat Masks CoefAlg BlockSel.
From PV.DSL Require Import Syntax Sem.
From PV.Gen Require Import Algorithms_gen.
From PV.Alg Require Import MainLift MainCorrect Unique Equivariance MainInst.
Open Scope string_scope.

Section Conj.
Variables D k : nat.
Context {R0 : Type} `{Rg : Ring R0} {CS : CStar R0}.
Variable blk : nat -> nat.
Variable keep : nat -> nat -> bool.
Variable cm : nat -> bool.
Hypothesis keep_sym : forall p q, keep p q = keep q p.
Hypothesis keep_refl : forall p, keep p p = true.
Hypothesis keep_blk : forall p q, keep p q = true -> blk p = blk q.
Hypothesis cm_blk : forall p q, blk p = blk q -> cm p = cm q.
Local Notation T := (T D k R0).
Local Notation BA := (series_BlockAlg D k blk keep cm keep_sym keep_blk cm_blk).
Local Hint Extern 0 (BlockAlg _) => exact BA : typeclass_instances.

Definition cconj (x : T) : T := fun n p q => conj (x n p q).

Lemma cconj_P : Proper (_==_ ==> _==_) cconj.
Proof. intros x y H n Hn p q Hp Hq. unfold cconj. rewrite (H n Hn p q Hp Hq). reflexivity. Qed.

Lemma cconj_mul (x y : T) : cconj (x * y) == cconj x * cconj y.
Proof.
  intros n Hn p q Hp Hq. unfold cconj at 1. rewrite !(mul_entry (Rg := Rg)).
  rewrite (bigsum_morph (phi := conj) _ _ conj_zero conj_add conj_P).
  apply bigsum_ext. intros ab _.
  rewrite (bigsum_morph (phi := conj) _ _ conj_zero conj_add conj_P).
  apply bigsum_ext. intros r _. unfold cconj. apply conj_mul.
Qed.

Lemma cconj_LAHom : LAHom (BA := BA) (BA' := BA) cconj.
Proof.
  apply mkLAHom.
  - exact cconj_P.
  - intros x y n Hn p q Hp Hq. exact (conj_add (x n p q) (y n p q)).
  - intros x n Hn p q Hp Hq. exact (conj_opp (x n p q)).
  - intros n Hn p q Hp Hq. unfold cconj. rewrite one_entry.
    destruct (is_zero n). destruct (Nat.eqb p q). apply conj_one. apply conj_zero. apply conj_zero.
  - exact cconj_mul.
  - intros x n Hn p q Hp Hq. reflexivity.
  - intros x n Hn p q Hp Hq. unfold cconj. rewrite !Sel_entry.
    destruct (keep p q). reflexivity. apply conj_zero.
  - intros m x Hx. apply ord_iff. intros n p q Hn Hd Hp Hq. unfold cconj.
    rewrite (proj1 (ord_iff blk keep cm keep_sym keep_blk cm_blk m x) Hx n p q Hn Hd Hp Hq).
    apply conj_zero.
Qed.

Lemma cconj_Zc (x : T) : cconj (Zc x) == Zc (cconj x).
Proof.
  intros n Hn p q Hp Hq. unfold cconj at 1. rewrite !Zc_entry.
  destruct (is_zero n). reflexivity. apply conj_zero.
Qed.

Variable E : nat -> R0.
Hypothesis E_real : forall p, conj (E p) == E p.

Lemma cconj_H0 : cconj (H0 D k E) == SylvInst.H0 D k E.
Proof.
  intros n Hn p q Hp Hq. unfold cconj, H0. destruct (is_zero n).
  - unfold mdiag. destruct (Nat.eqb p q). apply E_real. apply conj_zero.
  - apply conj_zero.
Qed.

(** covariance: conjugating the input conjugates the three outputs *)
Hypothesis keep_eucl : keep_eucl_on D keep cm.
Variable inv : R0 -> R0.
Hypothesis inv_spec : forall p q, (p < D)%nat -> (q < D)%nat -> keep p q = false ->
                                  (E p - E q) * inv (E p - E q) == 1.
Hypothesis inv_P : Proper (_==_ ==> _==_) inv.
Hypothesis inv_opp : forall x, inv (- x) == - inv x.
Hypothesis inv_conj : forall x, conj (inv x) == inv (conj x).

Variable rflag rflag' : string -> T -> T.
Variable fenv fenv' : string -> list T -> T.
Hypothesis rflag_spec : forall x, rflag "commuting_blocks" x == Rw x.
Hypothesis fenv_spec : forall y, fenv "solve_sylvester" (cons y nil) == SylvInst.sylv E inv y.
Hypothesis rflag_spec' : forall x, rflag' "commuting_blocks" x == Rw x.
Hypothesis fenv_spec' : forall y, fenv' "solve_sylvester" (cons y nil) == SylvInst.sylv E inv y.
Variable sol sol' : string -> T.
Hypothesis Hsol : solution (gflag_of false) rflag fenv sol main_alg.
Hypothesis Hsol' : solution (gflag_of false) rflag' fenv' sol' main_alg.
Hypothesis H_herm : adj (sol "H") == sol "H".
Hypothesis H_zero : Zc (sol "H") == SylvInst.H0 D k E.
Hypothesis Hin : sol' "H" == cconj (sol "H").

Theorem conj_covariant :
  sol' "U" == cconj (sol "U") /\ sol' "U†" == cconj (sol "U†") /\ sol' "H_tilde" == cconj (sol "H_tilde").
Proof.
  exact (inst_transport D k blk keep cm keep_sym keep_refl keep_blk cm_blk keep_eucl E inv inv_spec
           E_real inv_P inv_opp inv_conj
           D k blk keep cm keep_sym keep_refl keep_blk cm_blk keep_eucl E inv inv_spec
           E_real inv_P inv_opp inv_conj
           cconj cconj_LAHom cconj_Zc cconj_H0 rflag fenv rflag' fenv' rflag_spec fenv_spec
           rflag_spec' fenv_spec' sol sol' Hsol Hsol' H_herm H_zero Hin).
Qed.
End Conj.
