(** A concrete non-trivial element of the Fock-space [BlockAlg] of Series/InstRCF.v, over Q,
    one perturbation parameter:  H = N + lambda (a + a†)  where N = diag(0,1,2,...) is the
    number operator and a is the annihilator in the unnormalised basis
    (entry (i, i+1) = i+1).  One block, fully diagonalising mask (keep p q := p =? q),
    field inverse as solver.  All the wiring hypotheses of [rcf_wiring] hold for it. *)
Require Import Ncring Ncring_tac Setoid Morphisms List ZArith QArith String.
From PV.Base Require Import Classes BigSum AlgLemmas.
From PV.Series Require Import MultiIndex Cauchy Lift InstRCF.
From PV.Block Require Import Mat Masks CoefAlg RCFIdx RCF RCFSel QLemmas QInst.
From PV.DSL Require Import Syntax Sem.
From PV.Alg Require Import MainLift MainCorrect.
Local Close Scope Q_scope.

Definition fx_blk (p : nat) : nat := O.
Definition fx_keep (p q : nat) : bool := Nat.eqb p q.
Definition fx_cm (p : nat) : bool := true.
Lemma fx_keep_sym p q : fx_keep p q = fx_keep q p. Proof. apply Nat.eqb_sym. Qed.
Lemma fx_keep_refl p : fx_keep p p = true. Proof. apply Nat.eqb_refl. Qed.
Lemma fx_keep_blk p q : fx_keep p q = true -> fx_blk p = fx_blk q. Proof. reflexivity. Qed.
Lemma fx_cm_blk p q : fx_blk p = fx_blk q -> fx_cm p = fx_cm q. Proof. reflexivity. Qed.
Lemma fx_keep_eucl p q r :
  fx_cm p = true -> fx_keep p q = true -> fx_keep r q = true -> fx_keep p r = true.
Proof.
  unfold fx_keep. intros _ H1 H2. apply Nat.eqb_eq in H1, H2. apply Nat.eqb_eq. congruence.
Qed.

Definition fx_E (p : nat) : Q := inject_Z (Z.of_nat p).
Definition fx_inv (x : Q) : Q := Qinv x.

Lemma fx_inv_spec p q :
  fx_keep p q = false -> (fx_E p - fx_E q) * fx_inv (fx_E p - fx_E q) == 1.
Proof. intros H. apply Nat.eqb_neq in H. exact (@q_diff_inv p q H). Qed.
Lemma fx_E_real p : conj (fx_E p) == fx_E p. Proof. reflexivity. Qed.
Lemma fx_inv_P : Proper (_==_ ==> _==_) fx_inv. Proof. exact Qinv_comp. Qed.
Lemma fx_inv_opp x : fx_inv (- x) == - fx_inv x. Proof. exact (q_inv_opp x). Qed.
Lemma fx_inv_conj x : conj (fx_inv x) == fx_inv (conj x). Proof. reflexivity. Qed.

(** the annihilator: row i has its only entry in column i+1 *)
Lemma annih_rb_ok i j :
  (S i < j)%nat -> (if Nat.eqb j (S i) then inject_Z (Z.of_nat j) else 0%Q) == 0.
Proof. intros H. rewrite (gt_neqb H). reflexivity. Qed.
Lemma annih_cb_ok j i :
  (j < i)%nat -> (if Nat.eqb j (S i) then inject_Z (Z.of_nat j) else 0%Q) == 0.
Proof. intros H. rewrite (lt_neqb (Nat.lt_lt_succ_r _ _ H)). reflexivity. Qed.
Definition annih : rcf Q :=
  @mk_rcf Q _ _ _ _ _ _ _ _
          (fun i j => if Nat.eqb j (S i) then inject_Z (Z.of_nat j) else 0%Q)
          (fun i => S i) (fun j => j) annih_rb_ok annih_cb_ok.

Notation fx_BA := (rcf_BlockAlg 1 fx_blk fx_keep fx_cm fx_keep_sym fx_keep_blk fx_cm_blk).
Global Hint Extern 0 (BlockAlg (TF 1 Q)) => exact fx_BA : typeclass_instances.

Definition fx_H : TF 1 Q :=
  fun n => match n with
           | cons O nil => rdiag fx_E
           | cons (S O) nil => radd annih (radj annih)
           | _ => rzero
           end.

Definition fx_rflag (s : string) (x : TF 1 Q) : TF 1 Q := Rw x.
Definition fx_fenv (s : string) (l : list (TF 1 Q)) : TF 1 Q :=
  sylvF fx_E fx_inv (List.hd 0 l).

Lemma fx_H_herm : adj fx_H == fx_H.
Proof.
  intros n Hn p q. rewrite (Fadj_entry (k := 1)).
  destruct n as [|[|[|d]] [|? ?]]; try discriminate; cbn [fx_H].
  - exact (adj_H0F (k := 1) fx_blk fx_keep fx_cm fx_keep_sym fx_keep_blk fx_cm_blk fx_E
                   fx_E_real (cons O nil) eq_refl p q).
  - cbn [ent radd radj]. apply Qplus_comm.
  - reflexivity.
Qed.

Lemma fx_H_zero : Zc fx_H == H0F 1 fx_E.
Proof.
  intros n Hn p q. rewrite (FZc_entry (k := 1)).
  destruct n as [|[|[|d]] [|? ?]]; try discriminate; reflexivity.
Qed.

Lemma fx_wiring : wiring fx_rflag fx_fenv fx_H.
Proof.
  eapply (rcf_wiring (k := 1) (blk := fx_blk) (keep := fx_keep) (cm := fx_cm)
                     fx_keep_refl (E := fx_E) (inv := fx_inv)).
  - exact fx_inv_spec.
  - exact fx_E_real.
  - exact fx_inv_P.
  - exact fx_inv_opp.
  - exact fx_inv_conj.
  - exact fx_keep_eucl.
  - intros x. reflexivity.
  - intros y. reflexivity.
  - exact fx_H_herm.
  - exact fx_H_zero.
Qed.

(** H is not trivial: <0| H_1 |1> = 1 and <1| H_0 |1> = 1, and the first-order coefficient
    is entirely eliminated (off the kept mask) *)
Lemma fx_nontrivial :
  ent (fx_H (cons 1%nat nil)) 0 1 == 1 /\ ent (fx_H (cons 0%nat nil)) 1 1 == 1
  /\ ~ (ent (fx_H (cons 1%nat nil)) 0 1 == 0).
Proof. repeat split. intros H. discriminate H. Qed.
