(** A second concrete [BlockAlg], parallel to Series/Inst.v: multi-index formal power
    series in k parameters whose coefficients are row- and column-finite INFINITE matrices
    over a commutative star-ring R0 (Block/RCF.v) - operators on a countable (Fock) basis,
    e.g. all polynomials in creation / annihilation operators - with the Cauchy product, a
    block labelling [blk] of the basis, a mask [keep] and a per-block flag [cm].

    - [rcf_BlockAlg]: the instance (Series/Lift.v applied to [rcf_CoefAlg]);
    - [F*_entry]: what every structure map is on the entry (p,q) of the coefficient n;
    - the entry-wise diagonal Sylvester solver on H0 = diag(E) and its laws;
    - [Fcomm_sound_l/r]; [rcf_wiring]: the wiring hypotheses of Alg/MainCorrect.v hold. *)
Require Import Ncring Ncring_tac Setoid Morphisms List ZArith String.
From PV.Base Require Import Classes BigSum AlgLemmas.
From PV.Series Require Import MultiIndex Cauchy Lift.
From PV.Block Require Import Mat Masks CoefAlg RCFIdx RCF RCFSel.
From PV.DSL Require Import Syntax Sem.
From PV.Gen Require Import Algorithms_gen.
From PV.Alg Require Import MainLift MainCorrect.
Set Implicit Arguments.

Definition TF (k : nat) (R0 : Type) {r0 r1 : R0} {add mul sub : R0 -> R0 -> R0}
           {opp : R0 -> R0} {req : R0 -> R0 -> Prop}
           {Ro : @Ring_ops R0 r0 r1 add mul sub opp req} : Type :=
  series k (rcf R0).
Arguments TF k R0 {_ _ _ _ _ _ _ _}.

Section InstRCF.
Variable k : nat.
Context {R0 : Type} `{Rg : Ring R0} {CS : CStar R0}.
Variable blk : nat -> nat.
Variable keep : nat -> nat -> bool.
Variable cm : nat -> bool.
Hypothesis keep_sym : forall p q, keep p q = keep q p.
Hypothesis keep_refl : forall p, keep p p = true.
Hypothesis keep_blk : forall p q, keep p q = true -> blk p = blk q.
Hypothesis cm_blk : forall p q, blk p = blk q -> cm p = cm q.

Local Notation T := (TF k R0).

Definition TF_CoefAlg : CoefAlg (rcf R0) := rcf_CoefAlg blk keep cm keep_sym keep_blk cm_blk.

Global Instance rcf_BlockAlg : BlockAlg T := series_BlockAlg_gen k (CA := TF_CoefAlg).

Local Hint Extern 0 (BlockAlg _) => exact rcf_BlockAlg : typeclass_instances.

(** equality of T: all entries of all coefficients of well-formed multi-orders *)
Lemma TF_eq_entry (x y : T) :
  x == y <-> forall n p q, List.length n = k -> ent (x n) p q == ent (y n) p q.
Proof. split; intros H; [intros n p q Hn | intros n Hn p q]; now apply H. Qed.

Lemma Fzero_entry n p q : ent ((0 : T) n) p q = 0.
Proof. reflexivity. Qed.
Lemma Fadd_entry (x y : T) n p q : ent ((x + y) n) p q = ent (x n) p q + ent (y n) p q.
Proof. reflexivity. Qed.
Lemma Fopp_entry (x : T) n p q : ent ((- x) n) p q = - ent (x n) p q.
Proof. reflexivity. Qed.
Lemma Fsub_entry (x y : T) n p q : ent ((x - y) n) p q = ent (x n) p q - ent (y n) p q.
Proof. reflexivity. Qed.
(** Cauchy product; the inner sum over the intermediate basis states is finite because the
    rows of the left factor are *)
Lemma Fmul_entry (x y : T) n p q :
  ent ((x * y) n) p q ==
  bigsum (fun ab => bigsum (fun r => ent (x (fst ab)) p r * ent (y (snd ab)) r q)
                           (range (S (rb (x (fst ab)) p)))) (splits n).
Proof.
  change ((x * y) n) with (bigsum (fun ab => x (fst ab) * y (snd ab)) (splits n)).
  rewrite (rbigsum_entry (Rg := Rg)). reflexivity.
Qed.
Lemma Fadj_entry (x : T) n p q : ent (adj x n) p q = conj (ent (x n) q p).
Proof. reflexivity. Qed.
Lemma Fdivz_entry (x : T) z n p q : ent (divz x z n) p q = divz0 (ent (x n) p q) z.
Proof. reflexivity. Qed.
Lemma FDg_entry (x : T) n p q :
  ent (Dg x n) p q = if Nat.eqb (blk p) (blk q) then ent (x n) p q else 0.
Proof. reflexivity. Qed.
Lemma FUp_entry (x : T) n p q :
  ent (Up x n) p q = if Nat.ltb (blk p) (blk q) then ent (x n) p q else 0.
Proof. reflexivity. Qed.
Lemma FLo_entry (x : T) n p q :
  ent (Lo x n) p q = if Nat.ltb (blk q) (blk p) then ent (x n) p q else 0.
Proof. reflexivity. Qed.
Lemma FSel_entry (x : T) n p q : ent (Sel x n) p q = if keep p q then ent (x n) p q else 0.
Proof. reflexivity. Qed.
Lemma FRw_entry (x : T) n p q : ent (Rw x n) p q = if cm p then ent (x n) p q else 0.
Proof. reflexivity. Qed.
Lemma FZc_entry (x : T) n p q : ent (Zc x n) p q = if is_zero n then ent (x n) p q else 0.
Proof. unfold Zc. cbn. unfold sZc. destruct (is_zero n); reflexivity. Qed.
Lemma Ford_iff m (x : T) :
  ord m x <-> forall n p q, List.length n = k -> (deg n < m)%nat -> ent (x n) p q == 0.
Proof.
  split; intros H.
  - intros n p q Hn Hd. now apply (H n Hn Hd).
  - intros n Hn Hd p q. now apply H.
Qed.

(** * the diagonal solver *)
Variable E : nat -> R0.        (* unperturbed energies of the basis states *)
Variable inv : R0 -> R0.

Definition H0F : T := fun n => if is_zero n then rdiag E else rzero.

Lemma rsylv_rb_ok (A : rcf R0) i j :
  (rb A i < j)%nat -> ent A i j * inv (E i - E j) == 0.
Proof. intros H. rewrite (rb_ok A i j H). non_commutative_ring. Qed.
Lemma rsylv_cb_ok (A : rcf R0) j i :
  (cb A j < i)%nat -> ent A i j * inv (E i - E j) == 0.
Proof. intros H. rewrite (cb_ok A j i H). non_commutative_ring. Qed.
Definition rsylv (A : rcf R0) : rcf R0 :=
  @mk_rcf _ _ _ _ _ _ _ _ _ (fun i j => ent A i j * inv (E i - E j)) (rb A) (cb A)
          (rsylv_rb_ok A) (rsylv_cb_ok A).
Definition sylvF (y : T) : T := fun n => rsylv (y n).

Lemma H0F_const a : is_zero a = false -> H0F a == 0.
Proof. intros Z. unfold H0F. rewrite Z. reflexivity. Qed.

Lemma H0F_mul_l (x : T) n p q : ent ((H0F * x) n) p q == E p * ent (x n) p q.
Proof.
  rewrite (conv_const_l (k := k) H0F x n H0F_const p q).
  unfold H0F. rewrite is_zero_mzero_k. apply rmul_diag_l.
Qed.
Lemma H0F_mul_r (x : T) n p q : ent ((x * H0F) n) p q == ent (x n) p q * E q.
Proof.
  rewrite (conv_const_r (k := k) H0F x n H0F_const p q).
  unfold H0F. rewrite is_zero_mzero_k. apply rmul_diag_r.
Qed.
Lemma comm_H0F_entry (x : T) n p q :
  ent ((H0F * x - x * H0F) n) p q == (E p - E q) * ent (x n) p q.
Proof.
  rewrite Fsub_entry, H0F_mul_l, H0F_mul_r.
  rewrite (cs_comm (ent (x n) p q) (E q)). non_commutative_ring.
Qed.

Lemma Sel_H0F : Sel H0F == H0F.
Proof.
  intros n _ p q. rewrite FSel_entry. unfold H0F. destruct (is_zero n).
  - cbn [ent rdiag]. destruct (Nat.eqb_spec p q).
    + subst. rewrite keep_refl. reflexivity.
    + destruct (keep p q); reflexivity.
  - destruct (keep p q); reflexivity.
Qed.
Lemma Zc_H0F : Zc H0F == H0F.
Proof. intros n _ p q. rewrite FZc_entry. unfold H0F. destruct (is_zero n); reflexivity. Qed.
Lemma adj_H0F : (forall p, conj (E p) == E p) -> adj H0F == H0F.
Proof.
  intros Er n _ p q. rewrite Fadj_entry. unfold H0F. destruct (is_zero n).
  - cbn [ent rdiag]. rewrite (Nat.eqb_sym q p). destruct (Nat.eqb_spec p q).
    + subst. apply Er.
    + apply conj_zero.
  - apply conj_zero.
Qed.

Global Instance sylvF_P : Proper (_==_ ==> _==_) sylvF.
Proof. intros x y H n Hn p q. cbn [sylvF rsylv ent]. rewrite (H n Hn p q). reflexivity. Qed.

Global Instance sylvF_am : AddMap sylvF.
Proof.
  split. exact sylvF_P.
  - intros x y n _ p q. rewrite Fadd_entry. cbn [sylvF rsylv ent]. rewrite Fadd_entry.
    non_commutative_ring.
  - intros x n _ p q. rewrite Fopp_entry. cbn [sylvF rsylv ent]. rewrite Fopp_entry.
    non_commutative_ring.
Qed.

Lemma sylvF_ord m y : ord m y -> ord m (sylvF y).
Proof.
  intros H n Hn Hd p q. cbn [sylvF rsylv ent]. rewrite (H n Hn Hd p q).
  change (0 * inv (E p - E q) == (0 : R0)). non_commutative_ring.
Qed.

Lemma Sel_comm_H0F x : Sel (H0F * x - x * H0F) == H0F * Sel x - Sel x * H0F.
Proof.
  intros n Hn p q.
  pose proof (comm_H0F_entry x n p q) as C1.
  pose proof (comm_H0F_entry (Sel x) n p q) as C2.
  rewrite C2. set (X := H0F * x - x * H0F) in *. rewrite !FSel_entry.
  destruct (keep p q). exact C1. non_commutative_ring.
Qed.

Hypothesis inv_spec : forall p q, keep p q = false -> (E p - E q) * inv (E p - E q) == 1.

Theorem sylvF_spec y :
  (H0F * sylvF y - sylvF y * H0F) - Sel (H0F * sylvF y - sylvF y * H0F) == y - Sel y.
Proof.
  intros n Hn p q.
  pose proof (comm_H0F_entry (sylvF y) n p q) as C.
  set (X := H0F * sylvF y - sylvF y * H0F) in *.
  rewrite !Fsub_entry, !FSel_entry. destruct (keep p q) eqn:K.
  - non_commutative_ring.
  - rewrite C. cbn [sylvF rsylv ent].
    transitivity (ent (y n) p q * ((E p - E q) * inv (E p - E q)) - 0).
    + rewrite (cs_comm (E p - E q) (ent (y n) p q * inv (E p - E q))),
        (cs_comm (E p - E q) (inv (E p - E q))).
      non_commutative_ring.
    + rewrite (@inv_spec p q K). non_commutative_ring.
Qed.

Hypothesis E_real : forall p, conj (E p) == E p.
Hypothesis inv_P : Proper (_==_ ==> _==_) inv.
Hypothesis inv_opp : forall x, inv (- x) == - inv x.
Hypothesis inv_conj : forall x, conj (inv x) == inv (conj x).

Lemma sylvF_adj y : sylvF (adj y) == - adj (sylvF y).
Proof.
  intros n Hn p q. rewrite Fopp_entry, Fadj_entry. cbn [sylvF rsylv ent]. rewrite Fadj_entry.
  rewrite conj_mul, inv_conj, conj_sub, !E_real.
  assert (X : inv (E p - E q) == - inv (E q - E p)).
  { rewrite <- inv_opp. apply inv_P. non_commutative_ring. }
  rewrite X. non_commutative_ring.
Qed.

(** * commuting rows *)
Hypothesis keep_eucl :
  forall p q r, cm p = true -> keep p q = true -> keep r q = true -> keep p r = true.

Lemma Fcomm_sound_l (x y : T) : Rw (Sel (Rp x * Sel y)) == 0.
Proof.
  intros n Hn p q. rewrite FRw_entry, FSel_entry.
  destruct (cm p) eqn:C; [|reflexivity]. destruct (keep p q) eqn:K; [|reflexivity].
  rewrite Fmul_entry. rewrite Fzero_entry. apply bigsum_zero. intros (a, b) _.
  apply bigsum_zero. intros r _. cbn [fst snd].
  unfold Rp. rewrite Fsub_entry, !FSel_entry.
  destruct (keep r q) eqn:K2; [|non_commutative_ring].
  rewrite (keep_eucl C K K2). non_commutative_ring.
Qed.

Lemma Fcomm_sound_r (x y : T) : Rw (Sel (Sel y * Rp x)) == 0.
Proof.
  intros n Hn p q. rewrite FRw_entry, FSel_entry.
  destruct (cm p) eqn:C; [|reflexivity]. destruct (keep p q) eqn:K; [|reflexivity].
  rewrite Fmul_entry. rewrite Fzero_entry. apply bigsum_zero. intros (a, b) _.
  apply bigsum_zero. intros r _. cbn [fst snd].
  unfold Rp. rewrite Fsub_entry, !FSel_entry.
  destruct (keep p r) eqn:K2; [|non_commutative_ring].
  assert (K3 : keep r q = true).
  { apply (@keep_eucl r p q).
    - rewrite <- C. symmetry. apply cm_blk. now apply keep_blk.
    - now rewrite keep_sym.
    - now rewrite keep_sym. }
  rewrite K3. non_commutative_ring.
Qed.

(** * the wiring of block_diagonalize *)
Open Scope string_scope.
Variable rflag : string -> T -> T.
Variable fenv : string -> list T -> T.
Hypothesis rflag_spec : forall x, rflag "commuting_blocks" x == Rw x.
Hypothesis fenv_spec : forall y, fenv "solve_sylvester" (cons y nil) == sylvF y.
Variable H : T.
Hypothesis H_herm : adj H == H.
Hypothesis H_zero : Zc H == H0F.

Theorem rcf_wiring : wiring rflag fenv H.
Proof.
  constructor.
  - exact H_herm.
  - exact rflag_spec.
  - exact Fcomm_sound_l.
  - exact Fcomm_sound_r.
  - intros y y' Ey. unfold MainLift.sylv. rewrite !fenv_spec. now apply sylvF_P.
  - intros m y Hy. unfold MainLift.sylv. rewrite fenv_spec. now apply sylvF_ord.
  - intros y. unfold MainLift.sylv. rewrite !fenv_spec. apply sylvF_adj.
  - rewrite H_zero. apply Sel_H0F.
  - intros x. unfold comm. rewrite H_zero. apply Sel_comm_H0F.
  - intros y. unfold MainLift.sylv, comm, Rp. rewrite H_zero, fenv_spec. apply sylvF_spec.
Qed.

End InstRCF.
