(** C13, re-indexing of the orders that keeps the number of states:

    - [pull f]: (pull f x) n := x (f n) for a degree-preserving automorphism f of the order
      monoid N^k (instance: a permutation of the k parameters, [pm sg]);
    - [vanish]: T D k -> T D (S k), a perturbation that does not occur is added in front:
      (vanish x) (m :: n) := x n if m = 0, and 0 otherwise.
    Both are [LAHom]s that commute with the order-zero coefficient and fix H_0. *)
Require Import Ncring Ncring_tac Setoid Morphisms List ZArith String Permutation.
From PV.Base Require Import Classes BigSum AlgLemmas.
From PV.Series Require Import MultiIndex Cauchy Lift Inst SylvInst Wiring SymBase SymIdx.
From PV.Block Require Import Mat Masks CoefAlg BlockSel.
From PV.DSL Require Import Syntax Sem.
From PV.Gen Require Import Algorithms_gen.
From PV.Alg Require Import MainLift MainCorrect Unique Equivariance MainInst.
Open Scope string_scope.

Section Pull.
Variables D k : nat.
Context {R0 : Type} `{Rg : Ring R0} {CS : CStar R0}.
Variable blk : nat -> nat.
Variable keep : nat -> nat -> bool.
Variable cm : nat -> bool.
Hypothesis keep_sym : forall p q, keep p q = keep q p.
Hypothesis keep_refl : forall p, keep p p = true.
Hypothesis keep_blk : forall p q, keep p q = true -> blk p = blk q.
Hypothesis cm_blk : forall p q, blk p = blk q -> cm p = cm q.
Local Notation T := (T D k R0).
Local Notation BA := (series_BlockAlg D k blk keep cm keep_sym keep_blk cm_blk).
Local Hint Extern 0 (BlockAlg _) => exact BA : typeclass_instances.

Variables f g : mi -> mi.
Hypothesis f_len : forall n, List.length n = k -> List.length (f n) = k.
Hypothesis g_len : forall n, List.length n = k -> List.length (g n) = k.
Hypothesis gf : forall n, List.length n = k -> g (f n) = n.
Hypothesis fg : forall n, List.length n = k -> f (g n) = n.
Hypothesis f_padd : forall a b, List.length a = k -> List.length b = k -> f (padd a b) = padd (f a) (f b).
Hypothesis f_deg : forall n, List.length n = k -> deg (f n) = deg n.

Definition pull (x : T) : T := fun n => x (f n).

Lemma pull_P : Proper (_==_ ==> _==_) pull.
Proof. intros x y H n Hn p q Hp Hq. unfold pull. apply H; auto. Qed.

Lemma pull_mul (x y : T) : pull (x * y) == pull x * pull y.
Proof.
  intros n Hn p q Hp Hq. unfold pull at 1. rewrite !(mul_entry (Rg := Rg)).
  rewrite <- (bigsum_perm _ (auto_splits k f g f_len g_len gf fg f_padd n Hn)), bigsum_map.
  apply bigsum_ext. intros ab _. cbn [fst snd]. reflexivity.
Qed.

Lemma pull_LAHom : LAHom (BA := BA) (BA' := BA) pull.
Proof.
  apply mkLAHom.
  - exact pull_P.
  - intros x y n Hn p q Hp Hq. reflexivity.
  - intros x n Hn p q Hp Hq. reflexivity.
  - intros n Hn p q Hp Hq. unfold pull. rewrite !one_entry.
    rewrite (f_is_zero k f f_deg n Hn). reflexivity.
  - exact pull_mul.
  - intros x n Hn p q Hp Hq. reflexivity.
  - intros x n Hn p q Hp Hq. reflexivity.
  - intros m x Hx. apply ord_iff. intros n p q Hn Hd Hp Hq. unfold pull.
    apply (proj1 (ord_iff blk keep cm keep_sym keep_blk cm_blk m x) Hx (f n) p q); auto.
    rewrite f_deg; auto.
Qed.

Lemma pull_Zc (x : T) : pull (Zc x) == Zc (pull x).
Proof.
  intros n Hn p q Hp Hq. unfold pull at 1. rewrite !Zc_entry. unfold pull.
  rewrite (f_is_zero k f f_deg n Hn). reflexivity.
Qed.

Variable E : nat -> R0.
Lemma pull_H0 : pull (SylvInst.H0 D k E) == SylvInst.H0 D k E.
Proof.
  intros n Hn p q Hp Hq. unfold pull, SylvInst.H0.
  rewrite (f_is_zero k f f_deg n Hn). reflexivity.
Qed.

Hypothesis E_real : forall p, conj (E p) == E p.
Hypothesis keep_eucl : keep_eucl_on D keep cm.
Variable inv : R0 -> R0.
Hypothesis inv_spec : forall p q, (p < D)%nat -> (q < D)%nat -> keep p q = false ->
                                  (E p - E q) * inv (E p - E q) == 1.
Hypothesis inv_P : Proper (_==_ ==> _==_) inv.
Hypothesis inv_opp : forall x, inv (- x) == - inv x.
Hypothesis inv_conj : forall x, conj (inv x) == inv (conj x).
Variable rflag rflag' : string -> T -> T.
Variable fenv fenv' : string -> list T -> T.
Hypothesis rflag_spec : forall x, rflag "commuting_blocks" x == Rw x.
Hypothesis fenv_spec : forall y, fenv "solve_sylvester" (cons y nil) == SylvInst.sylv E inv y.
Hypothesis rflag_spec' : forall x, rflag' "commuting_blocks" x == Rw x.
Hypothesis fenv_spec' : forall y, fenv' "solve_sylvester" (cons y nil) == SylvInst.sylv E inv y.
Variable sol sol' : string -> T.
Hypothesis Hsol : solution (gflag_of false) rflag fenv sol main_alg.
Hypothesis Hsol' : solution (gflag_of false) rflag' fenv' sol' main_alg.
Hypothesis H_herm : adj (sol "H") == sol "H".
Hypothesis H_zero : Zc (sol "H") == SylvInst.H0 D k E.
Hypothesis Hin : sol' "H" == pull (sol "H").

Theorem pull_covariant :
  sol' "U" == pull (sol "U") /\ sol' "U†" == pull (sol "U†") /\ sol' "H_tilde" == pull (sol "H_tilde").
Proof.
  exact (inst_transport D k blk keep cm keep_sym keep_refl keep_blk cm_blk keep_eucl E inv inv_spec
           E_real inv_P inv_opp inv_conj
           D k blk keep cm keep_sym keep_refl keep_blk cm_blk keep_eucl E inv inv_spec
           E_real inv_P inv_opp inv_conj
           pull pull_LAHom pull_Zc pull_H0 rflag fenv rflag' fenv' rflag_spec fenv_spec
           rflag_spec' fenv_spec' sol sol' Hsol Hsol' H_herm H_zero Hin).
Qed.
End Pull.

(** * a vanishing perturbation, inserted as the first parameter *)
Section Vanish.
Variables D k : nat.
Context {R0 : Type} `{Rg : Ring R0} {CS : CStar R0}.
Variable blk : nat -> nat.
Variable keep : nat -> nat -> bool.
Variable cm : nat -> bool.
Hypothesis keep_sym : forall p q, keep p q = keep q p.
Hypothesis keep_refl : forall p, keep p p = true.
Hypothesis keep_blk : forall p q, keep p q = true -> blk p = blk q.
Hypothesis cm_blk : forall p q, blk p = blk q -> cm p = cm q.
Local Notation Ts := (T D k R0).
Local Notation Tt := (T D (S k) R0).
Local Notation BAs := (series_BlockAlg D k blk keep cm keep_sym keep_blk cm_blk).
Local Notation BAt := (series_BlockAlg D (S k) blk keep cm keep_sym keep_blk cm_blk).

Definition vanish (x : Ts) : Tt :=
  fun n p q => match n with cons O n' => x n' p q | _ => 0 end.

Lemma vanish_P : Proper (_==_ ==> _==_) vanish.
Proof.
  intros x y H n Hn p q Hp Hq. unfold vanish. destruct n as [|[|m] n']; try reflexivity.
  apply H; auto.
Qed.

Lemma vanish_mul (x y : Ts) : vanish (x * y) == vanish x * vanish y.
Proof.
  intros n Hn p q Hp Hq. rewrite (mul_entry (Rg := Rg) (vanish x) (vanish y)).
  destruct n as [|[|m] n'].
  - discriminate Hn.
  - unfold vanish at 1. rewrite (mul_entry (Rg := Rg)), splits_cons0, bigsum_map.
    apply bigsum_ext. intros ab _. cbn [fst snd]. reflexivity.
  - unfold vanish at 1. symmetry. apply bigsum_zero. intros (a, b) I. cbn [fst snd].
    apply bigsum_zero. intros r _.
    destruct (splits_cons_pos (S m) n' a b I (Nat.neq_succ_0 m)) as (i & j & a' & b' & -> & -> & Hij).
    unfold vanish. destruct i as [|i], j as [|j].
    + destruct Hij as [Hij|Hij]; now elim Hij.
    + non_commutative_ring.
    + non_commutative_ring.
    + non_commutative_ring.
Qed.

Lemma vanish_LAHom : LAHom (BA := BAs) (BA' := BAt) vanish.
Proof.
  apply mkLAHom.
  - exact vanish_P.
  - intros x y n Hn p q Hp Hq. rewrite add_entry. unfold vanish.
    destruct n as [|[|m] n']; try (rewrite add_entry; reflexivity); non_commutative_ring.
  - intros x n Hn p q Hp Hq. rewrite opp_entry. unfold vanish.
    destruct n as [|[|m] n']; try (rewrite opp_entry; reflexivity); non_commutative_ring.
  - intros n Hn p q Hp Hq. unfold vanish. rewrite one_entry.
    destruct n as [|[|m] n'].
    + discriminate Hn.
    + rewrite one_entry, is_zero_cons0. reflexivity.
    + rewrite (is_zero_cons_pos (S m) n' (Nat.neq_succ_0 m)). reflexivity.
  - exact vanish_mul.
  - intros x n Hn p q Hp Hq.
    rewrite (adj_entry (k := S k) blk keep cm keep_sym keep_blk cm_blk). unfold vanish.
    destruct n as [|[|m] n']; try (symmetry; apply conj_zero). reflexivity.
  - intros x n Hn p q Hp Hq.
    rewrite (Sel_entry (k := S k) blk keep cm keep_sym keep_blk cm_blk). unfold vanish.
    destruct n as [|[|m] n']; try (destruct (keep p q); reflexivity).
    rewrite (Sel_entry (k := k) blk keep cm keep_sym keep_blk cm_blk). reflexivity.
  - intros m x Hx. apply (ord_iff (k := S k) blk keep cm keep_sym keep_blk cm_blk).
    intros n p q Hn Hd Hp Hq. unfold vanish. destruct n as [|[|j] n']; try reflexivity.
    apply (proj1 (ord_iff blk keep cm keep_sym keep_blk cm_blk m x) Hx n' p q); auto.
Qed.

Lemma vanish_Zc (x : Ts) : vanish (Zc (BlockAlg := BAs) x) == Zc (BlockAlg := BAt) (vanish x).
Proof.
  intros n Hn p q Hp Hq.
  rewrite (Zc_entry (k := S k) blk keep cm keep_sym keep_blk cm_blk). unfold vanish.
  destruct n as [|[|m] n'].
  - discriminate Hn.
  - rewrite (Zc_entry (k := k) blk keep cm keep_sym keep_blk cm_blk), is_zero_cons0. reflexivity.
  - destruct (is_zero (S m :: n')); reflexivity.
Qed.

Variable E : nat -> R0.
Lemma vanish_H0 : vanish (SylvInst.H0 D k E) == SylvInst.H0 D (S k) E.
Proof.
  intros n Hn p q Hp Hq. unfold vanish, SylvInst.H0. destruct n as [|[|m] n'].
  - discriminate Hn.
  - rewrite is_zero_cons0. reflexivity.
  - rewrite (is_zero_cons_pos (S m) n' (Nat.neq_succ_0 m)). reflexivity.
Qed.

Hypothesis E_real : forall p, conj (E p) == E p.
Hypothesis keep_eucl : keep_eucl_on D keep cm.
Variable inv : R0 -> R0.
Hypothesis inv_spec : forall p q, (p < D)%nat -> (q < D)%nat -> keep p q = false ->
                                  (E p - E q) * inv (E p - E q) == 1.
Hypothesis inv_P : Proper (_==_ ==> _==_) inv.
Hypothesis inv_opp : forall x, inv (- x) == - inv x.
Hypothesis inv_conj : forall x, conj (inv x) == inv (conj x).
Variable rflag : string -> Ts -> Ts.
Variable fenv : string -> list Ts -> Ts.
Variable rflag' : string -> Tt -> Tt.
Variable fenv' : string -> list Tt -> Tt.
Hypothesis rflag_spec : forall x, rflag "commuting_blocks" x == Rw (BlockAlg := BAs) x.
Hypothesis fenv_spec : forall y, fenv "solve_sylvester" (cons y nil) == SylvInst.sylv E inv y.
Hypothesis rflag_spec' : forall x, rflag' "commuting_blocks" x == Rw (BlockAlg := BAt) x.
Hypothesis fenv_spec' : forall y, fenv' "solve_sylvester" (cons y nil) == SylvInst.sylv E inv y.
Variable sol : string -> Ts.
Variable sol' : string -> Tt.
Hypothesis Hsol : solution (BA := BAs) (gflag_of false) rflag fenv sol main_alg.
Hypothesis Hsol' : solution (BA := BAt) (gflag_of false) rflag' fenv' sol' main_alg.
Hypothesis H_herm : adj (BlockAlg := BAs) (sol "H") == sol "H".
Hypothesis H_zero : Zc (BlockAlg := BAs) (sol "H") == SylvInst.H0 D k E.
Hypothesis Hin : sol' "H" == vanish (sol "H").

Theorem vanish_covariant :
  sol' "U" == vanish (sol "U") /\ sol' "U†" == vanish (sol "U†") /\ sol' "H_tilde" == vanish (sol "H_tilde").
Proof.
  exact (inst_transport D k blk keep cm keep_sym keep_refl keep_blk cm_blk keep_eucl E inv inv_spec
           E_real inv_P inv_opp inv_conj
           D (S k) blk keep cm keep_sym keep_refl keep_blk cm_blk keep_eucl E inv inv_spec
           E_real inv_P inv_opp inv_conj
           vanish vanish_LAHom vanish_Zc vanish_H0 rflag fenv rflag' fenv' rflag_spec fenv_spec
           rflag_spec' fenv_spec' sol sol' Hsol Hsol' H_herm H_zero Hin).
Qed.
End Vanish.
