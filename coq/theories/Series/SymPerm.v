(** C15, permutation of the basis states and relabelling of the blocks.

    For a bijection [pi] of {0..D-1} the map (phi x) n p q := x n (pi p) (pi q) is an [LAHom]
    from the concrete algebra (blk, keep, cm) to the algebra (blk', keep o (pi, pi), cm') for
    ANY block labelling blk' and row flag cm' compatible with the transported kept mask: the
    defining conditions of the least-action transformation do not mention the block order
    (Up / Lo are NOT preserved when the blocks are reordered - that is why [LAHom], not
    [BAHom], is the right notion).  Special cases: blk' = blk o pi (the same blocks seen in the
    permuted basis) and pi = id with blk' = sigma o blk (pure relabelling of the blocks). *)
Require Import Ncring Ncring_tac Setoid Morphisms List ZArith String Permutation.
From PV.Base Require Import Classes BigSum AlgLemmas.
From PV.Series Require Import MultiIndex Cauchy Lift Inst SylvInst Wiring SymBase SymIdx.
From PV.Block Require Import Mat Masks CoefAlg BlockSel.
From PV.DSL Require Import Syntax Sem.
From PV.Gen Require Import Algorithms_gen.
From PV.Alg Require Import MainLift MainCorrect Unique Equivariance MainInst.
Open Scope string_scope.

Section Perm.
Variables D k : nat.
Context {R0 : Type} `{Rg : Ring R0} {CS : CStar R0}.
Variable blk : nat -> nat.
Variable keep : nat -> nat -> bool.
Variable cm : nat -> bool.
Hypothesis keep_sym : forall p q, keep p q = keep q p.
Hypothesis keep_refl : forall p, keep p p = true.
Hypothesis keep_blk : forall p q, keep p q = true -> blk p = blk q.
Hypothesis cm_blk : forall p q, blk p = blk q -> cm p = cm q.

Variables pi pinv : nat -> nat.
Hypothesis pi_lt : forall p, (p < D)%nat -> (pi p < D)%nat.
Hypothesis pinv_lt : forall p, (p < D)%nat -> (pinv p < D)%nat.
Hypothesis pinv_pi : forall p, (p < D)%nat -> pinv (pi p) = p.
Hypothesis pi_pinv : forall p, (p < D)%nat -> pi (pinv p) = p.

(* the target structure: transported kept mask, arbitrary compatible block labels *)
Definition keep_pi (p q : nat) : bool := keep (pi p) (pi q).
Variable blk' : nat -> nat.
Variable cm' : nat -> bool.
Hypothesis keep_blk' : forall p q, keep_pi p q = true -> blk' p = blk' q.
Hypothesis cm_blk' : forall p q, blk' p = blk' q -> cm' p = cm' q.

Lemma keep_pi_sym p q : keep_pi p q = keep_pi q p.
Proof. apply keep_sym. Qed.
Lemma keep_pi_refl p : keep_pi p p = true.
Proof. apply keep_refl. Qed.

Local Notation T := (T D k R0).
Local Notation BAs := (series_BlockAlg D k blk keep cm keep_sym keep_blk cm_blk).
Local Notation BAt := (series_BlockAlg D k blk' keep_pi cm' keep_pi_sym keep_blk' cm_blk').

Definition sperm (x : T) : T := fun n p q => x n (pi p) (pi q).

Lemma sperm_P : Proper (_==_ ==> _==_) sperm.
Proof. intros x y H n Hn p q Hp Hq. unfold sperm. apply H; auto. Qed.

Lemma sum_pi (F : nat -> R0) : bigsum (fun r => F (pi r)) (range D) == bigsum F (range D).
Proof.
  rewrite <- (bigsum_map F pi). apply bigsum_perm.
  exact (perm_range D pi pinv pi_lt pinv_lt pinv_pi pi_pinv).
Qed.

Lemma sperm_mul (x y : T) : sperm (x * y) == sperm x * sperm y.
Proof.
  intros n Hn p q Hp Hq. unfold sperm at 1. rewrite !(mul_entry (Rg := Rg)).
  apply bigsum_ext. intros ab _. unfold sperm.
  symmetry. exact (sum_pi (fun r => x (fst ab) (pi p) r * y (snd ab) r (pi q))).
Qed.

Lemma sperm_LAHom : LAHom (BA := BAs) (BA' := BAt) sperm.
Proof.
  apply mkLAHom.
  - exact sperm_P.
  - intros x y n Hn p q Hp Hq. reflexivity.
  - intros x n Hn p q Hp Hq. reflexivity.
  - intros n Hn p q Hp Hq. unfold sperm. rewrite !one_entry.
    rewrite (pi_eqb D pi pinv pinv_pi p q Hp Hq). reflexivity.
  - exact sperm_mul.
  - intros x n Hn p q Hp Hq. reflexivity.
  - intros x n Hn p q Hp Hq. reflexivity.
  - intros m x Hx. apply ord_iff. intros n p q Hn Hd Hp Hq. unfold sperm.
    apply (proj1 (ord_iff blk keep cm keep_sym keep_blk cm_blk m x) Hx n (pi p) (pi q) Hn Hd); auto.
Qed.

Lemma sperm_Zc (x : T) :
  sperm (Zc (BlockAlg := BAs) x) == Zc (BlockAlg := BAt) (sperm x).
Proof.
  intros n Hn p q Hp Hq. unfold sperm at 1.
  rewrite (Zc_entry blk keep cm keep_sym keep_blk cm_blk), (Zc_entry blk' keep_pi cm' keep_pi_sym keep_blk' cm_blk').
  reflexivity.
Qed.

Variable E : nat -> R0.
Definition E_pi (p : nat) : R0 := E (pi p).

Lemma sperm_H0 : sperm (SylvInst.H0 D k E) == SylvInst.H0 D k E_pi.
Proof.
  intros n Hn p q Hp Hq. unfold sperm, SylvInst.H0. destruct (is_zero n); [|reflexivity].
  unfold mdiag, E_pi. rewrite (pi_eqb D pi pinv pinv_pi p q Hp Hq). reflexivity.
Qed.

Hypothesis E_real : forall p, conj (E p) == E p.
Hypothesis keep_eucl : keep_eucl_on D keep cm.
Hypothesis keep_eucl' : keep_eucl_on D keep_pi cm'.
Variable inv : R0 -> R0.
Hypothesis inv_spec : forall p q, (p < D)%nat -> (q < D)%nat -> keep p q = false ->
                                  (E p - E q) * inv (E p - E q) == 1.
Hypothesis inv_P : Proper (_==_ ==> _==_) inv.
Hypothesis inv_opp : forall x, inv (- x) == - inv x.
Hypothesis inv_conj : forall x, conj (inv x) == inv (conj x).

Lemma inv_spec_pi p q : (p < D)%nat -> (q < D)%nat -> keep_pi p q = false ->
                        (E_pi p - E_pi q) * inv (E_pi p - E_pi q) == 1.
Proof. intros Hp Hq K. apply inv_spec; auto. Qed.

Variable rflag rflag' : string -> T -> T.
Variable fenv fenv' : string -> list T -> T.
Hypothesis rflag_spec : forall x, rflag "commuting_blocks" x == Rw (BlockAlg := BAs) x.
Hypothesis fenv_spec : forall y, fenv "solve_sylvester" (cons y nil) == SylvInst.sylv E inv y.
Hypothesis rflag_spec' : forall x, rflag' "commuting_blocks" x == Rw (BlockAlg := BAt) x.
Hypothesis fenv_spec' : forall y, fenv' "solve_sylvester" (cons y nil) == SylvInst.sylv E_pi inv y.
Variable sol sol' : string -> T.
Hypothesis Hsol : solution (BA := BAs) (gflag_of false) rflag fenv sol main_alg.
Hypothesis Hsol' : solution (BA := BAt) (gflag_of false) rflag' fenv' sol' main_alg.
Hypothesis H_herm : adj (BlockAlg := BAs) (sol "H") == sol "H".
Hypothesis H_zero : Zc (BlockAlg := BAs) (sol "H") == SylvInst.H0 D k E.
Hypothesis Hin : sol' "H" == sperm (sol "H").

Theorem perm_covariant :
  sol' "U" == sperm (sol "U") /\ sol' "U†" == sperm (sol "U†") /\ sol' "H_tilde" == sperm (sol "H_tilde").
Proof.
  exact (inst_transport D k blk keep cm keep_sym keep_refl keep_blk cm_blk keep_eucl E inv inv_spec
           E_real inv_P inv_opp inv_conj
           D k blk' keep_pi cm' keep_pi_sym keep_pi_refl keep_blk' cm_blk' keep_eucl' E_pi inv inv_spec_pi
           (fun p => E_real (pi p)) inv_P inv_opp inv_conj
           sperm sperm_LAHom sperm_Zc sperm_H0 rflag fenv rflag' fenv' rflag_spec fenv_spec
           rflag_spec' fenv_spec' sol sol' Hsol Hsol' H_herm H_zero Hin).
Qed.
End Perm.

(** the two standard choices of the target labelling *)
Section Choices.
Variable D : nat.
Variable blk : nat -> nat.
Variable keep : nat -> nat -> bool.
Variable cm : nat -> bool.
Hypothesis keep_sym : forall p q, keep p q = keep q p.
Hypothesis keep_blk : forall p q, keep p q = true -> blk p = blk q.
Hypothesis cm_blk : forall p q, blk p = blk q -> cm p = cm q.
Hypothesis keep_eucl : keep_eucl_on D keep cm.

(* (a) the same blocks seen in the permuted basis *)
Variable pi : nat -> nat.
Hypothesis pi_lt : forall p, (p < D)%nat -> (pi p < D)%nat.
Lemma basis_keep_blk p q : keep_pi keep pi p q = true -> blk (pi p) = blk (pi q).
Proof. apply keep_blk. Qed.
Lemma basis_cm_blk p q : blk (pi p) = blk (pi q) -> cm (pi p) = cm (pi q).
Proof. apply cm_blk. Qed.
Lemma basis_keep_eucl : keep_eucl_on D (keep_pi keep pi) (fun p => cm (pi p)).
Proof. intros p q r Hp Hq Hr. unfold keep_pi. apply keep_eucl; auto. Qed.

(* (b) relabelling the blocks by an injective map sigma, basis unchanged *)
Variable sigma : nat -> nat.
Hypothesis sigma_inj : forall a b, sigma a = sigma b -> a = b.
Lemma relabel_keep_blk p q : keep_pi keep (fun p => p) p q = true -> sigma (blk p) = sigma (blk q).
Proof. intros K. f_equal. now apply keep_blk. Qed.
Lemma relabel_cm_blk p q : sigma (blk p) = sigma (blk q) -> cm p = cm q.
Proof. intros H. apply cm_blk. now apply sigma_inj. Qed.
Lemma relabel_keep_eucl : keep_eucl_on D (keep_pi keep (fun p => p)) cm.
Proof. exact keep_eucl. Qed.
End Choices.
