(** C13, scaling of the perturbation parameters: for central real scalars c_1 .. c_k the map
    (phi x) n := (prod_i c_i^(n_i)) * x n  is an [LAHom] of the concrete algebra to itself
    that fixes H_0.  Hence multiplying perturbation i by c_i multiplies H_tilde, U, U† at
    multi-order n by prod_i c_i^(n_i). *)
Require Import Ncring Ncring_tac Setoid Morphisms List ZArith String.
From PV.Base Require Import Classes BigSum AlgLemmas.
From PV.Series Require Import MultiIndex Cauchy Lift Inst SylvInst Wiring SymBase.
From PV.Block Require Import Mat Masks CoefAlg BlockSel.
From PV.DSL Require Import Syntax Sem.
From PV.Gen Require Import Algorithms_gen.
From PV.Alg Require Import MainLift MainCorrect Unique Equivariance MainInst.
Open Scope string_scope.

Section Pow.
Context {R0 : Type} `{Rg : Ring R0} {CS : CStar R0}.

Fixpoint rpow (c : R0) (m : nat) : R0 :=
  match m with O => 1 | S m' => c * rpow c m' end.

(** prod_i c_i^(n_i) *)
Fixpoint cpow (c : list R0) (n : mi) : R0 :=
  match c, n with
  | cons c0 c', cons n0 n' => rpow c0 n0 * cpow c' n'
  | _, _ => 1
  end.

Lemma rpow_add c a b : rpow c (Nat.add a b) == rpow c a * rpow c b.
Proof.
  induction a as [|a IH]; cbn [Nat.add rpow]. non_commutative_ring.
  rewrite IH. non_commutative_ring.
Qed.

Lemma comm4 (a b x y : R0) : (a * b) * (x * y) == (a * x) * (b * y).
Proof.
  transitivity (a * (b * x) * y). non_commutative_ring.
  rewrite (cs_comm b x). non_commutative_ring.
Qed.

Lemma cpow_padd c a b :
  List.length a = List.length b -> cpow c (padd a b) == cpow c a * cpow c b.
Proof.
  revert a b. induction c as [|c0 c IH]; intros a b L.
  - destruct (padd a b), a, b; cbn [cpow]; non_commutative_ring.
  - destruct a as [|x a], b as [|y b]; try discriminate L; cbn [padd cpow].
    + non_commutative_ring.
    + rewrite rpow_add, IH by (injection L; auto). apply comm4.
Qed.

Lemma cpow_zero c n : is_zero n = true -> cpow c n == 1.
Proof.
  revert n. induction c as [|c0 c IH]; intros [|d n] Z; cbn [cpow]; try reflexivity.
  rewrite is_zero_cons in Z. apply andb_prop in Z. destruct Z as [Z1 Z2].
  apply Nat.eqb_eq in Z1. subst d. cbn [rpow]. rewrite (IH n Z2). non_commutative_ring.
Qed.

Lemma rpow_real c m : conj c == c -> conj (rpow c m) == rpow c m.
Proof.
  intros Hc. induction m as [|m IH]; cbn [rpow]. apply conj_one.
  rewrite conj_mul, Hc, IH. reflexivity.
Qed.

Lemma cpow_real c n : Forall (fun x => conj x == x) c -> conj (cpow c n) == cpow c n.
Proof.
  intros Hc. revert n. induction Hc as [|c0 c H0 Hc IH]; intros n.
  - destruct n; cbn [cpow]; apply conj_one.
  - destruct n as [|d n]; cbn [cpow]. apply conj_one.
    rewrite conj_mul, (rpow_real c0 d H0), IH. reflexivity.
Qed.
End Pow.

Section Scale.
Variables D k : nat.
Context {R0 : Type} `{Rg : Ring R0} {CS : CStar R0}.
Variable blk : nat -> nat.
Variable keep : nat -> nat -> bool.
Variable cm : nat -> bool.
Hypothesis keep_sym : forall p q, keep p q = keep q p.
Hypothesis keep_refl : forall p, keep p p = true.
Hypothesis keep_blk : forall p q, keep p q = true -> blk p = blk q.
Hypothesis cm_blk : forall p q, blk p = blk q -> cm p = cm q.
Local Notation T := (T D k R0).
Local Notation BA := (series_BlockAlg D k blk keep cm keep_sym keep_blk cm_blk).
Local Hint Extern 0 (BlockAlg _) => exact BA : typeclass_instances.

Variable c : list R0.
Hypothesis c_real : Forall (fun x => conj x == x) c.

Definition pscale (x : T) : T := fun n p q => cpow c n * x n p q.

Lemma pscale_P : Proper (_==_ ==> _==_) pscale.
Proof. intros x y H n Hn p q Hp Hq. unfold pscale. rewrite (H n Hn p q Hp Hq). reflexivity. Qed.

Lemma pscale_mul (x y : T) : pscale (x * y) == pscale x * pscale y.
Proof.
  intros n Hn p q Hp Hq. unfold pscale at 1. rewrite !(mul_entry (Rg := Rg)).
  rewrite bigsum_mul_l. apply bigsum_ext. intros (a, b) I. cbn [fst snd].
  rewrite bigsum_mul_l. apply bigsum_ext. intros r _. unfold pscale.
  apply in_splits in I. destruct I as (La & Lb & P).
  rewrite <- P at 1. rewrite cpow_padd by congruence. apply comm4.
Qed.

Lemma pscale_LAHom : LAHom (BA := BA) (BA' := BA) pscale.
Proof.
  apply mkLAHom.
  - exact pscale_P.
  - intros x y n Hn p q Hp Hq. unfold pscale. rewrite !add_entry. unfold pscale. non_commutative_ring.
  - intros x n Hn p q Hp Hq. unfold pscale. rewrite !opp_entry. unfold pscale. non_commutative_ring.
  - intros n Hn p q Hp Hq. unfold pscale. rewrite one_entry.
    destruct (is_zero n) eqn:Z.
    + rewrite (cpow_zero c n Z). non_commutative_ring.
    + non_commutative_ring.
  - exact pscale_mul.
  - intros x n Hn p q Hp Hq. unfold pscale. rewrite !adj_entry. unfold pscale.
    rewrite conj_mul, (cpow_real c n c_real). reflexivity.
  - intros x n Hn p q Hp Hq. unfold pscale. rewrite !Sel_entry. unfold pscale.
    destruct (keep p q). reflexivity. non_commutative_ring.
  - intros m x Hx. apply ord_iff. intros n p q Hn Hd Hp Hq. unfold pscale.
    rewrite (proj1 (ord_iff blk keep cm keep_sym keep_blk cm_blk m x) Hx n p q Hn Hd Hp Hq).
    non_commutative_ring.
Qed.

Lemma pscale_Zc (x : T) : pscale (Zc x) == Zc (pscale x).
Proof.
  intros n Hn p q Hp Hq. unfold pscale at 1. rewrite !Zc_entry. unfold pscale.
  destruct (is_zero n). reflexivity. non_commutative_ring.
Qed.

Variable E : nat -> R0.
Lemma pscale_H0 : pscale (SylvInst.H0 D k E) == SylvInst.H0 D k E.
Proof.
  intros n Hn p q Hp Hq. unfold pscale, SylvInst.H0. destruct (is_zero n) eqn:Z.
  - rewrite (cpow_zero c n Z). non_commutative_ring.
  - change (mzero D p q) with (0 : R0). non_commutative_ring.
Qed.

Hypothesis E_real : forall p, conj (E p) == E p.
Hypothesis keep_eucl : keep_eucl_on D keep cm.
Variable inv : R0 -> R0.
Hypothesis inv_spec : forall p q, (p < D)%nat -> (q < D)%nat -> keep p q = false ->
                                  (E p - E q) * inv (E p - E q) == 1.
Hypothesis inv_P : Proper (_==_ ==> _==_) inv.
Hypothesis inv_opp : forall x, inv (- x) == - inv x.
Hypothesis inv_conj : forall x, conj (inv x) == inv (conj x).

Variable rflag rflag' : string -> T -> T.
Variable fenv fenv' : string -> list T -> T.
Hypothesis rflag_spec : forall x, rflag "commuting_blocks" x == Rw x.
Hypothesis fenv_spec : forall y, fenv "solve_sylvester" (cons y nil) == SylvInst.sylv E inv y.
Hypothesis rflag_spec' : forall x, rflag' "commuting_blocks" x == Rw x.
Hypothesis fenv_spec' : forall y, fenv' "solve_sylvester" (cons y nil) == SylvInst.sylv E inv y.
Variable sol sol' : string -> T.
Hypothesis Hsol : solution (gflag_of false) rflag fenv sol main_alg.
Hypothesis Hsol' : solution (gflag_of false) rflag' fenv' sol' main_alg.
Hypothesis H_herm : adj (sol "H") == sol "H".
Hypothesis H_zero : Zc (sol "H") == SylvInst.H0 D k E.
Hypothesis Hin : sol' "H" == pscale (sol "H").

Theorem scale_covariant :
  sol' "U" == pscale (sol "U") /\ sol' "U†" == pscale (sol "U†") /\ sol' "H_tilde" == pscale (sol "H_tilde").
Proof.
  exact (inst_transport D k blk keep cm keep_sym keep_refl keep_blk cm_blk keep_eucl E inv inv_spec
           E_real inv_P inv_opp inv_conj
           D k blk keep cm keep_sym keep_refl keep_blk cm_blk keep_eucl E inv inv_spec
           E_real inv_P inv_opp inv_conj
           pscale pscale_LAHom pscale_Zc pscale_H0 rflag fenv rflag' fenv' rflag_spec fenv_spec
           rflag_spec' fenv_spec' sol sol' Hsol Hsol' H_herm H_zero Hin).
Qed.
End Scale.
