(** Index-level facts used by the symmetry files (no Ncring here: plain nat / list reasoning).

    - a bijection of the basis states {0..D-1} permutes [range D];
    - a degree-preserving automorphism of the order monoid permutes the splittings;
    - splittings of an order with a leading zero (vanishing perturbation). *)
Require Import List Arith Lia Permutation Bool.
From PV.Series Require Import MultiIndex.
From PV.Block Require Import Masks.
Import ListNotations.

(** * bijections of the basis states *)
Section StatePerm.
Variable D : nat.
Variables pi pinv : nat -> nat.
Hypothesis pi_lt : forall p, p < D -> pi p < D.
Hypothesis pinv_lt : forall p, p < D -> pinv p < D.
Hypothesis pinv_pi : forall p, p < D -> pinv (pi p) = p.
Hypothesis pi_pinv : forall p, p < D -> pi (pinv p) = p.

Lemma pi_inj p q : p < D -> q < D -> pi p = pi q -> p = q.
Proof. intros Hp Hq E. rewrite <- (pinv_pi p Hp), <- (pinv_pi q Hq), E. reflexivity. Qed.

Lemma pi_eqb p q : p < D -> q < D -> Nat.eqb (pi p) (pi q) = Nat.eqb p q.
Proof.
  intros Hp Hq. destruct (Nat.eqb_spec p q) as [->|N]. apply Nat.eqb_refl.
  apply Nat.eqb_neq. intros E. apply N. now apply pi_inj.
Qed.

Lemma perm_range : Permutation (map pi (range D)) (range D).
Proof.
  apply NoDup_Permutation.
  - apply nodup_map_inj. 2: apply nodup_range.
    intros x y Hx Hy. apply in_range in Hx, Hy. now apply pi_inj.
  - apply nodup_range.
  - intros x. rewrite in_map_iff. split.
    + intros (y & <- & Hy). apply in_range in Hy. apply in_range. now apply pi_lt.
    + intros Hx. apply in_range in Hx. exists (pinv x). split. now apply pi_pinv.
      apply in_range. now apply pinv_lt.
Qed.
End StatePerm.

(** * degree-preserving automorphisms of the order monoid N^k *)
Section OrderAuto.
Variable k : nat.
Variables f g : mi -> mi.
Hypothesis f_len : forall n, length n = k -> length (f n) = k.
Hypothesis g_len : forall n, length n = k -> length (g n) = k.
Hypothesis gf : forall n, length n = k -> g (f n) = n.
Hypothesis fg : forall n, length n = k -> f (g n) = n.
Hypothesis f_padd : forall a b, length a = k -> length b = k -> f (padd a b) = padd (f a) (f b).
Hypothesis f_deg : forall n, length n = k -> deg (f n) = deg n.

Lemma g_padd a b : length a = k -> length b = k -> g (padd a b) = padd (g a) (g b).
Proof.
  intros La Lb.
  rewrite <- (fg a La), <- (fg b Lb) at 1.
  rewrite <- f_padd by (apply g_len; assumption).
  apply gf. rewrite padd_length; rewrite !g_len; auto.
Qed.

Lemma f_is_zero n : length n = k -> is_zero (f n) = is_zero n.
Proof.
  intros L. apply eq_true_iff_eq. rewrite !is_zero_deg, f_deg by assumption. tauto.
Qed.

Lemma auto_splits n : length n = k ->
  Permutation (map (fun ab => (f (fst ab), f (snd ab))) (splits n)) (splits (f n)).
Proof.
  intros L. apply NoDup_Permutation.
  - apply nodup_map_inj. 2: apply nodup_splits.
    intros (a, b) (a', b') I I' E. cbn [fst snd] in E. injection E as E1 E2.
    apply splits_length in I, I'. destruct I as [La Lb], I' as [La' Lb'].
    rewrite L in *. f_equal.
    + rewrite <- (gf a La), <- (gf a' La'), E1. reflexivity.
    + rewrite <- (gf b Lb), <- (gf b' Lb'), E2. reflexivity.
  - apply nodup_splits.
  - intros (a', b'). rewrite in_map_iff. split.
    + intros ((a, b) & E & I). cbn [fst snd] in E. injection E as <- <-.
      apply in_splits in I. destruct I as (La & Lb & P). rewrite L in *.
      apply in_splits. unfold issplit. rewrite !f_len by assumption.
      repeat split. rewrite <- P. symmetry. now apply f_padd.
    + intros I. apply in_splits in I. destruct I as (La & Lb & P).
      rewrite f_len in La, Lb by assumption.
      exists (g a', g b'). cbn [fst snd]. split.
      * now rewrite !fg.
      * apply in_splits. unfold issplit. rewrite !g_len, L by assumption.
        repeat split. rewrite <- g_padd, P by assumption. now apply gf.
Qed.
End OrderAuto.

(** * orders with a leading entry (vanishing perturbation inserted in front) *)
Lemma splits_cons0 n :
  splits (0 :: n) = map (fun ab => (0 :: fst ab, 0 :: snd ab)) (splits n).
Proof. cbn [splits seq flat_map]. rewrite app_nil_r. reflexivity. Qed.

Lemma splits_cons_pos m n a b :
  In (a, b) (splits (m :: n)) -> m <> 0 ->
  exists i j a' b', a = i :: a' /\ b = j :: b' /\ (i <> 0 \/ j <> 0).
Proof.
  intros I Hm. apply in_splits in I. destruct I as (La & Lb & P).
  destruct a as [|i a'], b as [|j b']; try discriminate.
  cbn in P. injection P as P1 P2. exists i, j, a', b'. repeat split. lia.
Qed.

Lemma is_zero_cons0 n : is_zero (0 :: n) = is_zero n.
Proof. reflexivity. Qed.

Lemma is_zero_cons_pos m n : m <> 0 -> is_zero (m :: n) = false.
Proof. intros H. rewrite is_zero_cons. destruct (Nat.eqb_spec 0 m). congruence. reflexivity. Qed.

Lemma deg_cons0 n : deg (0 :: n) = deg n.
Proof. reflexivity. Qed.

(** * permutations of the k parameters given by a list [sg] (new position a reads old position
      [nth a sg]) together with the list [sg'] of the inverse permutation *)
Section ParamPerm.
Variable k : nat.
Variables sg sg' : list nat.
Hypothesis sg_len : length sg = k.
Hypothesis sg_len' : length sg' = k.
Hypothesis sg_inv : map (fun j => nth j sg k) sg' = seq 0 k.
Hypothesis sg_inv' : map (fun j => nth j sg' k) sg = seq 0 k.

Definition pm (s : list nat) (n : mi) : mi := map (fun i => nth i n 0) s.

Lemma pm_len n : length n = k -> length (pm sg n) = k.
Proof. intros _. unfold pm. now rewrite map_length. Qed.
Lemma pm_len' n : length n = k -> length (pm sg' n) = k.
Proof. intros _. unfold pm. now rewrite map_length. Qed.

Lemma nth_seq_map (n : mi) : map (fun i => nth i n 0) (seq 0 (length n)) = n.
Proof.
  induction n as [|d n IH]. reflexivity.
  cbn [length seq map nth]. f_equal. rewrite <- seq_shift, map_map. exact IH.
Qed.

Lemma pm_pm (s s' : list nat) n :
  length n = k -> length s = k -> map (fun j => nth j s k) s' = seq 0 k -> pm s' (pm s n) = n.
Proof.
  intros Ln Ls Hs. unfold pm.
  transitivity (map (fun j => nth (nth j s k) n 0) s').
  - apply map_ext. intros j.
    rewrite <- (map_nth (fun i => nth i n 0) s k j).
    rewrite (nth_overflow n (n := k)) by (rewrite Ln; apply le_n). reflexivity.
  - rewrite <- (map_map (fun j => nth j s k) (fun i => nth i n 0)), Hs, <- Ln. apply nth_seq_map.
Qed.

Lemma pm_gf n : length n = k -> pm sg' (pm sg n) = n.
Proof. intros L. now apply pm_pm. Qed.
Lemma pm_fg n : length n = k -> pm sg (pm sg' n) = n.
Proof. intros L. now apply pm_pm. Qed.

Lemma nth_padd i a b : length a = length b -> nth i (padd a b) 0 = nth i a 0 + nth i b 0.
Proof.
  revert i b. induction a as [|x a IH]; intros i [|y b] L; try discriminate L.
  - destruct i; reflexivity.
  - destruct i; cbn [padd nth]. reflexivity. apply IH. now injection L.
Qed.

Lemma padd_map (F G : nat -> nat) l : padd (map F l) (map G l) = map (fun i => F i + G i) l.
Proof. induction l as [|x l IH]; cbn [map padd]. reflexivity. now rewrite IH. Qed.

Lemma pm_padd a b : length a = k -> length b = k -> pm sg (padd a b) = padd (pm sg a) (pm sg b).
Proof.
  intros La Lb. unfold pm. rewrite padd_map. apply map_ext. intros i. apply nth_padd. congruence.
Qed.

Lemma deg_perm l l' : Permutation l l' -> deg l = deg l'.
Proof. induction 1; cbn [deg]; lia. Qed.

Lemma sg_perm : Permutation sg (seq 0 k).
Proof.
  apply NoDup_Permutation_bis.
  - apply (NoDup_map_inv (fun j => nth j sg' k)). rewrite sg_inv'. apply seq_NoDup.
  - rewrite seq_length, sg_len. apply le_n.
  - intros j Hj. apply in_seq. split. lia. cbn.
    destruct (Nat.lt_ge_cases j k) as [H|H]; auto.
    assert (I : In (nth j sg' k) (seq 0 k)).
    { rewrite <- sg_inv'. apply in_map_iff. exists j. auto. }
    rewrite nth_overflow in I by lia. apply in_seq in I. lia.
Qed.

Lemma pm_deg n : length n = k -> deg (pm sg n) = deg n.
Proof.
  intros L. unfold pm.
  rewrite (deg_perm _ _ (Permutation_map (fun i => nth i n 0) sg_perm)), <- L, nth_seq_map.
  reflexivity.
Qed.
End ParamPerm.

Example pm_swap : pm [1; 0] [3; 5] = [5; 3].
Proof. reflexivity. Qed.

(** * direct sums: the states of the first summand are 0..D1-1, those of the second D1..D1+D2-1 *)
Section SumIdx.
Variables D1 D2 : nat.
Definition lo (p : nat) : bool := Nat.ltb p D1.
Definition sh (p : nat) : nat := p - D1.

Lemma map_add_seq a s l : map (fun r => a + r) (seq s l) = seq (a + s) l.
Proof.
  revert s. induction l as [|l IH]; intros s; cbn [seq map]. reflexivity.
  rewrite IH. f_equal. f_equal. lia.
Qed.

Lemma range_add : range (D1 + D2) = range D1 ++ map (fun r => D1 + r) (range D2).
Proof. unfold range. rewrite seq_app, map_add_seq. do 2 f_equal. lia. Qed.

Lemma lo_true r : r < D1 -> lo r = true.
Proof. intros H. apply Nat.ltb_lt. exact H. Qed.
Lemma lo_add r : lo (D1 + r) = false.
Proof. apply Nat.ltb_ge. lia. Qed.
Lemma sh_add r : sh (D1 + r) = r.
Proof. unfold sh. lia. Qed.
Lemma lo_lt p : lo p = true -> p < D1.
Proof. apply Nat.ltb_lt. Qed.
Lemma sh_lt p : p < D1 + D2 -> lo p = false -> sh p < D2.
Proof. intros H L. apply Nat.ltb_ge in L. unfold sh. lia. Qed.
Lemma sh_inv p : lo p = false -> D1 + sh p = p.
Proof. intros L. apply Nat.ltb_ge in L. unfold sh. lia. Qed.
Lemma eqb_lo_mixed p q : lo p = true -> lo q = false -> Nat.eqb p q = false.
Proof. intros Lp Lq. apply Nat.ltb_lt in Lp. apply Nat.ltb_ge in Lq. apply Nat.eqb_neq. lia. Qed.
Lemma eqb_sh p q : lo p = false -> lo q = false -> Nat.eqb (sh p) (sh q) = Nat.eqb p q.
Proof.
  intros Lp Lq. apply Nat.ltb_ge in Lp, Lq. unfold sh.
  destruct (Nat.eqb_spec p q) as [->|N]. apply Nat.eqb_refl. apply Nat.eqb_neq. lia.
Qed.

(** block structure of the sum: even labels for the first summand, odd for the second *)
Variables blk1 blk2 : nat -> nat.
Variables keep1 keep2 : nat -> nat -> bool.
Variables cm1 cm2 : nat -> bool.
Definition blkS (p : nat) : nat := if lo p then 2 * blk1 p else 2 * blk2 (sh p) + 1.
Definition keepS (p q : nat) : bool :=
  if lo p then (if lo q then keep1 p q else false) else (if lo q then false else keep2 (sh p) (sh q)).
Definition cmS (p : nat) : bool := if lo p then cm1 p else cm2 (sh p).

Hypothesis keep_sym1 : forall p q, keep1 p q = keep1 q p.
Hypothesis keep_sym2 : forall p q, keep2 p q = keep2 q p.
Hypothesis keep_refl1 : forall p, keep1 p p = true.
Hypothesis keep_refl2 : forall p, keep2 p p = true.
Hypothesis keep_blk1 : forall p q, keep1 p q = true -> blk1 p = blk1 q.
Hypothesis keep_blk2 : forall p q, keep2 p q = true -> blk2 p = blk2 q.
Hypothesis cm_blk1 : forall p q, blk1 p = blk1 q -> cm1 p = cm1 q.
Hypothesis cm_blk2 : forall p q, blk2 p = blk2 q -> cm2 p = cm2 q.

Lemma keepS_sym p q : keepS p q = keepS q p.
Proof. unfold keepS. destruct (lo p), (lo q); auto. Qed.
Lemma keepS_refl p : keepS p p = true.
Proof. unfold keepS. destruct (lo p); auto. Qed.
Lemma keepS_blk p q : keepS p q = true -> blkS p = blkS q.
Proof.
  unfold keepS, blkS. destruct (lo p), (lo q); intros K; try discriminate.
  - now rewrite (keep_blk1 _ _ K).
  - now rewrite (keep_blk2 _ _ K).
Qed.
Lemma cmS_blk p q : blkS p = blkS q -> cmS p = cmS q.
Proof.
  unfold cmS, blkS. destruct (lo p), (lo q); intros B.
  - apply cm_blk1. lia.
  - exfalso. lia.
  - exfalso. lia.
  - apply cm_blk2. lia.
Qed.

Lemma keepS_eucl :
  keep_eucl_on D1 keep1 cm1 -> keep_eucl_on D2 keep2 cm2 -> keep_eucl_on (D1 + D2) keepS cmS.
Proof.
  intros H1 H2 p q r Hp Hq Hr. unfold keepS, cmS.
  destruct (lo p) eqn:Lp, (lo q) eqn:Lq, (lo r) eqn:Lr; intros C K1 K2; try discriminate.
  - apply (H1 p q r); auto using lo_lt.
  - apply (H2 (sh p) (sh q) (sh r)); auto using sh_lt.
Qed.
End SumIdx.

(** * push-forward along a morphism  pr : N^k' -> N^k  of order monoids with finite fibres

    [fib n] enumerates the fibre of n.  The pairs (a, b) of source orders with
    pr (a + b) = n are enumerated in two ways: fibre of n, then splittings of its elements;
    splittings (n1, n2) of n, then fibre of n1 times fibre of n2. *)
Section Push.
Variables k k' : nat.
Variable pr : mi -> mi.
Variable fib : mi -> list mi.
Hypothesis fib_spec : forall n a, length n = k -> (In a (fib n) <-> length a = k' /\ pr a = n).
Hypothesis fib_nodup : forall n, length n = k -> NoDup (fib n).
Hypothesis pr_len : forall a, length a = k' -> length (pr a) = k.
Hypothesis pr_padd : forall a b, length a = k' -> length b = k' -> pr (padd a b) = padd (pr a) (pr b).

Definition pairs1 (n : mi) : list (mi * mi) := flat_map splits (fib n).
Definition prodl (la lb : list mi) : list (mi * mi) :=
  flat_map (fun a => map (fun b => (a, b)) lb) la.
Definition pairs2 (n : mi) : list (mi * mi) :=
  flat_map (fun n12 => prodl (fib (fst n12)) (fib (snd n12))) (splits n).

Lemma in_prodl la lb a b : In (a, b) (prodl la lb) <-> In a la /\ In b lb.
Proof.
  unfold prodl. rewrite in_flat_map. split.
  - intros (x & Hx & H). apply in_map_iff in H. destruct H as (y & E & Hy). inversion E; subst. auto.
  - intros [Ha Hb]. exists a. split; auto. apply in_map_iff. exists b. auto.
Qed.

Lemma nodup_prodl la lb : NoDup la -> NoDup lb -> NoDup (prodl la lb).
Proof.
  intros Ha Hb. unfold prodl. apply nodup_flat_map; auto.
  - intros a _. apply nodup_map_inj; auto. intros x y _ _ E. now inversion E.
  - intros a a' (x, y) _ _ I I'. apply in_map_iff in I, I'.
    destruct I as (? & E & _), I' as (? & E' & _). inversion E; inversion E'; subst. congruence.
Qed.

Lemma in_pairs1 n a b : length n = k ->
  (In (a, b) (pairs1 n) <-> length a = k' /\ length b = k' /\ pr (padd a b) = n).
Proof.
  intros L. unfold pairs1. rewrite in_flat_map. split.
  - intros (c & Hc & I). apply (fib_spec n c L) in Hc. destruct Hc as [Lc Pc].
    apply in_splits in I. destruct I as (La & Lb & P). subst c. repeat split; congruence.
  - intros (La & Lb & P). exists (padd a b). split.
    + apply (fib_spec n _ L). split; auto. rewrite padd_length; congruence.
    + apply in_splits. unfold issplit. rewrite padd_length by congruence. repeat split; congruence.
Qed.

Lemma in_pairs2 n a b : length n = k ->
  (In (a, b) (pairs2 n) <-> length a = k' /\ length b = k' /\ pr (padd a b) = n).
Proof.
  intros L. unfold pairs2. rewrite in_flat_map. split.
  - intros ((n1, n2) & I & J). cbn [fst snd] in J. apply in_prodl in J. destruct J as [Ja Jb].
    apply in_splits in I. destruct I as (L1 & L2 & P).
    apply (fib_spec n1 a) in Ja; [|congruence]. apply (fib_spec n2 b) in Jb; [|congruence].
    destruct Ja as [La Pa], Jb as [Lb Pb]. repeat split; auto. rewrite pr_padd; congruence.
  - intros (La & Lb & P). exists (pr a, pr b). cbn [fst snd]. split.
    + apply in_splits. unfold issplit. rewrite !pr_len by assumption. rewrite <- pr_padd by assumption.
      repeat split; congruence.
    + apply in_prodl. split.
      * apply (fib_spec (pr a) a). now apply pr_len. auto.
      * apply (fib_spec (pr b) b). now apply pr_len. auto.
Qed.

Lemma nodup_pairs1 n : length n = k -> NoDup (pairs1 n).
Proof.
  intros L. unfold pairs1. apply nodup_flat_map. now apply fib_nodup.
  - intros c _. apply nodup_splits.
  - intros c c' (a, b) _ _ I I'. apply in_splits in I, I'.
    destruct I as (_ & _ & <-), I' as (_ & _ & <-). reflexivity.
Qed.

Lemma nodup_pairs2 n : length n = k -> NoDup (pairs2 n).
Proof.
  intros L. unfold pairs2. apply nodup_flat_map. apply nodup_splits.
  - intros (n1, n2) I. apply in_splits in I. destruct I as (L1 & L2 & _). cbn [fst snd].
    apply nodup_prodl; apply fib_nodup; congruence.
  - intros (n1, n2) (n1', n2') (a, b) I I' J J'. cbn [fst snd] in J, J'.
    apply in_prodl in J, J'. destruct J as [Ja Jb], J' as [Ja' Jb'].
    apply in_splits in I, I'. destruct I as (L1 & L2 & _), I' as (L1' & L2' & _).
    apply (fib_spec n1 a) in Ja; [|congruence]. apply (fib_spec n2 b) in Jb; [|congruence].
    apply (fib_spec n1' a) in Ja'; [|congruence]. apply (fib_spec n2' b) in Jb'; [|congruence].
    destruct Ja as [_ <-], Jb as [_ <-], Ja' as [_ <-], Jb' as [_ <-]. reflexivity.
Qed.

Lemma pairs_perm n : length n = k -> Permutation (pairs1 n) (pairs2 n).
Proof.
  intros L. apply NoDup_Permutation. now apply nodup_pairs1. now apply nodup_pairs2.
  intros (a, b). rewrite (in_pairs1 n a b L), (in_pairs2 n a b L). tauto.
Qed.

(** fibres over zero and over non-zero orders *)
Hypothesis pr_zero : pr (mzero k') = mzero k.
Hypothesis pr_deg : forall a, length a = k' -> deg a <= deg (pr a).

Lemma fib_is_zero n a : length n = k -> In a (fib n) -> is_zero a = is_zero n.
Proof.
  intros L I. apply (fib_spec n a L) in I. destruct I as [La <-].
  apply eq_true_iff_eq. rewrite !is_zero_deg. split.
  - intros Z. rewrite (@deg0_mzero k' a La Z), pr_zero. apply deg_mzero.
  - intros Z. pose proof (pr_deg a La). lia.
Qed.

Lemma fib_zero_in : In (mzero k') (fib (mzero k)).
Proof. apply fib_spec. apply mzero_length. split. apply mzero_length. exact pr_zero. Qed.

Lemma fib_zero_only a : In a (fib (mzero k)) -> a = mzero k'.
Proof.
  intros I. pose proof (fib_is_zero (mzero k) a (mzero_length k) I) as Z.
  rewrite is_zero_mzero_k in Z. apply (fib_spec _ _ (mzero_length k)) in I. destruct I as [La _].
  apply is_zero_mzero in Z. now rewrite La in Z.
Qed.

Lemma fib_deg n a : length n = k -> In a (fib n) -> deg a <= deg n.
Proof. intros L I. apply (fib_spec n a L) in I. destruct I as [La <-]. now apply pr_deg. Qed.
End Push.

(** ** instance: two parameters given the same name (merge the first two) *)
Definition mrg (a : mi) : mi := match a with a0 :: a1 :: r => (a0 + a1) :: r | _ => [] end.
Definition mrg_fib (n : mi) : list mi :=
  match n with m :: r => map (fun i => i :: (m - i) :: r) (seq 0 (S m)) | [] => [] end.

Lemma mrg_fib_spec k n a : length n = S k -> (In a (mrg_fib n) <-> length a = S (S k) /\ mrg a = n).
Proof.
  intros L. destruct n as [|m r]; [discriminate|]. cbn [mrg_fib]. rewrite in_map_iff. split.
  - intros (i & <- & Hi). apply in_seq in Hi. cbn in L |- *. split. lia. f_equal. lia.
  - intros [La E]. destruct a as [|a0 [|a1 ra]]; try discriminate. cbn in E. inversion E; subst.
    exists a0. split. f_equal. f_equal. lia. apply in_seq. lia.
Qed.
Lemma mrg_fib_nodup n : NoDup (mrg_fib n).
Proof.
  destruct n as [|m r]. constructor. cbn [mrg_fib]. apply nodup_map_inj. 2: apply seq_NoDup.
  intros x y _ _ E. now inversion E.
Qed.
Lemma mrg_len k a : length a = S (S k) -> length (mrg a) = S k.
Proof. destruct a as [|a0 [|a1 r]]; try discriminate. cbn. lia. Qed.
Lemma mrg_padd k a b : length a = S (S k) -> length b = S (S k) -> mrg (padd a b) = padd (mrg a) (mrg b).
Proof.
  destruct a as [|a0 [|a1 ra]], b as [|b0 [|b1 rb]]; try discriminate. intros _ _. cbn. f_equal. lia.
Qed.
Lemma mrg_zero k : mrg (mzero (S (S k))) = mzero (S k).
Proof. reflexivity. Qed.
Lemma mrg_deg k a : length a = S (S k) -> deg a <= deg (mrg a).
Proof. destruct a as [|a0 [|a1 r]]; try discriminate. intros _. cbn. lia. Qed.

(** ** instance: substitution lambda -> lambda^p in the first parameter (p >= 1) *)
Section Pow.
Variable p : nat.
Hypothesis p_pos : 0 < p.
Definition pw (a : mi) : mi := match a with a0 :: r => (p * a0) :: r | [] => [] end.
Definition pw_fib (n : mi) : list mi :=
  match n with m :: r => if Nat.eqb (m mod p) 0 then [(m / p) :: r] else [] | [] => [[]] end.

Lemma pw_fib_spec k n a : length n = k -> (In a (pw_fib n) <-> length a = k /\ pw a = n).
Proof.
  intros L. destruct n as [|m r]; cbn [pw_fib].
  - cbn in L. subst k. split.
    + intros [<-|[]]. auto.
    + intros [La _]. destruct a; [left; auto|discriminate].
  - destruct (Nat.eqb_spec (m mod p) 0) as [Z|N].
    + split.
      * intros [<-|[]]. cbn in L |- *. split. lia. f_equal.
        symmetry. apply Nat.div_exact; lia.
      * intros [La E]. destruct a as [|a0 ra]; [discriminate|]. cbn in E. inversion E; subst.
        left. f_equal. rewrite Nat.mul_comm, Nat.div_mul; lia.
    + split. intros []. intros [La E]. destruct a as [|a0 ra]; [discriminate|]. cbn in E. inversion E; subst.
      elim N. rewrite Nat.mul_comm. apply Nat.mod_mul. lia.
Qed.
Lemma pw_fib_nodup n : NoDup (pw_fib n).
Proof.
  destruct n as [|m r]; cbn [pw_fib]. repeat constructor; auto.
  destruct (Nat.eqb (m mod p) 0); repeat constructor; auto.
Qed.
Lemma pw_len k a : length a = k -> length (pw a) = k.
Proof. destruct a; cbn; auto. Qed.
Lemma pw_padd a b : length a = length b -> pw (padd a b) = padd (pw a) (pw b).
Proof. destruct a as [|a0 ra], b as [|b0 rb]; try discriminate; intros _; cbn; auto. f_equal. lia. Qed.
Lemma pw_zero k : pw (mzero k) = mzero k.
Proof. destruct k; cbn; auto. f_equal. lia. Qed.
Lemma pw_deg a : deg a <= deg (pw a).
Proof. destruct a as [|a0 r]; cbn; auto. nia. Qed.
End Pow.
