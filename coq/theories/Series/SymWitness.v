(** Computational confirmation of the covariance theorems on the witness of Alg/MainWitness.v
    (4 states, blocks {0} | {1,2} | {3}, two parameters, complex Hermitian perturbations, total
    order <= 2, the values computed by the implementation): the conjugated / rescaled /
    parameter-swapped tables of ALL series again satisfy every equation of [main_alg] - as the
    theorems of Props/C13.v and Props/C15.v predict, they are the solution for the transformed
    input. *)
Require Import List ZArith QArith String.
From PV.Series Require Import MultiIndex Exec SymScale.
From PV.Block Require Import QLemmas QInst.
From PV.DSL Require Import Syntax.
From PV.Gen Require Import Algorithms_gen.
From PV.Alg Require Import SemExec MainWitness.
Import ListNotations.
Open Scope string_scope.

Definition tmap (f : mi -> gq -> gq) (t : tser gq) : tser gq :=
  map (fun nm => (fst nm, map (map (f (fst nm))) (snd nm))) t.
Definition smap (f : mi -> gq -> gq) (s : list (string * tser gq)) : list (string * tser gq) :=
  map (fun st => (fst st, tmap f (snd st))) s.
Definition tkey (g : mi -> mi) (t : tser gq) : tser gq := map (fun nm => (g (fst nm), snd nm)) t.
Definition skey (g : mi -> mi) (s : list (string * tser gq)) : list (string * tser gq) :=
  map (fun st => (fst st, tkey g (snd st))) s.

Definition wit_check (s : list (string * tser gq)) : bool :=
  check_alg 4 2 2 [0;1;1;2]%nat
    [[true;false;false;false];[false;true;true;false];[false;true;true;false];[false;false;false;true]]
    [true;true;true] [((0#1),(0#1));((2#1),(0#1));((2#1),(0#1));((5#1),(0#1))]%Q false s main_alg.

Example wit_base : wit_check main_wit_sols = true.
Proof. vm_compute. reflexivity. Qed.

(** C15 conjugation *)
Example wit_conj : wit_check (smap (fun _ => gq_conj) main_wit_sols) = true.
Proof. vm_compute. reflexivity. Qed.

(** C13 scale with c = (2, -1/2) *)
Definition wit_c : list gq := [((2#1),(0#1)); ((-1#2),(0#1))]%Q.
Example wit_scale : wit_check (smap (fun n z => gq_mul (cpow wit_c n) z) main_wit_sols) = true.
Proof. vm_compute. reflexivity. Qed.

(** C13 permute: the two parameters exchanged *)
Example wit_swap : wit_check (skey (fun n => match n with [a; b] => [b; a] | _ => n end) main_wit_sols) = true.
Proof. vm_compute. reflexivity. Qed.

(** the transformed tables differ from the original ones (the checks above are not vacuous) *)
Example wit_changed :
  negb (teqb 4 2 2 (tsol (smap (fun _ => gq_conj) main_wit_sols) "U") (tsol main_wit_sols "U")) = true.
Proof. vm_compute. reflexivity. Qed.
