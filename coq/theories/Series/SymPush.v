(** C13, push-forward of series along a morphism  pr : N^k' -> N^k  of the order monoids with
    finite fibres:  (push x) n := sum over the fibre of n of x a.  It is an [LAHom] from the
    algebra with k' parameters to the algebra with k parameters (the Cauchy product is
    preserved because the pairs (a, b) with pr (a + b) = n can be enumerated fibre-first or
    splitting-first, Series/SymIdx.v), commutes with the order-zero coefficient and fixes H_0.
    Instances: [mrg] (two perturbations given the same parameter: the result at order m is the
    sum of the two-parameter results over n1 + n2 = m) and [pw p] (lambda -> lambda^p). *)
Require Import Ncring Ncring_tac Setoid Morphisms List ZArith String Permutation.
From PV.Base Require Import Classes BigSum AlgLemmas.
From PV.Series Require Import MultiIndex Cauchy Lift Inst SylvInst Wiring SymBase SymIdx.
From PV.Block Require Import Mat Masks CoefAlg BlockSel.
From PV.DSL Require Import Syntax Sem.
From PV.Gen Require Import Algorithms_gen.
From PV.Alg Require Import MainLift MainCorrect Unique Equivariance MainInst.
Open Scope string_scope.

Section Push.
Variables D k k' : nat.
Context {R0 : Type} `{Rg : Ring R0} {CS : CStar R0}.
Variable blk : nat -> nat.
Variable keep : nat -> nat -> bool.
Variable cm : nat -> bool.
Hypothesis keep_sym : forall p q, keep p q = keep q p.
Hypothesis keep_refl : forall p, keep p p = true.
Hypothesis keep_blk : forall p q, keep p q = true -> blk p = blk q.
Hypothesis cm_blk : forall p q, blk p = blk q -> cm p = cm q.
Local Notation Ts := (T D k' R0).
Local Notation Tt := (T D k R0).
Local Notation BAs := (series_BlockAlg D k' blk keep cm keep_sym keep_blk cm_blk).
Local Notation BAt := (series_BlockAlg D k blk keep cm keep_sym keep_blk cm_blk).

Variable pr : mi -> mi.
Variable fib : mi -> list mi.
Hypothesis fib_spec : forall n a, List.length n = k -> (In a (fib n) <-> List.length a = k' /\ pr a = n).
Hypothesis fib_nodup : forall n, List.length n = k -> NoDup (fib n).
Hypothesis pr_len : forall a, List.length a = k' -> List.length (pr a) = k.
Hypothesis pr_padd : forall a b, List.length a = k' -> List.length b = k' -> pr (padd a b) = padd (pr a) (pr b).
Hypothesis pr_zero : pr (MultiIndex.mzero k') = MultiIndex.mzero k.
Hypothesis pr_deg : forall a, List.length a = k' -> (deg a <= deg (pr a))%nat.

Definition push (x : Ts) : Tt := fun n p q => bigsum (fun a => x a p q) (fib n).

Lemma fib_len n a : List.length n = k -> In a (fib n) -> List.length a = k'.
Proof. intros L I. apply (fib_spec n a L) in I. tauto. Qed.

Lemma push_P : Proper (_==_ ==> _==_) push.
Proof.
  intros x y H n Hn p q Hp Hq. unfold push. apply bigsum_ext. intros a I.
  apply H; auto. exact (fib_len n a Hn I).
Qed.

(** sums over a fibre: over the zero order only the zero order contributes *)
Lemma push_zero_fibre (F : mi -> R0) n : List.length n = k -> is_zero n = true ->
  bigsum F (fib n) == F (MultiIndex.mzero k').
Proof.
  intros Hn Z. apply is_zero_mzero in Z. rewrite Hn in Z. subst n.
  apply bigsum_single. apply fib_nodup. apply mzero_length.
  - exact (fib_zero_in k k' pr fib fib_spec pr_zero).
  - intros a I Ne. elim Ne. exact (fib_zero_only k k' pr fib fib_spec pr_zero pr_deg a I).
Qed.

Lemma push_mul (x y : Ts) : push (x * y) == push x * push y.
Proof.
  intros n Hn p q Hp Hq. rewrite (mul_entry (Rg := Rg) (push x) (push y)). unfold push at 1.
  pose (G := fun ab : mi * mi => bigsum (fun r => x (fst ab) p r * y (snd ab) r q) (range D)).
  transitivity (bigsum G (pairs1 fib n)).
  - unfold pairs1. rewrite bigsum_flat_map. apply bigsum_ext. intros c _.
    rewrite (mul_entry (Rg := Rg)). reflexivity.
  - rewrite (bigsum_perm G (pairs_perm k k' pr fib fib_spec fib_nodup pr_len pr_padd n Hn)).
    unfold pairs2. rewrite bigsum_flat_map. apply bigsum_ext. intros (n1, n2) _. cbn [fst snd].
    unfold prodl. rewrite bigsum_flat_map.
    transitivity (bigsum (fun a => bigsum (fun b => G (a, b)) (fib n2)) (fib n1)).
    { apply bigsum_ext. intros a _. rewrite bigsum_map. reflexivity. }
    unfold G. cbn [fst snd]. unfold push.
    transitivity (bigsum (fun r => bigsum (fun a => bigsum (fun b => x a p r * y b r q) (fib n2)) (fib n1)) (range D)).
    { symmetry.
      etransitivity. apply (bigsum_exchange (fun r a => bigsum (fun b => x a p r * y b r q) (fib n2)) (range D) (fib n1)).
      apply bigsum_ext. intros a _.
      apply (bigsum_exchange (fun r b => x a p r * y b r q) (range D) (fib n2)). }
    apply bigsum_ext. intros r _. rewrite bigsum_mul_r. apply bigsum_ext. intros a _.
    rewrite bigsum_mul_l. reflexivity.
Qed.

Lemma push_LAHom : LAHom (BA := BAs) (BA' := BAt) push.
Proof.
  apply mkLAHom.
  - exact push_P.
  - intros x y n Hn p q Hp Hq. rewrite add_entry. unfold push. rewrite <- bigsum_add.
    apply bigsum_ext. intros a _. reflexivity.
  - intros x n Hn p q Hp Hq. rewrite opp_entry. unfold push. rewrite <- bigsum_opp.
    apply bigsum_ext. intros a _. reflexivity.
  - intros n Hn p q Hp Hq. unfold push. rewrite (one_entry D k). destruct (is_zero n) eqn:Z.
    + rewrite (push_zero_fibre (fun a => (1 : Ts) a p q) n Hn Z), one_entry, is_zero_mzero_k. reflexivity.
    + apply bigsum_zero. intros a I. rewrite one_entry.
      rewrite (fib_is_zero k k' pr fib fib_spec pr_zero pr_deg n a Hn I), Z. reflexivity.
  - exact push_mul.
  - intros x n Hn p q Hp Hq.
    rewrite (adj_entry (k := k) blk keep cm keep_sym keep_blk cm_blk). unfold push.
    rewrite (bigsum_morph (phi := conj) _ _ conj_zero conj_add conj_P).
    apply bigsum_ext. intros a _. reflexivity.
  - intros x n Hn p q Hp Hq.
    rewrite (Sel_entry (k := k) blk keep cm keep_sym keep_blk cm_blk). unfold push.
    destruct (keep p q) eqn:K.
    + apply bigsum_ext. intros a _. rewrite (Sel_entry (k := k') blk keep cm keep_sym keep_blk cm_blk), K. reflexivity.
    + apply bigsum_zero. intros a _. rewrite (Sel_entry (k := k') blk keep cm keep_sym keep_blk cm_blk), K. reflexivity.
  - intros m x Hx. apply (ord_iff (k := k) blk keep cm keep_sym keep_blk cm_blk).
    intros n p q Hn Hd Hp Hq. unfold push. apply bigsum_zero. intros a I.
    apply (proj1 (ord_iff (k := k') blk keep cm keep_sym keep_blk cm_blk m x) Hx a p q); auto.
    + exact (fib_len n a Hn I).
    + eapply Nat.le_lt_trans. 2: exact Hd. exact (fib_deg k k' pr fib fib_spec pr_deg n a Hn I).
Qed.

Lemma push_Zc (x : Ts) : push (Zc (BlockAlg := BAs) x) == Zc (BlockAlg := BAt) (push x).
Proof.
  intros n Hn p q Hp Hq. rewrite (Zc_entry (k := k) blk keep cm keep_sym keep_blk cm_blk). unfold push.
  destruct (is_zero n) eqn:Z.
  - apply bigsum_ext. intros a I. rewrite (Zc_entry (k := k') blk keep cm keep_sym keep_blk cm_blk).
    rewrite (fib_is_zero k k' pr fib fib_spec pr_zero pr_deg n a Hn I), Z. reflexivity.
  - apply bigsum_zero. intros a I. rewrite (Zc_entry (k := k') blk keep cm keep_sym keep_blk cm_blk).
    rewrite (fib_is_zero k k' pr fib fib_spec pr_zero pr_deg n a Hn I), Z. reflexivity.
Qed.

Variable E : nat -> R0.
Lemma push_H0 : push (SylvInst.H0 D k' E) == SylvInst.H0 D k E.
Proof.
  intros n Hn p q Hp Hq. unfold push. destruct (is_zero n) eqn:Z.
  - rewrite (push_zero_fibre (fun a => SylvInst.H0 D k' E a p q) n Hn Z).
    unfold SylvInst.H0. rewrite is_zero_mzero_k, Z. reflexivity.
  - transitivity (0 : R0).
    + apply bigsum_zero. intros a I. unfold SylvInst.H0.
      rewrite (fib_is_zero k k' pr fib fib_spec pr_zero pr_deg n a Hn I), Z. reflexivity.
    + unfold SylvInst.H0. rewrite Z. reflexivity.
Qed.

Hypothesis E_real : forall p, conj (E p) == E p.
Hypothesis keep_eucl : keep_eucl_on D keep cm.
Variable inv : R0 -> R0.
Hypothesis inv_spec : forall p q, (p < D)%nat -> (q < D)%nat -> keep p q = false ->
                                  (E p - E q) * inv (E p - E q) == 1.
Hypothesis inv_P : Proper (_==_ ==> _==_) inv.
Hypothesis inv_opp : forall x, inv (- x) == - inv x.
Hypothesis inv_conj : forall x, conj (inv x) == inv (conj x).
Variable rflag : string -> Ts -> Ts.
Variable fenv : string -> list Ts -> Ts.
Variable rflag' : string -> Tt -> Tt.
Variable fenv' : string -> list Tt -> Tt.
Hypothesis rflag_spec : forall x, rflag "commuting_blocks" x == Rw (BlockAlg := BAs) x.
Hypothesis fenv_spec : forall y, fenv "solve_sylvester" (cons y nil) == SylvInst.sylv E inv y.
Hypothesis rflag_spec' : forall x, rflag' "commuting_blocks" x == Rw (BlockAlg := BAt) x.
Hypothesis fenv_spec' : forall y, fenv' "solve_sylvester" (cons y nil) == SylvInst.sylv E inv y.
Variable sol : string -> Ts.
Variable sol' : string -> Tt.
Hypothesis Hsol : solution (BA := BAs) (gflag_of false) rflag fenv sol main_alg.
Hypothesis Hsol' : solution (BA := BAt) (gflag_of false) rflag' fenv' sol' main_alg.
Hypothesis H_herm : adj (BlockAlg := BAs) (sol "H") == sol "H".
Hypothesis H_zero : Zc (BlockAlg := BAs) (sol "H") == SylvInst.H0 D k' E.
Hypothesis Hin : sol' "H" == push (sol "H").

Theorem push_covariant :
  sol' "U" == push (sol "U") /\ sol' "U†" == push (sol "U†") /\ sol' "H_tilde" == push (sol "H_tilde").
Proof.
  exact (inst_transport D k' blk keep cm keep_sym keep_refl keep_blk cm_blk keep_eucl E inv inv_spec
           E_real inv_P inv_opp inv_conj
           D k blk keep cm keep_sym keep_refl keep_blk cm_blk keep_eucl E inv inv_spec
           E_real inv_P inv_opp inv_conj
           push push_LAHom push_Zc push_H0 rflag fenv rflag' fenv' rflag_spec fenv_spec
           rflag_spec' fenv_spec' sol sol' Hsol Hsol' H_herm H_zero Hin).
Qed.
End Push.
