(** The entry-wise diagonal Sylvester solver in the concrete [BlockAlg] of Series/Inst.v.

    H0 := the series whose only coefficient (order zero) is diag(E);
    sylv y := (n, p, q) |-> y(n)[p,q] * inv (E p - E q),
    where [inv d] inverts the energy differences of the ELIMINATED pairs (keep p q = false).
    Then  Rp (H0 * sylv y - sylv y * H0) == Rp y  with  Rp x := x - Sel x. *)
Require Import Ncring Ncring_tac Setoid Morphisms List ZArith.
From PV.Base Require Import Classes BigSum.
From PV.Series Require Import MultiIndex Cauchy Lift Inst.
From PV.Block Require Import Mat Masks CoefAlg BlockSel.
Set Implicit Arguments.

Section Sylv.
Variables D k : nat.
Context {R0 : Type} `{Rg : Ring R0} {CS : CStar R0}.
Variable blk : nat -> nat.
Variable keep : nat -> nat -> bool.
Variable cm : nat -> bool.
Hypothesis keep_sym : forall p q, keep p q = keep q p.
Hypothesis keep_refl : forall p, keep p p = true.
Hypothesis keep_blk : forall p q, keep p q = true -> blk p = blk q.
Hypothesis cm_blk : forall p q, blk p = blk q -> cm p = cm q.

Variable E : nat -> R0.        (* unperturbed energies *)
Variable inv : R0 -> R0.       (* inverse, used on the eliminated energy differences *)

Local Notation T := (T D k R0).
(* typeclass resolution produces the literal instance term of Series/Inst.v *)
Local Hint Extern 0 (BlockAlg _) =>
  exact (series_BlockAlg D k blk keep cm keep_sym keep_blk cm_blk) : typeclass_instances.

Definition H0 : T := fun n => if is_zero n then mdiag D E else mzero D.
Definition sylv (y : T) : T := fun n p q => y n p q * inv (E p - E q).
Local Notation Rp x := (x - Sel x) (only parsing).

Lemma H0_const a : is_zero a = false -> H0 a == 0.
Proof. intros Z. unfold H0. rewrite Z. reflexivity. Qed.

Lemma H0_mul_l (x : T) n p q :
  (p < D)%nat -> (q < D)%nat -> (H0 * x) n p q == E p * x n p q.
Proof.
  intros Hp Hq.
  rewrite (conv_const_l (k := k) H0 x n H0_const p q Hp Hq).
  unfold H0. rewrite is_zero_mzero_k. now apply mmul_diag_l.
Qed.

Lemma H0_mul_r (x : T) n p q :
  (p < D)%nat -> (q < D)%nat -> (x * H0) n p q == x n p q * E q.
Proof.
  intros Hp Hq.
  rewrite (conv_const_r (k := k) H0 x n H0_const p q Hp Hq).
  unfold H0. rewrite is_zero_mzero_k. now apply mmul_diag_r.
Qed.

Lemma comm_H0_entry (x : T) n p q :
  (p < D)%nat -> (q < D)%nat -> (H0 * x - x * H0) n p q == (E p - E q) * x n p q.
Proof.
  intros Hp Hq. rewrite sub_entry, H0_mul_l, H0_mul_r by assumption.
  rewrite (cs_comm (x n p q) (E q)). non_commutative_ring.
Qed.

(** ** H0 is kept, block diagonal, of order zero; Hermitian for real energies *)
Lemma Sel_H0 : Sel H0 == H0.
Proof.
  intros n _ p q _ _. rewrite Sel_entry. unfold H0.
  destruct (is_zero n).
  - unfold mdiag. destruct (Nat.eqb_spec p q).
    + subst. rewrite keep_refl. reflexivity.
    + destruct (keep p q); reflexivity.
  - destruct (keep p q); reflexivity.
Qed.

Lemma Dg_H0 : Dg H0 == H0.
Proof. rewrite <- Sel_H0. apply Dg_Sel. Qed.

Lemma Zc_H0 : Zc H0 == H0.
Proof.
  intros n _ p q _ _. rewrite Zc_entry. unfold H0. destruct (is_zero n); reflexivity.
Qed.

Lemma adj_H0 : (forall p, conj (E p) == E p) -> adj H0 == H0.
Proof.
  intros Er n _ p q _ _. rewrite adj_entry. unfold H0. destruct (is_zero n).
  - unfold mdiag. rewrite (Nat.eqb_sym q p). destruct (Nat.eqb_spec p q).
    + subst. apply Er.
    + apply conj_zero.
  - apply conj_zero.
Qed.

(** ** the solver *)
Global Instance sylv_P : Proper (_==_ ==> _==_) sylv.
Proof.
  intros x y H n Hn p q Hp Hq. unfold sylv. rewrite (H n Hn p q Hp Hq). reflexivity.
Qed.

Global Instance sylv_am : AddMap sylv.
Proof.
  split. exact sylv_P.
  - intros x y n _ p q _ _. rewrite add_entry. unfold sylv. rewrite add_entry.
    non_commutative_ring.
  - intros x n _ p q _ _. rewrite opp_entry. unfold sylv. rewrite opp_entry.
    non_commutative_ring.
Qed.

Lemma sylv_ord m y : ord m y -> ord m (sylv y).
Proof.
  intros H n Hn Hd p q Hp Hq. unfold sylv. rewrite (H n Hn Hd p q Hp Hq).
  change ((0 : T) n p q) with (0 : R0). non_commutative_ring.
Qed.

Hypothesis inv_spec : forall p q, (p < D)%nat -> (q < D)%nat -> keep p q = false ->
                                  (E p - E q) * inv (E p - E q) == 1.

Theorem sylv_spec y : Rp (H0 * sylv y - sylv y * H0) == Rp y.
Proof.
  intros n Hn p q Hp Hq.
  pose proof (comm_H0_entry (sylv y) n Hp Hq) as C.
  set (X := H0 * sylv y - sylv y * H0) in *.
  rewrite !sub_entry, !Sel_entry. destruct (keep p q) eqn:K.
  - non_commutative_ring.
  - rewrite C. unfold sylv.
    transitivity (y n p q * ((E p - E q) * inv (E p - E q)) - 0).
    + rewrite (cs_comm (E p - E q) (y n p q * inv (E p - E q))),
        (cs_comm (E p - E q) (inv (E p - E q))).
      non_commutative_ring.
    + rewrite (inv_spec Hp Hq K). non_commutative_ring.
Qed.

Lemma Sel_comm_H0 x : Sel (H0 * x - x * H0) == H0 * Sel x - Sel x * H0.
Proof.
  intros n Hn p q Hp Hq.
  pose proof (comm_H0_entry x n Hp Hq) as C1.
  pose proof (comm_H0_entry (Sel x) n Hp Hq) as C2.
  rewrite C2. set (X := H0 * x - x * H0) in *. rewrite !Sel_entry.
  destruct (keep p q). exact C1. non_commutative_ring.
Qed.

(** ** anti-Hermiticity is preserved for real energies *)
Hypothesis E_real : forall p, conj (E p) == E p.
Hypothesis inv_P : Proper (_==_ ==> _==_) inv.
Hypothesis inv_opp : forall x, inv (- x) == - inv x.
Hypothesis inv_conj : forall x, conj (inv x) == inv (conj x).

Lemma sylv_adj y : sylv (adj y) == - adj (sylv y).
Proof.
  intros n Hn p q Hp Hq. rewrite opp_entry, adj_entry. unfold sylv. rewrite adj_entry.
  rewrite conj_mul, inv_conj, conj_sub, !E_real.
  assert (X : inv (E p - E q) == - inv (E q - E p)).
  { rewrite <- inv_opp. apply inv_P. non_commutative_ring. }
  rewrite X. non_commutative_ring.
Qed.

End Sylv.
