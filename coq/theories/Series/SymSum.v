(** C15, direct sums: the block sum  x1 (+) x2  of a series of D1 x D1 matrices and a series of
    D2 x D2 matrices (same parameters) is multiplicative, unital (1 (+) 1 = 1) and commutes with
    subtraction, adjoint, selection, halving and the filtration.  Hence the block sum of the
    least-action transformations of H1 and H2 is a least-action transformation of H1 (+) H2, and
    by uniqueness it is the one computed for the direct sum: the result for a direct sum of
    decoupled Hamiltonians is the direct sum of the results.  The block structure of the sum:
    kept mask keep1 (+) keep2 (no kept element between the summands), energies E1 (+) E2, and a
    solver inverting ALL eliminated differences of the sum, in particular those between the two
    summands ("disjoint energy pools"). *)
Require Import Ncring Ncring_tac Setoid Morphisms List ZArith String.
From PV.Base Require Import Classes BigSum AlgLemmas.
From PV.Series Require Import MultiIndex Cauchy Lift Inst SylvInst Wiring SymBase SymIdx SymShift.
From PV.Block Require Import Mat Masks CoefAlg BlockSel.
From PV.DSL Require Import Syntax Sem.
From PV.Gen Require Import Algorithms_gen.
From PV.Alg Require Import MainLift MainCorrect Unique Equivariance MainInst.
Open Scope string_scope.

Section Sum.
Variables D1 D2 k : nat.
Context {R0 : Type} `{Rg : Ring R0} {CS : CStar R0}.
Variables blk1 blk2 : nat -> nat.
Variables keep1 keep2 : nat -> nat -> bool.
Variables cm1 cm2 : nat -> bool.
Hypothesis keep_sym1 : forall p q, keep1 p q = keep1 q p.
Hypothesis keep_sym2 : forall p q, keep2 p q = keep2 q p.
Hypothesis keep_refl1 : forall p, keep1 p p = true.
Hypothesis keep_refl2 : forall p, keep2 p p = true.
Hypothesis keep_blk1 : forall p q, keep1 p q = true -> blk1 p = blk1 q.
Hypothesis keep_blk2 : forall p q, keep2 p q = true -> blk2 p = blk2 q.
Hypothesis cm_blk1 : forall p q, blk1 p = blk1 q -> cm1 p = cm1 q.
Hypothesis cm_blk2 : forall p q, blk2 p = blk2 q -> cm2 p = cm2 q.

Local Notation DS := (Nat.add D1 D2).
Local Notation T1 := (T D1 k R0).
Local Notation T2 := (T D2 k R0).
Local Notation TS := (T DS k R0).
Local Notation lo := (lo D1).
Local Notation sh := (sh D1).
Local Notation keepS := (keepS D1 keep1 keep2).
Local Notation blkS := (blkS D1 blk1 blk2).
Local Notation cmS := (cmS D1 cm1 cm2).
Local Notation kS_sym := (keepS_sym D1 keep1 keep2 keep_sym1 keep_sym2).
Local Notation kS_refl := (keepS_refl D1 keep1 keep2 keep_refl1 keep_refl2).
Local Notation kS_blk := (keepS_blk D1 blk1 blk2 keep1 keep2 keep_blk1 keep_blk2).
Local Notation cS_blk := (cmS_blk D1 blk1 blk2 cm1 cm2 cm_blk1 cm_blk2).
Local Notation B1 := (series_BlockAlg D1 k blk1 keep1 cm1 keep_sym1 keep_blk1 cm_blk1).
Local Notation B2 := (series_BlockAlg D2 k blk2 keep2 cm2 keep_sym2 keep_blk2 cm_blk2).
Local Notation BS := (series_BlockAlg DS k blkS keepS cmS kS_sym kS_blk cS_blk).

Definition osum (x1 : T1) (x2 : T2) : TS :=
  fun n p q => if lo p then (if lo q then x1 n p q else 0)
               else (if lo q then 0 else x2 n (sh p) (sh q)).

Ltac cases p q Hp Hq :=
  let Lp := fresh "Lp" in let Lq := fresh "Lq" in
  destruct (lo p) eqn:Lp; destruct (lo q) eqn:Lq;
  [ pose proof (lo_lt D1 p Lp); pose proof (lo_lt D1 q Lq)
  | pose proof (lo_lt D1 p Lp); pose proof (sh_lt D1 D2 q Hq Lq)
  | pose proof (sh_lt D1 D2 p Hp Lp); pose proof (lo_lt D1 q Lq)
  | pose proof (sh_lt D1 D2 p Hp Lp); pose proof (sh_lt D1 D2 q Hq Lq) ].

Lemma osum_P x1 y1 x2 y2 : x1 == y1 -> x2 == y2 -> osum x1 x2 == osum y1 y2.
Proof.
  intros H1 H2 n Hn p q Hp Hq. unfold osum. cases p q Hp Hq; try reflexivity.
  - apply H1; auto.
  - apply H2; auto.
Qed.

Lemma osum_zero : osum 0 0 == 0.
Proof. intros n Hn p q Hp Hq. unfold osum. destruct (lo p), (lo q); reflexivity. Qed.

Lemma osum_one : osum 1 1 == 1.
Proof.
  intros n Hn p q Hp Hq. unfold osum. rewrite (one_entry DS k). cases p q Hp Hq.
  - rewrite one_entry. reflexivity.
  - rewrite (eqb_lo_mixed D1 p q Lp Lq). destruct (is_zero n); reflexivity.
  - rewrite (Nat.eqb_sym p q), (eqb_lo_mixed D1 q p Lq Lp). destruct (is_zero n); reflexivity.
  - rewrite one_entry, (eqb_sh D1 p q Lp Lq). reflexivity.
Qed.

Lemma osum_sub x1 y1 x2 y2 : osum (x1 - y1) (x2 - y2) == osum x1 x2 - osum y1 y2.
Proof.
  intros n Hn p q Hp Hq. rewrite sub_entry. unfold osum.
  destruct (lo p), (lo q); rewrite ?sub_entry; try reflexivity; non_commutative_ring.
Qed.

Lemma osum_mul x1 y1 x2 y2 : osum (x1 * y1) (x2 * y2) == osum x1 x2 * osum y1 y2.
Proof.
  intros n Hn p q Hp Hq. rewrite (mul_entry (Rg := Rg) (osum x1 x2) (osum y1 y2)).
  assert (SP : forall F : nat -> R0,
             bigsum F (range DS) == bigsum F (range D1) + bigsum (fun r => F (Nat.add D1 r)) (range D2)).
  { intros F. rewrite (range_add D1 D2), bigsum_app, bigsum_map. reflexivity. }
  unfold osum at 1. cases p q Hp Hq.
  - rewrite (mul_entry (Rg := Rg)). apply bigsum_ext. intros ab _. rewrite SP.
    rewrite (bigsum_zero (fun r => osum x1 x2 (fst ab) p (Nat.add D1 r) * osum y1 y2 (snd ab) (Nat.add D1 r) q)).
    + assert (X : forall a b : R0, a == b -> a == b + 0) by (intros a b Hab; rewrite Hab; non_commutative_ring).
      apply X. apply bigsum_ext. intros r Hr. apply in_range in Hr.
      unfold osum. rewrite Lp, Lq, (lo_true D1 r Hr). reflexivity.
    + intros r _. unfold osum. rewrite Lp, Lq, (lo_add D1 r). non_commutative_ring.
  - symmetry. apply bigsum_zero. intros ab _. rewrite SP.
    rewrite !bigsum_zero. non_commutative_ring.
    + intros r _. unfold osum. rewrite Lp, Lq, (lo_add D1 r). non_commutative_ring.
    + intros r Hr. apply in_range in Hr. unfold osum. rewrite Lp, Lq, (lo_true D1 r Hr). non_commutative_ring.
  - symmetry. apply bigsum_zero. intros ab _. rewrite SP.
    rewrite !bigsum_zero. non_commutative_ring.
    + intros r _. unfold osum. rewrite Lp, Lq, (lo_add D1 r). non_commutative_ring.
    + intros r Hr. apply in_range in Hr. unfold osum. rewrite Lp, Lq, (lo_true D1 r Hr). non_commutative_ring.
  - rewrite (mul_entry (Rg := Rg)). apply bigsum_ext. intros ab _. rewrite SP.
    rewrite (bigsum_zero (fun r => osum x1 x2 (fst ab) p r * osum y1 y2 (snd ab) r q)).
    + assert (X : forall a b : R0, a == b -> a == 0 + b) by (intros a b Hab; rewrite Hab; non_commutative_ring).
      apply X. apply bigsum_ext. intros r Hr.
      unfold osum. rewrite Lp, Lq, (lo_add D1 r), (sh_add D1 r). reflexivity.
    + intros r Hr. apply in_range in Hr. unfold osum. rewrite Lp, Lq, (lo_true D1 r Hr). non_commutative_ring.
Qed.

Lemma osum_adj x1 x2 : osum (adj (BlockAlg := B1) x1) (adj (BlockAlg := B2) x2) == adj (BlockAlg := BS) (osum x1 x2).
Proof.
  intros n Hn p q Hp Hq. rewrite (adj_entry (D := DS) blkS keepS cmS kS_sym kS_blk cS_blk). unfold osum.
  destruct (lo p), (lo q); try (symmetry; apply conj_zero); reflexivity.
Qed.

Lemma osum_Sel x1 x2 : osum (Sel (BlockAlg := B1) x1) (Sel (BlockAlg := B2) x2) == Sel (BlockAlg := BS) (osum x1 x2).
Proof.
  intros n Hn p q Hp Hq. rewrite (Sel_entry (D := DS) blkS keepS cmS kS_sym kS_blk cS_blk). unfold osum, SymIdx.keepS.
  destruct (lo p), (lo q); reflexivity.
Qed.

Lemma osum_half x1 x2 : osum (half (BA := B1) x1) (half (BA := B2) x2) == half (BA := BS) (osum x1 x2).
Proof.
  intros n Hn p q Hp Hq. unfold half.
  rewrite (divz_entry (D := DS) blkS keepS cmS kS_sym kS_blk cS_blk). unfold osum.
  destruct (lo p), (lo q); try (symmetry; apply divz0_zero); reflexivity.
Qed.

Lemma osum_ord m x1 x2 : ord (BlockAlg := B1) m x1 -> ord (BlockAlg := B2) m x2 -> ord (BlockAlg := BS) m (osum x1 x2).
Proof.
  intros O1 O2. apply (ord_iff (D := DS) blkS keepS cmS kS_sym kS_blk cS_blk). intros n p q Hn Hd Hp Hq.
  unfold osum. cases p q Hp Hq; try reflexivity.
  - apply (proj1 (ord_iff blk1 keep1 cm1 keep_sym1 keep_blk1 cm_blk1 m x1) O1 n p q); auto.
  - apply (proj1 (ord_iff blk2 keep2 cm2 keep_sym2 keep_blk2 cm_blk2 m x2) O2 n (sh p) (sh q)); auto.
Qed.

Lemma osum_Zc x1 x2 : osum (Zc (BlockAlg := B1) x1) (Zc (BlockAlg := B2) x2) == Zc (BlockAlg := BS) (osum x1 x2).
Proof.
  intros n Hn p q Hp Hq. rewrite (Zc_entry (D := DS) blkS keepS cmS kS_sym kS_blk cS_blk). unfold osum.
  destruct (lo p), (lo q); try (destruct (is_zero n); reflexivity).
  - rewrite (Zc_entry blk1 keep1 cm1 keep_sym1 keep_blk1 cm_blk1). reflexivity.
  - rewrite (Zc_entry blk2 keep2 cm2 keep_sym2 keep_blk2 cm_blk2). reflexivity.
Qed.

(** ** the block sum of least-action transformations is a least-action transformation *)
Theorem la_osum H1 U1 H2 U2 :
  least_action (BA := B1) H1 U1 -> least_action (BA := B2) H2 U2 ->
  least_action (BA := BS) (osum H1 H2) (osum U1 U2).
Proof.
  intros (a1 & b1 & c1 & d1) (a2 & b2 & c2 & d2). unfold least_action. repeat split.
  - assert (E : osum U1 U2 - 1 == osum (U1 - 1) (U2 - 1)).
    { rewrite osum_sub. apply ring_sub_comp. reflexivity. symmetry. exact osum_one. }
    apply (proj2 (ord_P (BlockAlg := BS) 1 E)). apply osum_ord; assumption.
  - transitivity (osum (adj (BlockAlg := B1) U1 * U1) (adj (BlockAlg := B2) U2 * U2)).
    + rewrite osum_mul. apply ring_mult_comp. symmetry. apply osum_adj. reflexivity.
    + rewrite <- osum_one. apply osum_P; assumption.
  - transitivity (osum (Rp (BA := B1) (adj (BlockAlg := B1) U1 * H1 * U1)) (Rp (BA := B2) (adj (BlockAlg := B2) U2 * H2 * U2))).
    + unfold Rp. rewrite osum_sub. apply ring_sub_comp.
      * rewrite !osum_mul. apply ring_mult_comp; [|reflexivity]. apply ring_mult_comp; [|reflexivity].
        symmetry. apply osum_adj.
      * rewrite osum_Sel. apply (am_P (AddMap := Sel_am (BlockAlg := BS))).
        rewrite !osum_mul. apply ring_mult_comp; [|reflexivity]. apply ring_mult_comp; [|reflexivity].
        symmetry. apply osum_adj.
    + rewrite <- osum_zero. apply osum_P; assumption.
  - transitivity (osum (Sel (BlockAlg := B1) (half (BA := B1) ((U1 - 1) - adj (BlockAlg := B1) (U1 - 1))))
                       (Sel (BlockAlg := B2) (half (BA := B2) ((U2 - 1) - adj (BlockAlg := B2) (U2 - 1))))).
    + rewrite osum_Sel. apply (am_P (AddMap := Sel_am (BlockAlg := BS))).
      rewrite osum_half. apply (half_P (BA := BS)).
      assert (E : osum U1 U2 - 1 == osum (U1 - 1) (U2 - 1)).
      { rewrite osum_sub. apply ring_sub_comp. reflexivity. symmetry. exact osum_one. }
      rewrite osum_sub. apply ring_sub_comp. exact E.
      rewrite osum_adj. apply (am_P (AddMap := adj_am (BlockAlg := BS))). exact E.
    + rewrite <- osum_zero. apply osum_P; assumption.
Qed.

(** ** the outputs for the direct sum *)
Variables E1 E2 : nat -> R0.
Definition ES (p : nat) : R0 := if lo p then E1 p else E2 (sh p).
Hypothesis E_real1 : forall p, conj (E1 p) == E1 p.
Hypothesis E_real2 : forall p, conj (E2 p) == E2 p.
Hypothesis keep_eucl1 : keep_eucl_on D1 keep1 cm1.
Hypothesis keep_eucl2 : keep_eucl_on D2 keep2 cm2.
Variable inv : R0 -> R0.
(* the solver inverts every eliminated difference of the sum, including those between the summands *)
Hypothesis inv_specS : forall p q, (p < DS)%nat -> (q < DS)%nat -> keepS p q = false ->
                                   (ES p - ES q) * inv (ES p - ES q) == 1.
Hypothesis inv_P : Proper (_==_ ==> _==_) inv.
Hypothesis inv_opp : forall x, inv (- x) == - inv x.
Hypothesis inv_conj : forall x, conj (inv x) == inv (conj x).

Lemma inv_spec1 p q : (p < D1)%nat -> (q < D1)%nat -> keep1 p q = false -> (E1 p - E1 q) * inv (E1 p - E1 q) == 1.
Proof.
  intros Hp Hq K. pose proof (inv_specS p q (Nat.lt_lt_add_r _ _ _ Hp) (Nat.lt_lt_add_r _ _ _ Hq)) as X.
  unfold SymIdx.keepS, ES in X. rewrite (lo_true D1 p Hp), (lo_true D1 q Hq) in X. exact (X K).
Qed.
Lemma inv_spec2 p q : (p < D2)%nat -> (q < D2)%nat -> keep2 p q = false -> (E2 p - E2 q) * inv (E2 p - E2 q) == 1.
Proof.
  intros Hp Hq K.
  pose proof (inv_specS (Nat.add D1 p) (Nat.add D1 q) (proj1 (Nat.add_lt_mono_l _ _ _) Hp) (proj1 (Nat.add_lt_mono_l _ _ _) Hq)) as X.
  unfold SymIdx.keepS, ES in X. rewrite !(lo_add D1), !(sh_add D1) in X. exact (X K).
Qed.

Lemma osum_H0 : osum (SylvInst.H0 D1 k E1) (SylvInst.H0 D2 k E2) == SylvInst.H0 DS k ES.
Proof.
  intros n Hn p q Hp Hq. unfold osum, SylvInst.H0, ES. destruct (is_zero n).
  - unfold mdiag. cases p q Hp Hq.
    + reflexivity.
    + rewrite (eqb_lo_mixed D1 p q Lp Lq). reflexivity.
    + rewrite (Nat.eqb_sym p q), (eqb_lo_mixed D1 q p Lq Lp). reflexivity.
    + rewrite (eqb_sh D1 p q Lp Lq). reflexivity.
  - destruct (lo p), (lo q); reflexivity.
Qed.

Variable rflag1 : string -> T1 -> T1.
Variable fenv1 : string -> list T1 -> T1.
Variable rflag2 : string -> T2 -> T2.
Variable fenv2 : string -> list T2 -> T2.
Variable rflagS : string -> TS -> TS.
Variable fenvS : string -> list TS -> TS.
Hypothesis rflag_spec1 : forall x, rflag1 "commuting_blocks" x == Rw (BlockAlg := B1) x.
Hypothesis rflag_spec2 : forall x, rflag2 "commuting_blocks" x == Rw (BlockAlg := B2) x.
Hypothesis rflag_specS : forall x, rflagS "commuting_blocks" x == Rw (BlockAlg := BS) x.
Hypothesis fenv_spec1 : forall y, fenv1 "solve_sylvester" (cons y nil) == SylvInst.sylv E1 inv y.
Hypothesis fenv_spec2 : forall y, fenv2 "solve_sylvester" (cons y nil) == SylvInst.sylv E2 inv y.
Hypothesis fenv_specS : forall y, fenvS "solve_sylvester" (cons y nil) == SylvInst.sylv ES inv y.
Variable sol1 : string -> T1.
Variable sol2 : string -> T2.
Variable solS : string -> TS.
Hypothesis Hsol1 : solution (BA := B1) (gflag_of false) rflag1 fenv1 sol1 main_alg.
Hypothesis Hsol2 : solution (BA := B2) (gflag_of false) rflag2 fenv2 sol2 main_alg.
Hypothesis HsolS : solution (BA := BS) (gflag_of false) rflagS fenvS solS main_alg.
Hypothesis H_herm1 : adj (BlockAlg := B1) (sol1 "H") == sol1 "H".
Hypothesis H_herm2 : adj (BlockAlg := B2) (sol2 "H") == sol2 "H".
Hypothesis H_zero1 : Zc (BlockAlg := B1) (sol1 "H") == SylvInst.H0 D1 k E1.
Hypothesis H_zero2 : Zc (BlockAlg := B2) (sol2 "H") == SylvInst.H0 D2 k E2.
Hypothesis Hin : solS "H" == osum (sol1 "H") (sol2 "H").

Lemma ds_w1 : wiring (BA := B1) rflag1 fenv1 (sol1 "H").
Proof.
  exact (inst_wiring D1 k blk1 keep1 cm1 keep_sym1 keep_refl1 keep_blk1 cm_blk1 keep_eucl1
           E1 inv inv_spec1 E_real1 inv_P inv_opp inv_conj rflag1 fenv1 rflag_spec1 fenv_spec1 (sol1 "H")
           H_herm1 H_zero1).
Qed.
Lemma ds_w2 : wiring (BA := B2) rflag2 fenv2 (sol2 "H").
Proof.
  exact (inst_wiring D2 k blk2 keep2 cm2 keep_sym2 keep_refl2 keep_blk2 cm_blk2 keep_eucl2
           E2 inv inv_spec2 E_real2 inv_P inv_opp inv_conj rflag2 fenv2 rflag_spec2 fenv_spec2 (sol2 "H")
           H_herm2 H_zero2).
Qed.
Lemma ds_hermS : adj (BlockAlg := BS) (solS "H") == solS "H".
Proof.
  rewrite Hin, <- osum_adj. apply osum_P; assumption.
Qed.
Lemma ds_zeroS : Zc (BlockAlg := BS) (solS "H") == SylvInst.H0 DS k ES.
Proof.
  rewrite Hin, <- osum_Zc, <- osum_H0. apply osum_P; assumption.
Qed.
Lemma ES_real p : conj (ES p) == ES p.
Proof. unfold ES. destruct (lo p). apply E_real1. apply E_real2. Qed.
Lemma ds_wS : wiring (BA := BS) rflagS fenvS (solS "H").
Proof.
  exact (inst_wiring DS k blkS keepS cmS kS_sym kS_refl kS_blk cS_blk
           (keepS_eucl D1 D2 keep1 keep2 cm1 cm2 keep_eucl1 keep_eucl2)
           ES inv inv_specS ES_real inv_P inv_opp inv_conj rflagS fenvS rflag_specS fenv_specS (solS "H")
           ds_hermS ds_zeroS).
Qed.

Theorem direct_sum_outputs :
  solS "U" == osum (sol1 "U") (sol2 "U") /\ solS "U†" == osum (sol1 "U†") (sol2 "U†")
  /\ solS "H_tilde" == osum (sol1 "H_tilde") (sol2 "H_tilde").
Proof.
  pose proof (main_least_action (BA := B1) rflag1 fenv1 sol1 Hsol1 ds_w1) as L1.
  pose proof (main_least_action (BA := B2) rflag2 fenv2 sol2 Hsol2 ds_w2) as L2.
  pose proof (main_least_action (BA := BS) rflagS fenvS solS HsolS ds_wS) as LS.
  pose proof (la_osum _ _ _ _ L1 L2) as L12.
  assert (L12' : least_action (BA := BS) (solS "H") (osum (sol1 "U") (sol2 "U"))).
  { apply (la_proper2 (BA := BS) (osum (sol1 "H") (sol2 "H")) (solS "H") (osum (sol1 "U") (sol2 "U")) (osum (sol1 "U") (sol2 "U"))).
    symmetry; exact Hin. reflexivity. exact L12. }
  assert (EU : solS "U" == osum (sol1 "U") (sol2 "U")).
  { pose proof ds_wS as W. destruct W as [a b c d e f g h i j]. symmetry.
    refine (@least_action_unique TS _ _ _ _ _ _ _ _ _ BS (solS "H") i (MainLift.sylv fenvS) f _ _ _ L12' LS).
    exact (sylv_left_inst DS k blkS keepS cmS kS_sym kS_blk cS_blk ES inv inv_specS fenvS (solS "H") fenv_specS ds_zeroS). }
  assert (EUd : solS "U†" == osum (sol1 "U†") (sol2 "U†")).
  { rewrite <- (adjoint_general (BA := BS) rflagS fenvS solS HsolS ds_wS).
    transitivity (adj (BlockAlg := BS) (osum (sol1 "U") (sol2 "U"))).
    apply (am_P (AddMap := adj_am (BlockAlg := BS))). exact EU.
    rewrite <- osum_adj. apply osum_P.
    apply (adjoint_general (BA := B1) rflag1 fenv1 sol1 Hsol1 ds_w1).
    apply (adjoint_general (BA := B2) rflag2 fenv2 sol2 Hsol2 ds_w2). }
  repeat split; try assumption.
  rewrite <- (kept_general (BA := BS) rflagS fenvS solS HsolS ds_wS).
  transitivity (Sel (BlockAlg := BS) (osum (sol1 "U†" * sol1 "H" * sol1 "U") (sol2 "U†" * sol2 "H" * sol2 "U"))).
  - apply (am_P (AddMap := Sel_am (BlockAlg := BS))). rewrite !osum_mul.
    apply ring_mult_comp; [|exact EU]. apply ring_mult_comp; [exact EUd|exact Hin].
  - rewrite <- osum_Sel. apply osum_P.
    apply (kept_general (BA := B1) rflag1 fenv1 sol1 Hsol1 ds_w1).
    apply (kept_general (BA := B2) rflag2 fenv2 sol2 Hsol2 ds_w2).
Qed.
End Sum.
