(** Common ground of the symmetry files Series/Sym*.v.

    - [mkLAHom]: an additive, multiplicative, unital map between two [BlockAlg]s that commutes
      with the adjoint and the selection and is compatible with the filtration is an [LAHom]
      (compatibility with zero, subtraction and halving follows from additivity).
    - [sylv_left_inst]: the entry-wise diagonal solver of Series/SylvInst.v is a left inverse of
      x |-> [H_0, x] on eliminated elements (injectivity hypothesis of uniqueness).
    - [inst_transport]: the transport theorems of Alg/Equivariance.v with every wiring
      hypothesis discharged for a pair of concrete instances (D, k, blk, keep, cm, E, inv) and
      (D', k', blk', keep', cm', E', inv'): an [LAHom] [phi] that commutes with the order-zero
      coefficient and maps H_0 to H_0' carries the outputs H_tilde, U, U† of the generated
      Hermitian program to the outputs for the input [phi H]. *)
Require Import Ncring Ncring_tac Setoid Morphisms List ZArith String.
From PV.Base Require Import Classes BigSum AlgLemmas.
From PV.Series Require Import MultiIndex Cauchy Lift Inst SylvInst Wiring.
From PV.Block Require Import Mat Masks CoefAlg BlockSel.
From PV.DSL Require Import Syntax Sem.
From PV.Gen Require Import Algorithms_gen.
From PV.Alg Require Import MainLift MainCorrect Unique Equivariance MainInst.
Open Scope string_scope.

(** * a smart constructor for [LAHom] *)
Section MkLAHom.
Context {T : Type} {r0 r1 : T} {add mul sub : T -> T -> T} {opp : T -> T} {req : T -> T -> Prop}
        {Ro : @Ring_ops T r0 r1 add mul sub opp req} {Rg : @Ring T r0 r1 add mul sub opp req Ro}
        {BA : BlockAlg T}.
Context {T' : Type} {r0' r1' : T'} {add' mul' sub' : T' -> T' -> T'} {opp' : T' -> T'} {req' : T' -> T' -> Prop}
        {Ro' : @Ring_ops T' r0' r1' add' mul' sub' opp' req'} {Rg' : @Ring T' r0' r1' add' mul' sub' opp' req' Ro'}
        {BA' : BlockAlg T'}.
Variable phi : T -> T'.
Hypothesis hP : Proper (_==_ ==> _==_) phi.
Hypothesis hadd : forall x y, phi (x + y) == phi x + phi y.
Hypothesis hopp : forall x, phi (- x) == - phi x.
Hypothesis hone : phi 1 == 1.
Hypothesis hmul : forall x y, phi (x * y) == phi x * phi y.
Hypothesis hadj : forall x, phi (adj x) == adj (phi x).
Hypothesis hSel : forall x, phi (Sel x) == Sel (phi x).
Hypothesis hord : forall k x, ord k x -> ord k (phi x).

Lemma mk_zero : phi 0 == 0.
Proof. apply additive_zero. exact hadd. exact hP. Qed.

Lemma mk_sub x y : phi (x - y) == phi x - phi y.
Proof.
  transitivity (phi (x + - y)). apply hP. non_commutative_ring.
  rewrite hadd, hopp. non_commutative_ring.
Qed.

Lemma mk_half x : phi (half x) == half (phi x).
Proof.
  apply dbl_inj. rewrite <- hadd, !half_dbl. reflexivity.
Qed.

Lemma mkLAHom : LAHom phi.
Proof.
  constructor.
  - exact hP.
  - exact mk_zero.
  - exact hone.
  - exact mk_sub.
  - exact hmul.
  - exact hadj.
  - exact mk_half.
  - exact hSel.
  - exact hord.
Qed.
End MkLAHom.

(** * the concrete solver is a left inverse of the commutator with H_0 *)
Section SylvLeft.
Variables D k : nat.
Context {R0 : Type} `{Rg : Ring R0} {CS : CStar R0}.
Variable blk : nat -> nat.
Variable keep : nat -> nat -> bool.
Variable cm : nat -> bool.
Hypothesis keep_sym : forall p q, keep p q = keep q p.
Hypothesis keep_blk : forall p q, keep p q = true -> blk p = blk q.
Hypothesis cm_blk : forall p q, blk p = blk q -> cm p = cm q.
Variable E : nat -> R0.
Variable inv : R0 -> R0.
Hypothesis inv_spec : forall p q, (p < D)%nat -> (q < D)%nat -> keep p q = false ->
                                  (E p - E q) * inv (E p - E q) == 1.
Local Notation T := (T D k R0).
Local Hint Extern 0 (BlockAlg _) =>
  exact (series_BlockAlg D k blk keep cm keep_sym keep_blk cm_blk) : typeclass_instances.

Lemma sylv_left_H0 (x : T) :
  Rp (SylvInst.sylv E inv (comm (SylvInst.H0 D k E) (Rp x))) == Rp x.
Proof.
  intros n Hn p q Hp Hq. unfold Rp at 1 3. rewrite !sub_entry, !Sel_entry.
  destruct (keep p q) eqn:K.
  - non_commutative_ring.
  - unfold SylvInst.sylv at 1. unfold comm.
    rewrite (comm_H0_entry (k := k) E (Rp x) n Hp Hq).
    transitivity (((E p - E q) * inv (E p - E q)) * Rp x n p q - 0).
    + rewrite (cs_comm (E p - E q) (Rp x n p q)). rewrite (cs_comm ((E p - E q) * inv (E p - E q)) (Rp x n p q)).
      non_commutative_ring.
    + rewrite (inv_spec p q Hp Hq K). unfold Rp. rewrite !sub_entry, !Sel_entry, K. non_commutative_ring.
Qed.

Lemma sylv_left_inst (fenv : string -> list T -> T) (H : T) :
  (forall y, fenv "solve_sylvester" (cons y nil) == SylvInst.sylv E inv y) ->
  Zc H == SylvInst.H0 D k E ->
  forall x, Rp (MainLift.sylv fenv (comm (Zc H) (Rp x))) == Rp x.
Proof.
  intros Hf HZ x. unfold MainLift.sylv. rewrite Hf.
  assert (E1 : comm (Zc H) (Rp x) == comm (SylvInst.H0 D k E) (Rp x)).
  { unfold comm. rewrite HZ. reflexivity. }
  transitivity (Rp (SylvInst.sylv E inv (comm (SylvInst.H0 D k E) (Rp x)))).
  - apply Rp_P. apply (SylvInst.sylv_P (k := k) (D := D) E inv). exact E1.
  - apply sylv_left_H0.
Qed.
End SylvLeft.

(** * transport between two concrete instances *)
Section InstTransport.
Context {R0 : Type} `{Rg : Ring R0} {CS : CStar R0}.
(* source instance *)
Variables D k : nat.
Variable blk : nat -> nat.
Variable keep : nat -> nat -> bool.
Variable cm : nat -> bool.
Hypothesis keep_sym : forall p q, keep p q = keep q p.
Hypothesis keep_refl : forall p, keep p p = true.
Hypothesis keep_blk : forall p q, keep p q = true -> blk p = blk q.
Hypothesis cm_blk : forall p q, blk p = blk q -> cm p = cm q.
Hypothesis keep_eucl : keep_eucl_on D keep cm.
Variable E : nat -> R0.
Variable inv : R0 -> R0.
Hypothesis inv_spec : forall p q, (p < D)%nat -> (q < D)%nat -> keep p q = false ->
                                  (E p - E q) * inv (E p - E q) == 1.
Hypothesis E_real : forall p, conj (E p) == E p.
Hypothesis inv_P : Proper (_==_ ==> _==_) inv.
Hypothesis inv_opp : forall x, inv (- x) == - inv x.
Hypothesis inv_conj : forall x, conj (inv x) == inv (conj x).
(* target instance *)
Variables D' k' : nat.
Variable blk' : nat -> nat.
Variable keep' : nat -> nat -> bool.
Variable cm' : nat -> bool.
Hypothesis keep_sym' : forall p q, keep' p q = keep' q p.
Hypothesis keep_refl' : forall p, keep' p p = true.
Hypothesis keep_blk' : forall p q, keep' p q = true -> blk' p = blk' q.
Hypothesis cm_blk' : forall p q, blk' p = blk' q -> cm' p = cm' q.
Hypothesis keep_eucl' : keep_eucl_on D' keep' cm'.
Variable E' : nat -> R0.
Variable inv' : R0 -> R0.
Hypothesis inv_spec' : forall p q, (p < D')%nat -> (q < D')%nat -> keep' p q = false ->
                                   (E' p - E' q) * inv' (E' p - E' q) == 1.
Hypothesis E_real' : forall p, conj (E' p) == E' p.
Hypothesis inv_P' : Proper (_==_ ==> _==_) inv'.
Hypothesis inv_opp' : forall x, inv' (- x) == - inv' x.
Hypothesis inv_conj' : forall x, conj (inv' x) == inv' (conj x).

Definition BA1 : BlockAlg (T D k R0) := series_BlockAlg D k blk keep cm keep_sym keep_blk cm_blk.
Definition BA2 : BlockAlg (T D' k' R0) := series_BlockAlg D' k' blk' keep' cm' keep_sym' keep_blk' cm_blk'.

Variable phi : T D k R0 -> T D' k' R0.
Hypothesis HL : LAHom (BA := BA1) (BA' := BA2) phi.
Hypothesis phi_Zc : forall x, phi (Zc (BlockAlg := BA1) x) == Zc (BlockAlg := BA2) (phi x).
Hypothesis phi_H0 : phi (SylvInst.H0 D k E) == SylvInst.H0 D' k' E'.

Variable rflag : string -> T D k R0 -> T D k R0.
Variable fenv : string -> list (T D k R0) -> T D k R0.
Variable rflag' : string -> T D' k' R0 -> T D' k' R0.
Variable fenv' : string -> list (T D' k' R0) -> T D' k' R0.
Hypothesis rflag_spec : forall x, rflag "commuting_blocks" x == Rw (BlockAlg := BA1) x.
Hypothesis fenv_spec : forall y, fenv "solve_sylvester" (cons y nil) == SylvInst.sylv E inv y.
Hypothesis rflag_spec' : forall x, rflag' "commuting_blocks" x == Rw (BlockAlg := BA2) x.
Hypothesis fenv_spec' : forall y, fenv' "solve_sylvester" (cons y nil) == SylvInst.sylv E' inv' y.

Variable sol : string -> T D k R0.
Variable sol' : string -> T D' k' R0.
Hypothesis Hsol : solution (BA := BA1) (gflag_of false) rflag fenv sol main_alg.
Hypothesis Hsol' : solution (BA := BA2) (gflag_of false) rflag' fenv' sol' main_alg.
Hypothesis H_herm : adj (BlockAlg := BA1) (sol "H") == sol "H".
Hypothesis H_zero : Zc (BlockAlg := BA1) (sol "H") == SylvInst.H0 D k E.
Hypothesis Hin : sol' "H" == phi (sol "H").

Lemma it_wiring : wiring (BA := BA1) rflag fenv (sol "H").
Proof.
  exact (inst_wiring D k blk keep cm keep_sym keep_refl keep_blk cm_blk keep_eucl
           E inv inv_spec E_real inv_P inv_opp inv_conj rflag fenv rflag_spec fenv_spec (sol "H")
           H_herm H_zero).
Qed.

Lemma it_herm' : adj (BlockAlg := BA2) (sol' "H") == sol' "H".
Proof.
  destruct HL as [hP _ _ _ _ hadj _ _ _].
  rewrite Hin, <- hadj. apply hP. exact H_herm.
Qed.

Lemma it_zero' : Zc (BlockAlg := BA2) (sol' "H") == SylvInst.H0 D' k' E'.
Proof.
  destruct HL as [hP _ _ _ _ _ _ _ _].
  rewrite Hin, <- phi_Zc, <- phi_H0. apply hP. exact H_zero.
Qed.

Lemma it_wiring' : wiring (BA := BA2) rflag' fenv' (sol' "H").
Proof.
  exact (inst_wiring D' k' blk' keep' cm' keep_sym' keep_refl' keep_blk' cm_blk' keep_eucl'
           E' inv' inv_spec' E_real' inv_P' inv_opp' inv_conj' rflag' fenv' rflag_spec' fenv_spec' (sol' "H")
           it_herm' it_zero').
Qed.

Lemma it_left' : forall x, Rp (BA := BA2) (MainLift.sylv fenv' (comm (Zc (BlockAlg := BA2) (sol' "H")) (Rp (BA := BA2) x)))
                           == Rp (BA := BA2) x.
Proof.
  exact (sylv_left_inst D' k' blk' keep' cm' keep_sym' keep_blk' cm_blk' E' inv' inv_spec'
           fenv' (sol' "H") fenv_spec' it_zero').
Qed.

Theorem inst_transport :
  sol' "U" == phi (sol "U") /\ sol' "U†" == phi (sol "U†") /\ sol' "H_tilde" == phi (sol "H_tilde").
Proof.
  repeat split.
  - exact (transport_U (BA := BA1) (BA' := BA2) phi HL rflag rflag' fenv fenv' sol sol' Hsol Hsol'
             it_wiring it_wiring' Hin it_left').
  - exact (transport_Ud (BA := BA1) (BA' := BA2) phi HL rflag rflag' fenv fenv' sol sol' Hsol Hsol'
             it_wiring it_wiring' Hin it_left').
  - exact (transport_Ht (BA := BA1) (BA' := BA2) phi HL rflag rflag' fenv fenv' sol sol' Hsol Hsol'
             it_wiring it_wiring' Hin it_left').
Qed.
End InstTransport.
