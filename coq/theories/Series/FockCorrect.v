(** The correctness theorems of the Hermitian algorithm (Alg/MainCorrect.v) instantiated at
    the [BlockAlg] of series of row- and column-finite infinite matrices (Series/InstRCF.v),
    with the wiring hypotheses discharged by [rcf_wiring]. *)
Require Import Ncring Ncring_tac Setoid Morphisms List ZArith String.
From PV.Base Require Import Classes BigSum AlgLemmas.
From PV.Series Require Import MultiIndex Cauchy Lift InstRCF.
From PV.Block Require Import Mat Masks CoefAlg RCF RCFSel.
From PV.DSL Require Import Syntax Sem.
From PV.Gen Require Import Algorithms_gen.
From PV.Alg Require Import MainLift MainCorrect Unique.
Open Scope string_scope.

Section Fock.
Variable k : nat.
Context {R0 : Type} `{Rg : Ring R0} {CS : CStar R0}.
Variable blk : nat -> nat.
Variable keep : nat -> nat -> bool.
Variable cm : nat -> bool.
Hypothesis keep_sym : forall p q, keep p q = keep q p.
Hypothesis keep_refl : forall p, keep p p = true.
Hypothesis keep_blk : forall p q, keep p q = true -> blk p = blk q.
Hypothesis cm_blk : forall p q, blk p = blk q -> cm p = cm q.
Hypothesis keep_eucl :
  forall p q r, cm p = true -> keep p q = true -> keep r q = true -> keep p r = true.
Variable E : nat -> R0.
Variable inv : R0 -> R0.
Hypothesis inv_spec : forall p q, keep p q = false -> (E p - E q) * inv (E p - E q) == 1.
Hypothesis E_real : forall p, conj (E p) == E p.
Hypothesis inv_P : Proper (_==_ ==> _==_) inv.
Hypothesis inv_opp : forall x, inv (- x) == - inv x.
Hypothesis inv_conj : forall x, conj (inv x) == inv (conj x).

Local Notation T := (TF k R0).
Local Notation BA := (rcf_BlockAlg k blk keep cm keep_sym keep_blk cm_blk).
Local Hint Extern 0 (BlockAlg _) => exact BA : typeclass_instances.

Variable rflag : string -> T -> T.
Variable fenv : string -> list T -> T.
Variable sol : string -> T.
Hypothesis rflag_spec : forall x, rflag "commuting_blocks" x == Rw x.
Hypothesis fenv_spec : forall y, fenv "solve_sylvester" (cons y nil) == sylvF E inv y.
Hypothesis H_herm : adj (sol "H") == sol "H".
Hypothesis H_zero : Zc (sol "H") == H0F k E.
Hypothesis Hsol : solution (gflag_of false) rflag fenv sol main_alg.

Lemma fock_wiring : wiring rflag fenv (sol "H").
Proof.
  eapply rcf_wiring; eassumption.
Qed.

Lemma fock_kept : Sel (sol "U†" * sol "H" * sol "U") == sol "H_tilde".
Proof. exact (kept_general rflag fenv sol Hsol fock_wiring). Qed.
Lemma fock_eliminated : Rp (sol "U†" * sol "H" * sol "U") == 0.
Proof. exact (eliminated_general rflag fenv sol Hsol fock_wiring). Qed.
Lemma fock_unitary : sol "U†" * sol "U" == 1 /\ sol "U" * sol "U†" == 1.
Proof.
  split. exact (unitary_l_general rflag fenv sol Hsol fock_wiring).
  exact (unitary_r_general rflag fenv sol Hsol fock_wiring).
Qed.
Lemma fock_adjoint : adj (sol "U") == sol "U†" /\ adj (sol "H_tilde") == sol "H_tilde".
Proof.
  split. exact (adjoint_general rflag fenv sol Hsol fock_wiring).
  exact (Ht_herm_general rflag fenv sol Hsol fock_wiring).
Qed.
Lemma fock_gauge :
  Sel (half ((sol "U" - 1) - adj (sol "U" - 1))) == 0 /\ least_action (sol "H") (sol "U").
Proof.
  split. exact (gauge_general rflag fenv sol Hsol fock_wiring).
  exact (main_least_action rflag fenv sol Hsol fock_wiring).
Qed.
End Fock.
