(** Non-Hermitian corollaries of the symmetries of Series/Sym*.v (C13 / C15, hermitian=False):
    each symmetry is an [SGHom]; together with uniqueness of the similarity transformation
    (Alg/UniqueNH.v) the outputs H_tilde, U, U_inv of the generated program [nonhermitian_alg]
    transform accordingly - in the domain of validity of the non-Hermitian similarity theorems:
    kept matrix elements connect equal unperturbed energies ([kept_equal], on both sides; known
    finding C05-kept-distinct-energies).  Energies may be complex, the input need not be
    Hermitian, the scalars c of C13 scale need not be real, the rotation matrix R only has to be
    invertible. *)
Require Import Ncring Ncring_tac Setoid Morphisms List ZArith String.
From PV.Base Require Import Classes BigSum AlgLemmas.
From PV.Series Require Import MultiIndex Cauchy Lift Inst SylvInst Wiring SymBase SymIdx.
From PV.Series Require Import SymConj SymScale SymPerm SymParam SymPush SymRot SymShift SymSum SymNH.
From PV.Block Require Import Mat Masks CoefAlg BlockSel.
From PV.DSL Require Import Syntax Sem.
From PV.Gen Require Import Algorithms_gen.
From PV.Alg Require Import MainLift UniqueNH NonHerm Equivariance.
Open Scope string_scope.

(** * C13 scale, arbitrary (complex) scalars *)
Section ScaleNH.
Variables D k : nat.
Context {R0 : Type} `{Rg : Ring R0} {CS : CStar R0}.
Variable blk : nat -> nat.
Variable keep : nat -> nat -> bool.
Variable cm : nat -> bool.
Hypothesis keep_sym : forall p q, keep p q = keep q p.
Hypothesis keep_refl : forall p, keep p p = true.
Hypothesis keep_blk : forall p q, keep p q = true -> blk p = blk q.
Hypothesis cm_blk : forall p q, blk p = blk q -> cm p = cm q.
Variable E : nat -> R0.
Variable inv : R0 -> R0.
Hypothesis inv_spec : forall p q, (p < D)%nat -> (q < D)%nat -> keep p q = false ->
                                  (E p - E q) * inv (E p - E q) == 1.
Hypothesis kept_equal : forall p q, (p < D)%nat -> (q < D)%nat -> keep p q = true -> E p == E q.
Variable c : list R0.
Local Hint Extern 0 (BlockAlg _) => exact (series_BlockAlg D k blk keep cm keep_sym keep_blk cm_blk) : typeclass_instances.
Lemma pscale_SGHom : SGHom (BA := (series_BlockAlg D k blk keep cm keep_sym keep_blk cm_blk)) (BA' := (series_BlockAlg D k blk keep cm keep_sym keep_blk cm_blk)) (pscale D k c).
Proof.
  apply mkSGHom.
  - exact (pscale_P D k c).
  - intros x y n Hn p q Hp Hq. unfold pscale. rewrite !add_entry. unfold pscale. non_commutative_ring.
  - intros x n Hn p q Hp Hq. unfold pscale. rewrite !opp_entry. unfold pscale. non_commutative_ring.
  - intros n Hn p q Hp Hq. unfold pscale. rewrite one_entry.
    destruct (is_zero n) eqn:Z.
    + rewrite (cpow_zero c n Z). non_commutative_ring.
    + non_commutative_ring.
  - exact (pscale_mul D k c).
  - intros x n Hn p q Hp Hq. unfold pscale. rewrite !Sel_entry. unfold pscale.
    destruct (keep p q). reflexivity. non_commutative_ring.
  - intros m x Hx. apply ord_iff. intros n p q Hn Hd Hp Hq. unfold pscale.
    rewrite (proj1 (ord_iff blk keep cm keep_sym keep_blk cm_blk m x) Hx n p q Hn Hd Hp Hq).
    non_commutative_ring.
Qed.
Variable gflag gflag' : string -> bool.
Variable rflag : string -> T D k R0 -> T D k R0.
Variable fenv : string -> list (T D k R0) -> T D k R0.
Variable rflag' : string -> T D k R0 -> T D k R0.
Variable fenv' : string -> list (T D k R0) -> T D k R0.
Hypothesis fenv_spec : forall y, fenv "solve_sylvester" (cons y nil) == SylvInst.sylv E inv y.
Hypothesis fenv_spec' : forall y, fenv' "solve_sylvester" (cons y nil) == SylvInst.sylv E inv y.
Variable sol : string -> T D k R0.
Variable sol' : string -> T D k R0.
Hypothesis Hsol : solution (BA := (series_BlockAlg D k blk keep cm keep_sym keep_blk cm_blk)) gflag rflag fenv sol nonhermitian_alg.
Hypothesis Hsol' : solution (BA := (series_BlockAlg D k blk keep cm keep_sym keep_blk cm_blk)) gflag' rflag' fenv' sol' nonhermitian_alg.
Hypothesis H_zero : Zc (BlockAlg := (series_BlockAlg D k blk keep cm keep_sym keep_blk cm_blk)) (sol "H") == SylvInst.H0 D k E.
Hypothesis Hin : sol' "H" == pscale D k c (sol "H").
Theorem scale_nh :
  sol' "U" == pscale D k c (sol "U") /\ sol' "U†" == pscale D k c (sol "U†") /\ sol' "H_tilde" == pscale D k c (sol "H_tilde").
Proof.
  exact (inst_transport_nh D k blk keep cm keep_sym keep_refl keep_blk cm_blk E inv inv_spec kept_equal
           D k blk keep cm keep_sym keep_refl keep_blk cm_blk E inv inv_spec kept_equal
           (pscale D k c) pscale_SGHom (pscale_Zc D k blk keep cm keep_sym keep_blk cm_blk c) (pscale_H0 D k c E)
           gflag gflag' rflag fenv rflag' fenv' fenv_spec fenv_spec' sol sol' Hsol Hsol' H_zero Hin).
Qed.
End ScaleNH.

(** * C13 permute (order automorphisms) *)
Section PullNH.
Variables D k : nat.
Context {R0 : Type} `{Rg : Ring R0} {CS : CStar R0}.
Variable blk : nat -> nat.
Variable keep : nat -> nat -> bool.
Variable cm : nat -> bool.
Hypothesis keep_sym : forall p q, keep p q = keep q p.
Hypothesis keep_refl : forall p, keep p p = true.
Hypothesis keep_blk : forall p q, keep p q = true -> blk p = blk q.
Hypothesis cm_blk : forall p q, blk p = blk q -> cm p = cm q.
Variable E : nat -> R0.
Variable inv : R0 -> R0.
Hypothesis inv_spec : forall p q, (p < D)%nat -> (q < D)%nat -> keep p q = false ->
                                  (E p - E q) * inv (E p - E q) == 1.
Hypothesis kept_equal : forall p q, (p < D)%nat -> (q < D)%nat -> keep p q = true -> E p == E q.
Variables f g : mi -> mi.
Hypothesis f_len : forall n, List.length n = k -> List.length (f n) = k.
Hypothesis g_len : forall n, List.length n = k -> List.length (g n) = k.
Hypothesis gf : forall n, List.length n = k -> g (f n) = n.
Hypothesis fg : forall n, List.length n = k -> f (g n) = n.
Hypothesis f_padd : forall a b, List.length a = k -> List.length b = k -> f (padd a b) = padd (f a) (f b).
Hypothesis f_deg : forall n, List.length n = k -> deg (f n) = deg n.
Variable gflag gflag' : string -> bool.
Variable rflag : string -> T D k R0 -> T D k R0.
Variable fenv : string -> list (T D k R0) -> T D k R0.
Variable rflag' : string -> T D k R0 -> T D k R0.
Variable fenv' : string -> list (T D k R0) -> T D k R0.
Hypothesis fenv_spec : forall y, fenv "solve_sylvester" (cons y nil) == SylvInst.sylv E inv y.
Hypothesis fenv_spec' : forall y, fenv' "solve_sylvester" (cons y nil) == SylvInst.sylv E inv y.
Variable sol : string -> T D k R0.
Variable sol' : string -> T D k R0.
Hypothesis Hsol : solution (BA := (series_BlockAlg D k blk keep cm keep_sym keep_blk cm_blk)) gflag rflag fenv sol nonhermitian_alg.
Hypothesis Hsol' : solution (BA := (series_BlockAlg D k blk keep cm keep_sym keep_blk cm_blk)) gflag' rflag' fenv' sol' nonhermitian_alg.
Hypothesis H_zero : Zc (BlockAlg := (series_BlockAlg D k blk keep cm keep_sym keep_blk cm_blk)) (sol "H") == SylvInst.H0 D k E.
Hypothesis Hin : sol' "H" == pull D k f (sol "H").
Theorem pull_nh :
  sol' "U" == pull D k f (sol "U") /\ sol' "U†" == pull D k f (sol "U†") /\ sol' "H_tilde" == pull D k f (sol "H_tilde").
Proof.
  exact (inst_transport_nh D k blk keep cm keep_sym keep_refl keep_blk cm_blk E inv inv_spec kept_equal
           D k blk keep cm keep_sym keep_refl keep_blk cm_blk E inv inv_spec kept_equal
           (pull D k f) (LAHom_SGHom _ (pull_LAHom D k blk keep cm keep_sym keep_blk cm_blk f g f_len g_len gf fg f_padd f_deg)) (pull_Zc D k blk keep cm keep_sym keep_blk cm_blk f f_deg) (pull_H0 D k f f_deg E)
           gflag gflag' rflag fenv rflag' fenv' fenv_spec fenv_spec' sol sol' Hsol Hsol' H_zero Hin).
Qed.
End PullNH.

(** * C13 vanishing perturbation *)
Section VanishNH.
Variables D k : nat.
Context {R0 : Type} `{Rg : Ring R0} {CS : CStar R0}.
Variable blk : nat -> nat.
Variable keep : nat -> nat -> bool.
Variable cm : nat -> bool.
Hypothesis keep_sym : forall p q, keep p q = keep q p.
Hypothesis keep_refl : forall p, keep p p = true.
Hypothesis keep_blk : forall p q, keep p q = true -> blk p = blk q.
Hypothesis cm_blk : forall p q, blk p = blk q -> cm p = cm q.
Variable E : nat -> R0.
Variable inv : R0 -> R0.
Hypothesis inv_spec : forall p q, (p < D)%nat -> (q < D)%nat -> keep p q = false ->
                                  (E p - E q) * inv (E p - E q) == 1.
Hypothesis kept_equal : forall p q, (p < D)%nat -> (q < D)%nat -> keep p q = true -> E p == E q.
Variable gflag gflag' : string -> bool.
Variable rflag : string -> T D k R0 -> T D k R0.
Variable fenv : string -> list (T D k R0) -> T D k R0.
Variable rflag' : string -> T D (S k) R0 -> T D (S k) R0.
Variable fenv' : string -> list (T D (S k) R0) -> T D (S k) R0.
Hypothesis fenv_spec : forall y, fenv "solve_sylvester" (cons y nil) == SylvInst.sylv E inv y.
Hypothesis fenv_spec' : forall y, fenv' "solve_sylvester" (cons y nil) == SylvInst.sylv E inv y.
Variable sol : string -> T D k R0.
Variable sol' : string -> T D (S k) R0.
Hypothesis Hsol : solution (BA := (series_BlockAlg D k blk keep cm keep_sym keep_blk cm_blk)) gflag rflag fenv sol nonhermitian_alg.
Hypothesis Hsol' : solution (BA := (series_BlockAlg D (S k) blk keep cm keep_sym keep_blk cm_blk)) gflag' rflag' fenv' sol' nonhermitian_alg.
Hypothesis H_zero : Zc (BlockAlg := (series_BlockAlg D k blk keep cm keep_sym keep_blk cm_blk)) (sol "H") == SylvInst.H0 D k E.
Hypothesis Hin : sol' "H" == vanish D k (sol "H").
Theorem vanish_nh :
  sol' "U" == vanish D k (sol "U") /\ sol' "U†" == vanish D k (sol "U†") /\ sol' "H_tilde" == vanish D k (sol "H_tilde").
Proof.
  exact (inst_transport_nh D k blk keep cm keep_sym keep_refl keep_blk cm_blk E inv inv_spec kept_equal
           D (S k) blk keep cm keep_sym keep_refl keep_blk cm_blk E inv inv_spec kept_equal
           (vanish D k) (LAHom_SGHom _ (vanish_LAHom D k blk keep cm keep_sym keep_blk cm_blk)) (vanish_Zc D k blk keep cm keep_sym keep_blk cm_blk) (vanish_H0 D k E)
           gflag gflag' rflag fenv rflag' fenv' fenv_spec fenv_spec' sol sol' Hsol Hsol' H_zero Hin).
Qed.
End VanishNH.

(** * C13 merge / power (push-forward) *)
Section PushNH.
Variable k' : nat.
Variables D k : nat.
Context {R0 : Type} `{Rg : Ring R0} {CS : CStar R0}.
Variable blk : nat -> nat.
Variable keep : nat -> nat -> bool.
Variable cm : nat -> bool.
Hypothesis keep_sym : forall p q, keep p q = keep q p.
Hypothesis keep_refl : forall p, keep p p = true.
Hypothesis keep_blk : forall p q, keep p q = true -> blk p = blk q.
Hypothesis cm_blk : forall p q, blk p = blk q -> cm p = cm q.
Variable E : nat -> R0.
Variable inv : R0 -> R0.
Hypothesis inv_spec : forall p q, (p < D)%nat -> (q < D)%nat -> keep p q = false ->
                                  (E p - E q) * inv (E p - E q) == 1.
Hypothesis kept_equal : forall p q, (p < D)%nat -> (q < D)%nat -> keep p q = true -> E p == E q.
Variable pr : mi -> mi.
Variable fib : mi -> list mi.
Hypothesis fib_spec : forall n a, List.length n = k -> (In a (fib n) <-> List.length a = k' /\ pr a = n).
Hypothesis fib_nodup : forall n, List.length n = k -> NoDup (fib n).
Hypothesis pr_len : forall a, List.length a = k' -> List.length (pr a) = k.
Hypothesis pr_padd : forall a b, List.length a = k' -> List.length b = k' -> pr (padd a b) = padd (pr a) (pr b).
Hypothesis pr_zero : pr (MultiIndex.mzero k') = MultiIndex.mzero k.
Hypothesis pr_deg : forall a, List.length a = k' -> (deg a <= deg (pr a))%nat.
Variable gflag gflag' : string -> bool.
Variable rflag : string -> T D k' R0 -> T D k' R0.
Variable fenv : string -> list (T D k' R0) -> T D k' R0.
Variable rflag' : string -> T D k R0 -> T D k R0.
Variable fenv' : string -> list (T D k R0) -> T D k R0.
Hypothesis fenv_spec : forall y, fenv "solve_sylvester" (cons y nil) == SylvInst.sylv E inv y.
Hypothesis fenv_spec' : forall y, fenv' "solve_sylvester" (cons y nil) == SylvInst.sylv E inv y.
Variable sol : string -> T D k' R0.
Variable sol' : string -> T D k R0.
Hypothesis Hsol : solution (BA := (series_BlockAlg D k' blk keep cm keep_sym keep_blk cm_blk)) gflag rflag fenv sol nonhermitian_alg.
Hypothesis Hsol' : solution (BA := (series_BlockAlg D k blk keep cm keep_sym keep_blk cm_blk)) gflag' rflag' fenv' sol' nonhermitian_alg.
Hypothesis H_zero : Zc (BlockAlg := (series_BlockAlg D k' blk keep cm keep_sym keep_blk cm_blk)) (sol "H") == SylvInst.H0 D k' E.
Hypothesis Hin : sol' "H" == push D k k' fib (sol "H").
Theorem push_nh :
  sol' "U" == push D k k' fib (sol "U") /\ sol' "U†" == push D k k' fib (sol "U†") /\ sol' "H_tilde" == push D k k' fib (sol "H_tilde").
Proof.
  exact (inst_transport_nh D k' blk keep cm keep_sym keep_refl keep_blk cm_blk E inv inv_spec kept_equal
           D k blk keep cm keep_sym keep_refl keep_blk cm_blk E inv inv_spec kept_equal
           (push D k k' fib) (LAHom_SGHom _ (push_LAHom D k k' blk keep cm keep_sym keep_blk cm_blk pr fib fib_spec fib_nodup pr_len pr_padd pr_zero pr_deg)) (push_Zc D k k' blk keep cm keep_sym keep_blk cm_blk pr fib fib_spec pr_zero pr_deg) (push_H0 D k k' pr fib fib_spec fib_nodup pr_zero pr_deg E)
           gflag gflag' rflag fenv rflag' fenv' fenv_spec fenv_spec' sol sol' Hsol Hsol' H_zero Hin).
Qed.
End PushNH.

(** * C15 basis permutation / relabelling *)
Section PermNH.
Variables D k : nat.
Context {R0 : Type} `{Rg : Ring R0} {CS : CStar R0}.
Variable blk : nat -> nat.
Variable keep : nat -> nat -> bool.
Variable cm : nat -> bool.
Hypothesis keep_sym : forall p q, keep p q = keep q p.
Hypothesis keep_refl : forall p, keep p p = true.
Hypothesis keep_blk : forall p q, keep p q = true -> blk p = blk q.
Hypothesis cm_blk : forall p q, blk p = blk q -> cm p = cm q.
Variable E : nat -> R0.
Variable inv : R0 -> R0.
Hypothesis inv_spec : forall p q, (p < D)%nat -> (q < D)%nat -> keep p q = false ->
                                  (E p - E q) * inv (E p - E q) == 1.
Hypothesis kept_equal : forall p q, (p < D)%nat -> (q < D)%nat -> keep p q = true -> E p == E q.
Variables pi pinv : nat -> nat.
Hypothesis pi_lt : forall p, (p < D)%nat -> (pi p < D)%nat.
Hypothesis pinv_lt : forall p, (p < D)%nat -> (pinv p < D)%nat.
Hypothesis pinv_pi : forall p, (p < D)%nat -> pinv (pi p) = p.
Hypothesis pi_pinv : forall p, (p < D)%nat -> pi (pinv p) = p.
Variable blk' : nat -> nat.
Variable cm' : nat -> bool.
Hypothesis keep_blk' : forall p q, keep_pi keep pi p q = true -> blk' p = blk' q.
Hypothesis cm_blk' : forall p q, blk' p = blk' q -> cm' p = cm' q.
Lemma inv_spec_pi_nh p q : (p < D)%nat -> (q < D)%nat -> keep_pi keep pi p q = false ->
  (E_pi pi E p - E_pi pi E q) * inv (E_pi pi E p - E_pi pi E q) == 1.
Proof. intros Hp Hq K. apply inv_spec; auto. Qed.
Lemma kept_equal_pi p q : (p < D)%nat -> (q < D)%nat -> keep_pi keep pi p q = true -> E_pi pi E p == E_pi pi E q.
Proof. intros Hp Hq K. apply kept_equal; auto. Qed.
Variable gflag gflag' : string -> bool.
Variable rflag : string -> T D k R0 -> T D k R0.
Variable fenv : string -> list (T D k R0) -> T D k R0.
Variable rflag' : string -> T D k R0 -> T D k R0.
Variable fenv' : string -> list (T D k R0) -> T D k R0.
Hypothesis fenv_spec : forall y, fenv "solve_sylvester" (cons y nil) == SylvInst.sylv E inv y.
Hypothesis fenv_spec' : forall y, fenv' "solve_sylvester" (cons y nil) == SylvInst.sylv (E_pi pi E) inv y.
Variable sol : string -> T D k R0.
Variable sol' : string -> T D k R0.
Hypothesis Hsol : solution (BA := (series_BlockAlg D k blk keep cm keep_sym keep_blk cm_blk)) gflag rflag fenv sol nonhermitian_alg.
Hypothesis Hsol' : solution (BA := (series_BlockAlg D k blk' (keep_pi keep pi) cm' (keep_pi_sym keep keep_sym pi) keep_blk' cm_blk')) gflag' rflag' fenv' sol' nonhermitian_alg.
Hypothesis H_zero : Zc (BlockAlg := (series_BlockAlg D k blk keep cm keep_sym keep_blk cm_blk)) (sol "H") == SylvInst.H0 D k E.
Hypothesis Hin : sol' "H" == sperm D k pi (sol "H").
Theorem perm_nh :
  sol' "U" == sperm D k pi (sol "U") /\ sol' "U†" == sperm D k pi (sol "U†") /\ sol' "H_tilde" == sperm D k pi (sol "H_tilde").
Proof.
  exact (inst_transport_nh D k blk keep cm keep_sym keep_refl keep_blk cm_blk E inv inv_spec kept_equal
           D k blk' (keep_pi keep pi) cm' (keep_pi_sym keep keep_sym pi) (keep_pi_refl keep keep_refl pi) keep_blk' cm_blk' (E_pi pi E) inv inv_spec_pi_nh kept_equal_pi
           (sperm D k pi) (LAHom_SGHom _ (sperm_LAHom D k blk keep cm keep_sym keep_blk cm_blk pi pinv pi_lt pinv_lt pinv_pi pi_pinv blk' cm' keep_blk' cm_blk')) (sperm_Zc D k blk keep cm keep_sym keep_blk cm_blk pi blk' cm' keep_blk' cm_blk') (sperm_H0 D k pi pinv pinv_pi E)
           gflag gflag' rflag fenv rflag' fenv' fenv_spec fenv_spec' sol sol' Hsol Hsol' H_zero Hin).
Qed.
End PermNH.

(** * C15 conjugation: the problem for H is mapped to the problem for conj H (energies conj E) *)
Section ConjNH.
Variables D k : nat.
Context {R0 : Type} `{Rg : Ring R0} {CS : CStar R0}.
Variable blk : nat -> nat.
Variable keep : nat -> nat -> bool.
Variable cm : nat -> bool.
Hypothesis keep_sym : forall p q, keep p q = keep q p.
Hypothesis keep_refl : forall p, keep p p = true.
Hypothesis keep_blk : forall p q, keep p q = true -> blk p = blk q.
Hypothesis cm_blk : forall p q, blk p = blk q -> cm p = cm q.
Variable E : nat -> R0.
Variable inv : R0 -> R0.
Hypothesis inv_spec : forall p q, (p < D)%nat -> (q < D)%nat -> keep p q = false ->
                                  (E p - E q) * inv (E p - E q) == 1.
Hypothesis kept_equal : forall p q, (p < D)%nat -> (q < D)%nat -> keep p q = true -> E p == E q.
Hypothesis inv_P : Proper (_==_ ==> _==_) inv.
Hypothesis inv_conj : forall x, conj (inv x) == inv (conj x).
Definition E_conj (p : nat) : R0 := conj (E p).
Lemma inv_spec_conj p q : (p < D)%nat -> (q < D)%nat -> keep p q = false ->
  (E_conj p - E_conj q) * inv (E_conj p - E_conj q) == 1.
Proof.
  intros Hp Hq K. unfold E_conj. rewrite <- conj_sub, <- inv_conj, <- conj_mul, (inv_spec p q Hp Hq K). apply conj_one.
Qed.
Lemma kept_equal_conj p q : (p < D)%nat -> (q < D)%nat -> keep p q = true -> E_conj p == E_conj q.
Proof. intros Hp Hq K. unfold E_conj. rewrite (kept_equal p q Hp Hq K). reflexivity. Qed.
Lemma cconj_H0_nh : cconj D k (SylvInst.H0 D k E) == SylvInst.H0 D k E_conj.
Proof.
  intros n Hn p q Hp Hq. unfold cconj, SylvInst.H0, E_conj. destruct (is_zero n).
  - unfold mdiag. destruct (Nat.eqb p q). reflexivity. apply conj_zero.
  - apply conj_zero.
Qed.
Variable gflag gflag' : string -> bool.
Variable rflag : string -> T D k R0 -> T D k R0.
Variable fenv : string -> list (T D k R0) -> T D k R0.
Variable rflag' : string -> T D k R0 -> T D k R0.
Variable fenv' : string -> list (T D k R0) -> T D k R0.
Hypothesis fenv_spec : forall y, fenv "solve_sylvester" (cons y nil) == SylvInst.sylv E inv y.
Hypothesis fenv_spec' : forall y, fenv' "solve_sylvester" (cons y nil) == SylvInst.sylv E_conj inv y.
Variable sol : string -> T D k R0.
Variable sol' : string -> T D k R0.
Hypothesis Hsol : solution (BA := (series_BlockAlg D k blk keep cm keep_sym keep_blk cm_blk)) gflag rflag fenv sol nonhermitian_alg.
Hypothesis Hsol' : solution (BA := (series_BlockAlg D k blk keep cm keep_sym keep_blk cm_blk)) gflag' rflag' fenv' sol' nonhermitian_alg.
Hypothesis H_zero : Zc (BlockAlg := (series_BlockAlg D k blk keep cm keep_sym keep_blk cm_blk)) (sol "H") == SylvInst.H0 D k E.
Hypothesis Hin : sol' "H" == cconj D k (sol "H").
Theorem conj_nh :
  sol' "U" == cconj D k (sol "U") /\ sol' "U†" == cconj D k (sol "U†") /\ sol' "H_tilde" == cconj D k (sol "H_tilde").
Proof.
  exact (inst_transport_nh D k blk keep cm keep_sym keep_refl keep_blk cm_blk E inv inv_spec kept_equal
           D k blk keep cm keep_sym keep_refl keep_blk cm_blk E_conj inv inv_spec_conj kept_equal_conj
           (cconj D k) (LAHom_SGHom _ (cconj_LAHom D k blk keep cm keep_sym keep_blk cm_blk)) (cconj_Zc D k blk keep cm keep_sym keep_blk cm_blk) cconj_H0_nh
           gflag gflag' rflag fenv rflag' fenv' fenv_spec fenv_spec' sol sol' Hsol Hsol' H_zero Hin).
Qed.
End ConjNH.

(** * C15 rotation by an invertible matrix R (inverse Ri) commuting with the kept mask and with H_0 *)
Section RingConjG.
Context {M : Type} `{Rg : Ring M}.
Variables R Ri : M.
Hypothesis RiR : Ri * R == 1.
Hypothesis RRi : R * Ri == 1.
Definition gc (a : M) : M := Ri * a * R.
Lemma gc_P : Proper (_==_ ==> _==_) gc.
Proof. intros a b H. unfold gc. rewrite H. reflexivity. Qed.
Lemma gc_add a b : gc (a + b) == gc a + gc b.
Proof. unfold gc. non_commutative_ring. Qed.
Lemma gc_opp a : gc (- a) == - gc a.
Proof. unfold gc. non_commutative_ring. Qed.
Lemma gc_zero : gc 0 == 0.
Proof. unfold gc. non_commutative_ring. Qed.
Lemma gc_one : gc 1 == 1.
Proof. unfold gc. transitivity (Ri * R). non_commutative_ring. exact RiR. Qed.
Lemma gc_mul a b : gc (a * b) == gc a * gc b.
Proof.
  unfold gc. transitivity (Ri * a * (R * Ri) * b * R).
  rewrite RRi. non_commutative_ring. non_commutative_ring.
Qed.
Lemma gc_bigsum {A} (F : A -> M) l : gc (bigsum F l) == bigsum (fun a => gc (F a)) l.
Proof. unfold gc. rewrite bigsum_mul_l, bigsum_mul_r. reflexivity. Qed.
End RingConjG.

Section RotNH.
Variables D k : nat.
Context {R0 : Type} `{Rg : Ring R0} {CS : CStar R0}.
Variable blk : nat -> nat.
Variable keep : nat -> nat -> bool.
Variable cm : nat -> bool.
Hypothesis keep_sym : forall p q, keep p q = keep q p.
Hypothesis keep_refl : forall p, keep p p = true.
Hypothesis keep_blk : forall p q, keep p q = true -> blk p = blk q.
Hypothesis cm_blk : forall p q, blk p = blk q -> cm p = cm q.
Variable E : nat -> R0.
Variable inv : R0 -> R0.
Hypothesis inv_spec : forall p q, (p < D)%nat -> (q < D)%nat -> keep p q = false ->
                                  (E p - E q) * inv (E p - E q) == 1.
Hypothesis kept_equal : forall p q, (p < D)%nat -> (q < D)%nat -> keep p q = true -> E p == E q.
Local Notation T := (T D k R0).
Local Notation BA := (series_BlockAlg D k blk keep cm keep_sym keep_blk cm_blk).
Local Hint Extern 0 (BlockAlg _) => exact BA : typeclass_instances.
Local Notation M := (mat D R0).
Variables R Ri : M.
Hypothesis RiR : Ri * R == 1.
Hypothesis RRi : R * Ri == 1.
Hypothesis R_mask : forall y : M, mmask keep (Ri * y * R) == Ri * mmask keep y * R.
Hypothesis R_H0 : Ri * mdiag D E * R == mdiag D E.
Local Notation gcm := (gc (Ro := mat_ops D) R Ri).

Definition rotg (x : T) : T := fun n => gcm (x n).

Lemma rotg_SGHom : SGHom (BA := BA) (BA' := BA) rotg.
Proof.
  apply mkSGHom.
  - intros x y H n Hn. unfold rotg. apply (gc_P (Rg := mat_Ring D)). exact (H n Hn).
  - intros x y n Hn. exact (gc_add (Rg := mat_Ring D) R Ri (x n) (y n)).
  - intros x n Hn. exact (gc_opp (Rg := mat_Ring D) R Ri (x n)).
  - intros n Hn. unfold rotg.
    change (gcm (if is_zero n then (1 : M) else 0) == (if is_zero n then (1 : M) else 0)).
    destruct (is_zero n). apply (gc_one (Rg := mat_Ring D) R Ri RiR). apply (gc_zero (Rg := mat_Ring D)).
  - intros x y n Hn.
    change (gcm (bigsum (fun ab => x (fst ab) * y (snd ab)) (splits n))
            == bigsum (fun ab => gcm (x (fst ab)) * gcm (y (snd ab))) (splits n)).
    rewrite (gc_bigsum (Rg := mat_Ring D)). apply bigsum_ext. intros ab _.
    apply (gc_mul (Rg := mat_Ring D) R Ri RRi).
  - intros x n Hn. symmetry. exact (R_mask (x n)).
  - intros m x Hx n Hn Hd. unfold rotg.
    transitivity (gcm 0). apply (gc_P (Rg := mat_Ring D)). exact (Hx n Hn Hd).
    apply (gc_zero (Rg := mat_Ring D)).
Qed.

Lemma rotg_Zc (x : T) : rotg (Zc x) == Zc (rotg x).
Proof.
  intros n Hn.
  change (gcm (if is_zero n then x n else 0) == (if is_zero n then gcm (x n) else 0)).
  destruct (is_zero n). reflexivity. apply (gc_zero (Rg := mat_Ring D)).
Qed.

Lemma rotg_H0 : rotg (SylvInst.H0 D k E) == SylvInst.H0 D k E.
Proof.
  intros n Hn. unfold rotg, SylvInst.H0. destruct (is_zero n). exact R_H0.
  apply (gc_zero (Rg := mat_Ring D)).
Qed.

Variable gflag gflag' : string -> bool.
Variable rflag rflag' : string -> T -> T.
Variable fenv fenv' : string -> list T -> T.
Hypothesis fenv_spec : forall y, fenv "solve_sylvester" (cons y nil) == SylvInst.sylv E inv y.
Hypothesis fenv_spec' : forall y, fenv' "solve_sylvester" (cons y nil) == SylvInst.sylv E inv y.
Variable sol sol' : string -> T.
Hypothesis Hsol : solution gflag rflag fenv sol nonhermitian_alg.
Hypothesis Hsol' : solution gflag' rflag' fenv' sol' nonhermitian_alg.
Hypothesis H_zero : Zc (sol "H") == SylvInst.H0 D k E.
Hypothesis Hin : sol' "H" == rotg (sol "H").

Theorem rot_nh :
  sol' "U" == rotg (sol "U") /\ sol' "U†" == rotg (sol "U†") /\ sol' "H_tilde" == rotg (sol "H_tilde").
Proof.
  exact (inst_transport_nh D k blk keep cm keep_sym keep_refl keep_blk cm_blk E inv inv_spec kept_equal
           D k blk keep cm keep_sym keep_refl keep_blk cm_blk E inv inv_spec kept_equal
           rotg rotg_SGHom rotg_Zc rotg_H0
           gflag gflag' rflag fenv rflag' fenv' fenv_spec fenv_spec' sol sol' Hsol Hsol' H_zero Hin).
Qed.
End RotNH.

(** * C15 shift and scale *)
Section ShiftScaleNH.
Variables D k : nat.
Context {R0 : Type} `{Rg : Ring R0} {CS : CStar R0}.
Variable blk : nat -> nat.
Variable keep : nat -> nat -> bool.
Variable cm : nat -> bool.
Hypothesis keep_sym : forall p q, keep p q = keep q p.
Hypothesis keep_refl : forall p, keep p p = true.
Hypothesis keep_blk : forall p q, keep p q = true -> blk p = blk q.
Hypothesis cm_blk : forall p q, blk p = blk q -> cm p = cm q.
Variable E : nat -> R0.
Variable inv : R0 -> R0.
Hypothesis inv_spec : forall p q, (p < D)%nat -> (q < D)%nat -> keep p q = false ->
                                  (E p - E q) * inv (E p - E q) == 1.
Hypothesis kept_equal : forall p q, (p < D)%nat -> (q < D)%nat -> keep p q = true -> E p == E q.
Local Notation T := (T D k R0).
Local Notation BA := (series_BlockAlg D k blk keep cm keep_sym keep_blk cm_blk).
Local Hint Extern 0 (BlockAlg _) => exact BA : typeclass_instances.
Variable gflag gflag' : string -> bool.
Variable rflag rflag' : string -> T -> T.
Variable fenv fenv' : string -> list T -> T.
Hypothesis fenv_spec : forall y, fenv "solve_sylvester" (cons y nil) == SylvInst.sylv E inv y.
Variable sol sol' : string -> T.
Hypothesis Hsol : solution gflag rflag fenv sol nonhermitian_alg.
Hypothesis Hsol' : solution gflag' rflag' fenv' sol' nonhermitian_alg.
Hypothesis H_zero : Zc (sol "H") == SylvInst.H0 D k E.

Lemma ssn_w : nh_wiring fenv (sol "H").
Proof.
  exact (inst_nh_wiring D k blk keep cm keep_sym keep_refl keep_blk cm_blk E inv inv_spec kept_equal fenv fenv_spec (sol "H") H_zero).
Qed.

Section ShiftC.
Variable c : R0.
Hypothesis inv_P : Proper (_==_ ==> _==_) inv.
Hypothesis fenv_spec' : forall y, fenv' "solve_sylvester" (cons y nil) == SylvInst.sylv (fun p => E p + c) inv y.
Hypothesis Hin : sol' "H" == sol "H" + cst D k c.

Lemma shn_inv_spec p q : (p < D)%nat -> (q < D)%nat -> keep p q = false ->
  ((E p + c) - (E q + c)) * inv ((E p + c) - (E q + c)) == 1.
Proof.
  intros Hp Hq K. assert (X : (E p + c) - (E q + c) == E p - E q) by non_commutative_ring.
  rewrite X. now apply inv_spec.
Qed.
Lemma shn_kept_equal p q : (p < D)%nat -> (q < D)%nat -> keep p q = true -> E p + c == E q + c.
Proof. intros Hp Hq K. rewrite (kept_equal p q Hp Hq K). reflexivity. Qed.
Lemma shn_zero' : Zc (sol' "H") == SylvInst.H0 D k (fun p => E p + c).
Proof.
  rewrite Hin, (am_add (f := Zc)), H_zero.
  rewrite (Zc_H0 (k := k) blk keep cm keep_sym keep_blk cm_blk (fun _ => c)). exact (H0_plus_cst D k (Rg := Rg) E c).
Qed.

Theorem shift_nh :
  sol' "U" == sol "U" /\ sol' "U†" == sol "U†" /\ sol' "H_tilde" == sol "H_tilde" + cst D k c.
Proof.
  apply (nh_shift_outputs gflag gflag' rflag rflag' fenv fenv' sol sol' Hsol Hsol' ssn_w).
  - exact (inst_nh_wiring D k blk keep cm keep_sym keep_refl keep_blk cm_blk (fun p => E p + c) inv shn_inv_spec shn_kept_equal
             fenv' fenv_spec' (sol' "H") shn_zero').
  - exact (cst_central D k (Rg := Rg) c).
  - exact (cst_Sel D k blk keep cm keep_sym keep_refl keep_blk cm_blk c).
  - exact Hin.
Qed.
End ShiftC.

Section ScaleS.
Variable s : R0.
Variable inv' : R0 -> R0.
Hypothesis inv_spec' : forall p q, (p < D)%nat -> (q < D)%nat -> keep p q = false ->
                                   (s * E p - s * E q) * inv' (s * E p - s * E q) == 1.
Hypothesis fenv_spec' : forall y, fenv' "solve_sylvester" (cons y nil) == SylvInst.sylv (fun p => s * E p) inv' y.
Hypothesis Hin : sol' "H" == cst D k s * sol "H".

Lemma scn_kept_equal p q : (p < D)%nat -> (q < D)%nat -> keep p q = true -> s * E p == s * E q.
Proof. intros Hp Hq K. rewrite (kept_equal p q Hp Hq K). reflexivity. Qed.
Lemma scn_zero' : Zc (sol' "H") == SylvInst.H0 D k (fun p => s * E p).
Proof.
  rewrite Hin, Zc_mul, H_zero.
  rewrite (Zc_H0 (k := k) blk keep cm keep_sym keep_blk cm_blk (fun _ => s)). exact (cst_times_H0 D k (Rg := Rg) E s).
Qed.

Theorem hscale_nh :
  sol' "U" == sol "U" /\ sol' "U†" == sol "U†" /\ sol' "H_tilde" == cst D k s * sol "H_tilde".
Proof.
  apply (nh_scale_outputs gflag gflag' rflag rflag' fenv fenv' sol sol' Hsol Hsol' ssn_w).
  - exact (inst_nh_wiring D k blk keep cm keep_sym keep_refl keep_blk cm_blk (fun p => s * E p) inv' inv_spec' scn_kept_equal
             fenv' fenv_spec' (sol' "H") scn_zero').
  - exact (cst_central D k (Rg := Rg) s).
  - exact (cst_Sel_mul D k blk keep cm keep_sym keep_blk cm_blk s).
  - exact Hin.
Qed.
End ScaleS.
End ShiftScaleNH.

(** * C15 direct sum *)
Section SumNH.
Variables D1 D2 k : nat.
Context {R0 : Type} `{Rg : Ring R0} {CS : CStar R0}.
Variables blk1 blk2 : nat -> nat.
Variables keep1 keep2 : nat -> nat -> bool.
Variables cm1 cm2 : nat -> bool.
Hypothesis keep_sym1 : forall p q, keep1 p q = keep1 q p.
Hypothesis keep_sym2 : forall p q, keep2 p q = keep2 q p.
Hypothesis keep_refl1 : forall p, keep1 p p = true.
Hypothesis keep_refl2 : forall p, keep2 p p = true.
Hypothesis keep_blk1 : forall p q, keep1 p q = true -> blk1 p = blk1 q.
Hypothesis keep_blk2 : forall p q, keep2 p q = true -> blk2 p = blk2 q.
Hypothesis cm_blk1 : forall p q, blk1 p = blk1 q -> cm1 p = cm1 q.
Hypothesis cm_blk2 : forall p q, blk2 p = blk2 q -> cm2 p = cm2 q.
Local Notation DS := (Nat.add D1 D2).
Local Notation T1 := (T D1 k R0).
Local Notation T2 := (T D2 k R0).
Local Notation TS := (T DS k R0).
Local Notation keepS := (keepS D1 keep1 keep2).
Local Notation blkS := (blkS D1 blk1 blk2).
Local Notation cmS := (cmS D1 cm1 cm2).
Local Notation kS_sym := (keepS_sym D1 keep1 keep2 keep_sym1 keep_sym2).
Local Notation kS_refl := (keepS_refl D1 keep1 keep2 keep_refl1 keep_refl2).
Local Notation kS_blk := (keepS_blk D1 blk1 blk2 keep1 keep2 keep_blk1 keep_blk2).
Local Notation cS_blk := (cmS_blk D1 blk1 blk2 cm1 cm2 cm_blk1 cm_blk2).
Local Notation B1 := (series_BlockAlg D1 k blk1 keep1 cm1 keep_sym1 keep_blk1 cm_blk1).
Local Notation B2 := (series_BlockAlg D2 k blk2 keep2 cm2 keep_sym2 keep_blk2 cm_blk2).
Local Notation BS := (series_BlockAlg DS k blkS keepS cmS kS_sym kS_blk cS_blk).
Local Notation os := (osum D1 D2 k).
Local Notation oSel := (osum_Sel D1 D2 k blk1 blk2 keep1 keep2 cm1 cm2 keep_sym1 keep_sym2 keep_blk1 keep_blk2 cm_blk1 cm_blk2).
Local Notation oord := (osum_ord D1 D2 k blk1 blk2 keep1 keep2 cm1 cm2 keep_sym1 keep_sym2 keep_blk1 keep_blk2 cm_blk1 cm_blk2).
Local Notation oZc := (osum_Zc D1 D2 k blk1 blk2 keep1 keep2 cm1 cm2 keep_sym1 keep_sym2 keep_blk1 keep_blk2 cm_blk1 cm_blk2).

Theorem sg_osum H1 U1 G1 H2 U2 G2 :
  similarity_gauge (BA := B1) H1 U1 G1 -> similarity_gauge (BA := B2) H2 U2 G2 ->
  similarity_gauge (BA := BS) (os H1 H2) (os U1 U2) (os G1 G2).
Proof.
  intros (a1 & b1 & c1 & d1 & e1) (a2 & b2 & c2 & d2 & e2). unfold similarity_gauge.
  assert (EU : forall X1 X2, os X1 X2 - 1 == os (X1 - 1) (X2 - 1)).
  { intros X1 X2. rewrite (osum_sub D1 D2 k). apply ring_sub_comp. reflexivity. symmetry. exact (osum_one D1 D2 k). }
  repeat split.
  - apply (proj2 (ord_P (BlockAlg := BS) 1 (EU U1 U2))). apply oord; assumption.
  - apply (proj2 (ord_P (BlockAlg := BS) 1 (EU G1 G2))). apply oord; assumption.
  - rewrite <- (osum_mul D1 D2 k), <- (osum_one D1 D2 k). apply (osum_P D1 D2 k); assumption.
  - transitivity (os (Rp (BA := B1) (G1 * H1 * U1)) (Rp (BA := B2) (G2 * H2 * U2))).
    + unfold Rp. rewrite (osum_sub D1 D2 k). apply ring_sub_comp.
      * rewrite !(osum_mul D1 D2 k). reflexivity.
      * rewrite oSel. apply (am_P (AddMap := Sel_am (BlockAlg := BS))). rewrite !(osum_mul D1 D2 k). reflexivity.
    + rewrite <- (osum_zero D1 D2 k). apply (osum_P D1 D2 k); assumption.
  - transitivity (os (Sel (BlockAlg := B1) (U1 - G1)) (Sel (BlockAlg := B2) (U2 - G2))).
    + rewrite oSel. apply (am_P (AddMap := Sel_am (BlockAlg := BS))). symmetry. apply (osum_sub D1 D2 k).
    + rewrite <- (osum_zero D1 D2 k). apply (osum_P D1 D2 k); assumption.
Qed.

Variables E1 E2 : nat -> R0.
Local Notation ES := (ES D1 E1 E2).
Variable inv : R0 -> R0.
Hypothesis inv_specS : forall p q, (p < DS)%nat -> (q < DS)%nat -> keepS p q = false ->
                                   (ES p - ES q) * inv (ES p - ES q) == 1.
Hypothesis kept_equal1 : forall p q, (p < D1)%nat -> (q < D1)%nat -> keep1 p q = true -> E1 p == E1 q.
Hypothesis kept_equal2 : forall p q, (p < D2)%nat -> (q < D2)%nat -> keep2 p q = true -> E2 p == E2 q.

Lemma kept_equalS p q : (p < DS)%nat -> (q < DS)%nat -> keepS p q = true -> ES p == ES q.
Proof.
  intros Hp Hq. unfold SymIdx.keepS, SymSum.ES.
  destruct (lo D1 p) eqn:Lp, (lo D1 q) eqn:Lq; intros K; try discriminate.
  - apply kept_equal1; auto using lo_lt.
  - apply kept_equal2; auto using sh_lt.
Qed.

Variable gflag1 gflag2 gflagS : string -> bool.
Variable rflag1 : string -> T1 -> T1.
Variable fenv1 : string -> list T1 -> T1.
Variable rflag2 : string -> T2 -> T2.
Variable fenv2 : string -> list T2 -> T2.
Variable rflagS : string -> TS -> TS.
Variable fenvS : string -> list TS -> TS.
Hypothesis fenv_spec1 : forall y, fenv1 "solve_sylvester" (cons y nil) == SylvInst.sylv E1 inv y.
Hypothesis fenv_spec2 : forall y, fenv2 "solve_sylvester" (cons y nil) == SylvInst.sylv E2 inv y.
Hypothesis fenv_specS : forall y, fenvS "solve_sylvester" (cons y nil) == SylvInst.sylv ES inv y.
Variable sol1 : string -> T1.
Variable sol2 : string -> T2.
Variable solS : string -> TS.
Hypothesis Hsol1 : solution (BA := B1) gflag1 rflag1 fenv1 sol1 nonhermitian_alg.
Hypothesis Hsol2 : solution (BA := B2) gflag2 rflag2 fenv2 sol2 nonhermitian_alg.
Hypothesis HsolS : solution (BA := BS) gflagS rflagS fenvS solS nonhermitian_alg.
Hypothesis H_zero1 : Zc (BlockAlg := B1) (sol1 "H") == SylvInst.H0 D1 k E1.
Hypothesis H_zero2 : Zc (BlockAlg := B2) (sol2 "H") == SylvInst.H0 D2 k E2.
Hypothesis Hin : solS "H" == os (sol1 "H") (sol2 "H").

Lemma dsn_w1 : nh_wiring (BA := B1) fenv1 (sol1 "H").
Proof.
  exact (inst_nh_wiring D1 k blk1 keep1 cm1 keep_sym1 keep_refl1 keep_blk1 cm_blk1 E1 inv
           (inv_spec1 D1 D2 keep1 keep2 E1 E2 inv inv_specS) kept_equal1 fenv1 fenv_spec1 (sol1 "H") H_zero1).
Qed.
Lemma dsn_w2 : nh_wiring (BA := B2) fenv2 (sol2 "H").
Proof.
  exact (inst_nh_wiring D2 k blk2 keep2 cm2 keep_sym2 keep_refl2 keep_blk2 cm_blk2 E2 inv
           (inv_spec2 D1 D2 keep1 keep2 E1 E2 inv inv_specS) kept_equal2 fenv2 fenv_spec2 (sol2 "H") H_zero2).
Qed.
Lemma dsn_zeroS : Zc (BlockAlg := BS) (solS "H") == SylvInst.H0 DS k ES.
Proof.
  rewrite Hin, <- oZc, <- (osum_H0 D1 D2 k E1 E2). apply (osum_P D1 D2 k); assumption.
Qed.
Lemma dsn_wS : nh_wiring (BA := BS) fenvS (solS "H").
Proof.
  exact (inst_nh_wiring DS k blkS keepS cmS kS_sym kS_refl kS_blk cS_blk ES inv inv_specS kept_equalS
           fenvS fenv_specS (solS "H") dsn_zeroS).
Qed.

Theorem direct_sum_nh :
  solS "U" == os (sol1 "U") (sol2 "U") /\ solS "U†" == os (sol1 "U†") (sol2 "U†")
  /\ solS "H_tilde" == os (sol1 "H_tilde") (sol2 "H_tilde").
Proof.
  pose proof (nh_similarity_gauge (BA := B1) gflag1 rflag1 fenv1 sol1 Hsol1 dsn_w1) as L1.
  pose proof (nh_similarity_gauge (BA := B2) gflag2 rflag2 fenv2 sol2 Hsol2 dsn_w2) as L2.
  pose proof (sg_osum _ _ _ _ _ _ L1 L2) as L12.
  assert (L12' : similarity_gauge (BA := BS) (solS "H") (os (sol1 "U") (sol2 "U")) (os (sol1 "U†") (sol2 "U†"))).
  { apply (sg_proper (BA := BS) (os (sol1 "H") (sol2 "H")) (solS "H") (os (sol1 "U") (sol2 "U")) (os (sol1 "U") (sol2 "U"))
             (os (sol1 "U†") (sol2 "U†")) (os (sol1 "U†") (sol2 "U†"))); try reflexivity.
    symmetry; exact Hin. exact L12. }
  destruct (nh_unique (BA := BS) gflagS rflagS fenvS solS HsolS dsn_wS _ _ L12') as [EU EG].
  repeat split; try assumption.
  rewrite <- (nh_kept (BA := BS) gflagS rflagS fenvS solS HsolS dsn_wS).
  transitivity (Sel (BlockAlg := BS) (os (sol1 "U†" * sol1 "H" * sol1 "U") (sol2 "U†" * sol2 "H" * sol2 "U"))).
  - apply (am_P (AddMap := Sel_am (BlockAlg := BS))). rewrite !(osum_mul D1 D2 k).
    apply ring_mult_comp; [|exact EU]. apply ring_mult_comp; [exact EG|exact Hin].
  - rewrite <- oSel. apply (osum_P D1 D2 k).
    apply (nh_kept (BA := B1) gflag1 rflag1 fenv1 sol1 Hsol1 dsn_w1).
    apply (nh_kept (BA := B2) gflag2 rflag2 fenv2 sol2 Hsol2 dsn_w2).
Qed.
End SumNH.
