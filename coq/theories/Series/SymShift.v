(** C15, shift of H_0 by a multiple of the identity and scaling of the whole Hamiltonian.

    These two are NOT homomorphisms of the algebra; they are proved directly from the defining
    conditions of the least-action transformation (Alg/Unique.v):
    - if C is central, kept and of order zero, [least_action H U -> least_action (H + C) U]
      and Sel (U† (H + C) U) == Sel (U† H U) + C:  U, U† unchanged, H_tilde shifted by C;
    - if S is central and multiplication by S commutes with the selection,
      [least_action H U -> least_action (S * H) U] and Sel (U† (S H) U) == S * Sel (U† H U):
      U, U† unchanged, H_tilde scaled.
    By uniqueness the transformation computed for the shifted / scaled input is the same U.
    The concrete section instantiates C = c * 1, S = s * 1 in the algebra of series of
    matrices; the solver of the shifted problem is the same [inv] (only energy differences
    enter), the solver of the scaled problem is any [inv'] inverting the scaled differences. *)
Require Import Ncring Ncring_tac Setoid Morphisms List ZArith String.
From PV.Base Require Import Classes BigSum AlgLemmas.
From PV.Series Require Import MultiIndex Cauchy Lift Inst SylvInst Wiring SymBase.
From PV.Block Require Import Mat Masks CoefAlg BlockSel.
From PV.DSL Require Import Syntax Sem.
From PV.Gen Require Import Algorithms_gen.
From PV.Alg Require Import MainLift MainCorrect Unique Equivariance MainInst.
Open Scope string_scope.

Section Abstract.
Context {T : Type} `{Rg : Ring T} {BA : BlockAlg T}.

Lemma la_proper2 (H1 H2 U1 U2 : T) : H1 == H2 -> U1 == U2 -> least_action H1 U1 -> least_action H2 U2.
Proof.
  intros EH EU (a & b & c & d). unfold least_action. rewrite <- EH, <- EU. repeat split; assumption.
Qed.

Section Shift.
Variables H U C : T.
Hypothesis Ccomm : forall x, C * x == x * C.
Hypothesis CSel : Sel C == C.

Lemma conj_shift : adj U * U == 1 -> adj U * (H + C) * U == adj U * H * U + C.
Proof.
  intros b.
  assert (E : adj U * (H + C) * U == adj U * H * U + adj U * (C * U)) by non_commutative_ring.
  rewrite E, (Ccomm U).
  assert (E2 : adj U * (U * C) == (adj U * U) * C) by non_commutative_ring.
  rewrite E2, b. non_commutative_ring.
Qed.

Lemma la_shift : least_action H U -> least_action (H + C) U.
Proof.
  intros (a & b & c & d). unfold least_action. repeat split; try assumption.
  rewrite (conj_shift b), Rp_add, c. unfold Rp. rewrite CSel. non_commutative_ring.
Qed.

Lemma kept_shift : adj U * U == 1 -> Sel (adj U * (H + C) * U) == Sel (adj U * H * U) + C.
Proof. intros b. rewrite (conj_shift b), Sel_add, CSel. reflexivity. Qed.
End Shift.

Section Scale.
Variables H U S : T.
Hypothesis Scomm : forall x, S * x == x * S.
Hypothesis SSel : forall y, Sel (S * y) == S * Sel y.

Lemma conj_scale : adj U * (S * H) * U == S * (adj U * H * U).
Proof.
  assert (E : adj U * (S * H) * U == (adj U * S) * H * U) by non_commutative_ring.
  rewrite E, <- (Scomm (adj U)). non_commutative_ring.
Qed.

Lemma la_scale : least_action H U -> least_action (S * H) U.
Proof.
  intros (a & b & c & d). unfold least_action. repeat split; try assumption.
  rewrite conj_scale. unfold Rp. rewrite SSel.
  assert (E : S * (adj U * H * U) - S * Sel (adj U * H * U) == S * Rp (adj U * H * U)).
  { unfold Rp. non_commutative_ring. }
  rewrite E, c. non_commutative_ring.
Qed.

Lemma kept_scale : Sel (adj U * (S * H) * U) == S * Sel (adj U * H * U).
Proof. rewrite conj_scale. apply SSel. Qed.
End Scale.

(** the outputs of the generated program for the shifted / scaled input *)
Section Outputs.
Variable rflag rflag' : string -> T -> T.
Variable fenv fenv' : string -> list T -> T.
Variable sol sol' : string -> T.
Hypothesis Hsol : solution (gflag_of false) rflag fenv sol main_alg.
Hypothesis Hsol' : solution (gflag_of false) rflag' fenv' sol' main_alg.
Hypothesis Hw : wiring rflag fenv (sol "H").
Hypothesis Hw' : wiring rflag' fenv' (sol' "H").
Hypothesis sylv_left' : forall x, Rp (MainLift.sylv fenv' (comm (Zc (sol' "H")) (Rp x))) == Rp x.

Lemma same_U_of_la : least_action (sol' "H") (sol "U") -> sol' "U" == sol "U".
Proof.
  intros L1. pose proof (main_least_action rflag' fenv' sol' Hsol' Hw') as L2.
  destruct Hw' as [a b c d e f g h i j]. symmetry.
  exact (@least_action_unique T _ _ _ _ _ _ _ _ _ BA (sol' "H") i (MainLift.sylv fenv') f sylv_left' _ _ L1 L2).
Qed.

Lemma same_Ud : sol' "U" == sol "U" -> sol' "U†" == sol "U†".
Proof.
  intros EU. rewrite <- (adjoint_general rflag' fenv' sol' Hsol' Hw'), <- (adjoint_general rflag fenv sol Hsol Hw), EU.
  reflexivity.
Qed.

Theorem shift_outputs C :
  (forall x, C * x == x * C) -> Sel C == C -> sol' "H" == sol "H" + C ->
  sol' "U" == sol "U" /\ sol' "U†" == sol "U†" /\ sol' "H_tilde" == sol "H_tilde" + C.
Proof.
  intros Cc Cs Hin.
  pose proof (main_least_action rflag fenv sol Hsol Hw) as L.
  assert (EU : sol' "U" == sol "U").
  { apply same_U_of_la. apply (la_proper2 (sol "H" + C) (sol' "H") (sol "U") (sol "U")).
    symmetry; exact Hin. reflexivity. apply la_shift; assumption. }
  pose proof (same_Ud EU) as EUd.
  repeat split; try assumption.
  rewrite <- (kept_general rflag' fenv' sol' Hsol' Hw'), <- (kept_general rflag fenv sol Hsol Hw).
  rewrite EU, EUd, Hin, <- (adjoint_general rflag fenv sol Hsol Hw).
  apply kept_shift; try assumption.
  rewrite (adjoint_general rflag fenv sol Hsol Hw). apply (unitary_l_general rflag fenv sol Hsol Hw).
Qed.

Theorem scale_outputs S :
  (forall x, S * x == x * S) -> (forall y, Sel (S * y) == S * Sel y) -> sol' "H" == S * sol "H" ->
  sol' "U" == sol "U" /\ sol' "U†" == sol "U†" /\ sol' "H_tilde" == S * sol "H_tilde".
Proof.
  intros Sc Ss Hin.
  pose proof (main_least_action rflag fenv sol Hsol Hw) as L.
  assert (EU : sol' "U" == sol "U").
  { apply same_U_of_la. apply (la_proper2 (S * sol "H") (sol' "H") (sol "U") (sol "U")).
    symmetry; exact Hin. reflexivity. apply la_scale; assumption. }
  pose proof (same_Ud EU) as EUd.
  repeat split; try assumption.
  rewrite <- (kept_general rflag' fenv' sol' Hsol' Hw'), <- (kept_general rflag fenv sol Hsol Hw).
  rewrite EU, EUd, Hin, <- (adjoint_general rflag fenv sol Hsol Hw).
  apply kept_scale; assumption.
Qed.
End Outputs.
End Abstract.

(** * the concrete instance: C = c * 1, S = s * 1 *)
Section Concrete.
Variables D k : nat.
Context {R0 : Type} `{Rg : Ring R0} {CS : CStar R0}.
Variable blk : nat -> nat.
Variable keep : nat -> nat -> bool.
Variable cm : nat -> bool.
Hypothesis keep_sym : forall p q, keep p q = keep q p.
Hypothesis keep_refl : forall p, keep p p = true.
Hypothesis keep_blk : forall p q, keep p q = true -> blk p = blk q.
Hypothesis cm_blk : forall p q, blk p = blk q -> cm p = cm q.
Hypothesis keep_eucl : keep_eucl_on D keep cm.
Local Notation T := (T D k R0).
Local Notation BA := (series_BlockAlg D k blk keep cm keep_sym keep_blk cm_blk).
Local Hint Extern 0 (BlockAlg _) => exact BA : typeclass_instances.

(** the scalar c as an element of the algebra: c times the identity at order zero *)
Definition cst (c : R0) : T := SylvInst.H0 D k (fun _ => c).

Lemma cst_mul_l c (x : T) n p q : (p < D)%nat -> (q < D)%nat -> (cst c * x) n p q == c * x n p q.
Proof. intros Hp Hq. exact (H0_mul_l (k := k) (fun _ => c) x n Hp Hq). Qed.
Lemma cst_mul_r c (x : T) n p q : (p < D)%nat -> (q < D)%nat -> (x * cst c) n p q == x n p q * c.
Proof. intros Hp Hq. exact (H0_mul_r (k := k) (fun _ => c) x n Hp Hq). Qed.

Lemma cst_central c (x : T) : cst c * x == x * cst c.
Proof. intros n Hn p q Hp Hq. rewrite cst_mul_l, cst_mul_r by assumption. apply cs_comm. Qed.

Lemma cst_Sel c : Sel (cst c) == cst c.
Proof. exact (Sel_H0 (k := k) blk keep cm keep_sym keep_refl keep_blk cm_blk (fun _ => c)). Qed.

Lemma cst_Sel_mul c (y : T) : Sel (cst c * y) == cst c * Sel y.
Proof.
  intros n Hn p q Hp Hq. rewrite Sel_entry. rewrite (cst_mul_l c (Sel y) n p q Hp Hq), Sel_entry.
  destruct (keep p q). apply cst_mul_l; assumption. non_commutative_ring.
Qed.

Lemma cst_adj c : conj c == c -> adj (cst c) == cst c.
Proof. intros Hc. apply (adj_H0 (k := k) blk keep cm keep_sym keep_blk cm_blk). intros _. exact Hc. Qed.

Lemma H0_plus_cst E c : SylvInst.H0 D k E + cst c == SylvInst.H0 D k (fun p => E p + c).
Proof.
  intros n Hn p q Hp Hq. rewrite add_entry. unfold cst, SylvInst.H0. destruct (is_zero n).
  - unfold mdiag. destruct (Nat.eqb p q). reflexivity. non_commutative_ring.
  - change (mzero D p q) with (0 : R0). non_commutative_ring.
Qed.

Lemma cst_times_H0 E s : cst s * SylvInst.H0 D k E == SylvInst.H0 D k (fun p => s * E p).
Proof.
  intros n Hn p q Hp Hq. rewrite cst_mul_l by assumption. unfold SylvInst.H0. destruct (is_zero n).
  - unfold mdiag. destruct (Nat.eqb p q). reflexivity. non_commutative_ring.
  - change (mzero D p q) with (0 : R0). non_commutative_ring.
Qed.

Variable E : nat -> R0.
Hypothesis E_real : forall p, conj (E p) == E p.
Variable inv : R0 -> R0.
Hypothesis inv_spec : forall p q, (p < D)%nat -> (q < D)%nat -> keep p q = false ->
                                  (E p - E q) * inv (E p - E q) == 1.
Hypothesis inv_P : Proper (_==_ ==> _==_) inv.
Hypothesis inv_opp : forall x, inv (- x) == - inv x.
Hypothesis inv_conj : forall x, conj (inv x) == inv (conj x).

Variable rflag rflag' : string -> T -> T.
Variable fenv fenv' : string -> list T -> T.
Hypothesis rflag_spec : forall x, rflag "commuting_blocks" x == Rw x.
Hypothesis rflag_spec' : forall x, rflag' "commuting_blocks" x == Rw x.
Hypothesis fenv_spec : forall y, fenv "solve_sylvester" (cons y nil) == SylvInst.sylv E inv y.
Variable sol sol' : string -> T.
Hypothesis Hsol : solution (gflag_of false) rflag fenv sol main_alg.
Hypothesis Hsol' : solution (gflag_of false) rflag' fenv' sol' main_alg.
Hypothesis H_herm : adj (sol "H") == sol "H".
Hypothesis H_zero : Zc (sol "H") == SylvInst.H0 D k E.

Lemma cs_wiring : wiring rflag fenv (sol "H").
Proof.
  exact (inst_wiring D k blk keep cm keep_sym keep_refl keep_blk cm_blk keep_eucl
           E inv inv_spec E_real inv_P inv_opp inv_conj rflag fenv rflag_spec fenv_spec (sol "H")
           H_herm H_zero).
Qed.

(** ** shift: the energies become E + c, the same [inv] solves the Sylvester equation *)
Section ShiftC.
Variable c : R0.
Hypothesis c_real : conj c == c.
Hypothesis fenv_spec' : forall y, fenv' "solve_sylvester" (cons y nil) == SylvInst.sylv (fun p => E p + c) inv y.
Hypothesis Hin : sol' "H" == sol "H" + cst c.

Lemma shift_inv_spec p q : (p < D)%nat -> (q < D)%nat -> keep p q = false ->
  ((E p + c) - (E q + c)) * inv ((E p + c) - (E q + c)) == 1.
Proof.
  intros Hp Hq K. assert (X : (E p + c) - (E q + c) == E p - E q) by non_commutative_ring.
  rewrite X. now apply inv_spec.
Qed.

Lemma shift_herm' : adj (sol' "H") == sol' "H".
Proof. rewrite Hin, adj_add, H_herm, (cst_adj c c_real). reflexivity. Qed.

Lemma shift_zero' : Zc (sol' "H") == SylvInst.H0 D k (fun p => E p + c).
Proof.
  rewrite Hin, (am_add (f := Zc)), H_zero.
  rewrite (Zc_H0 (k := k) blk keep cm keep_sym keep_blk cm_blk (fun _ => c)). apply H0_plus_cst.
Qed.

Lemma shift_wiring' : wiring rflag' fenv' (sol' "H").
Proof.
  refine (inst_wiring D k blk keep cm keep_sym keep_refl keep_blk cm_blk keep_eucl
           (fun p => E p + c) inv shift_inv_spec _ inv_P inv_opp inv_conj rflag' fenv' rflag_spec' fenv_spec' (sol' "H")
           shift_herm' shift_zero').
  intros p. rewrite conj_add, E_real, c_real. reflexivity.
Qed.

Theorem shift_covariant :
  sol' "U" == sol "U" /\ sol' "U†" == sol "U†" /\ sol' "H_tilde" == sol "H_tilde" + cst c.
Proof.
  apply (shift_outputs rflag rflag' fenv fenv' sol sol' Hsol Hsol' cs_wiring shift_wiring').
  - exact (sylv_left_inst D k blk keep cm keep_sym keep_blk cm_blk (fun p => E p + c) inv shift_inv_spec
             fenv' (sol' "H") fenv_spec' shift_zero').
  - apply cst_central.
  - apply cst_Sel.
  - exact Hin.
Qed.
End ShiftC.

(** ** scale: the energies become s * E; [inv'] is any inverse of the scaled differences *)
Section ScaleS.
Variable s : R0.
Hypothesis s_real : conj s == s.
Variable inv' : R0 -> R0.
Hypothesis inv_spec' : forall p q, (p < D)%nat -> (q < D)%nat -> keep p q = false ->
                                   (s * E p - s * E q) * inv' (s * E p - s * E q) == 1.
Hypothesis inv_P' : Proper (_==_ ==> _==_) inv'.
Hypothesis inv_opp' : forall x, inv' (- x) == - inv' x.
Hypothesis inv_conj' : forall x, conj (inv' x) == inv' (conj x).
Hypothesis fenv_spec' : forall y, fenv' "solve_sylvester" (cons y nil) == SylvInst.sylv (fun p => s * E p) inv' y.
Hypothesis Hin : sol' "H" == cst s * sol "H".

Lemma scale_herm' : adj (sol' "H") == sol' "H".
Proof. rewrite Hin, adj_mul, H_herm, (cst_adj s s_real). symmetry. apply cst_central. Qed.

Lemma scale_zero' : Zc (sol' "H") == SylvInst.H0 D k (fun p => s * E p).
Proof.
  rewrite Hin, Zc_mul, H_zero.
  rewrite (Zc_H0 (k := k) blk keep cm keep_sym keep_blk cm_blk (fun _ => s)). apply cst_times_H0.
Qed.

Lemma scale_wiring' : wiring rflag' fenv' (sol' "H").
Proof.
  refine (inst_wiring D k blk keep cm keep_sym keep_refl keep_blk cm_blk keep_eucl
           (fun p => s * E p) inv' inv_spec' _ inv_P' inv_opp' inv_conj' rflag' fenv' rflag_spec' fenv_spec' (sol' "H")
           scale_herm' scale_zero').
  intros p. rewrite conj_mul, E_real, s_real. reflexivity.
Qed.

Theorem hscale_covariant :
  sol' "U" == sol "U" /\ sol' "U†" == sol "U†" /\ sol' "H_tilde" == cst s * sol "H_tilde".
Proof.
  apply (scale_outputs rflag rflag' fenv fenv' sol sol' Hsol Hsol' cs_wiring scale_wiring').
  - exact (sylv_left_inst D k blk keep cm keep_sym keep_blk cm_blk (fun p => s * E p) inv' inv_spec'
             fenv' (sol' "H") fenv_spec' scale_zero').
  - apply cst_central.
  - apply cst_Sel_mul.
  - exact Hin.
Qed.
End ScaleS.
End Concrete.
