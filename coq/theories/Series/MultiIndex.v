(** Multi-indices (orders in the k perturbation parameters) and their splittings.

    [mi := list nat]; a multi-index of a series in k parameters is a list of length k
    (well-formedness is carried as the side condition [length n = k]).
    [splits n] enumerates all (a, b) with a + b = n pointwise, in the order of
    Python itertools.product over the ranges range(d + 1), d in n (lexicographic, first
    component outermost), as in pymablock.series.product_by_order.

    This file does NOT import Ncring: all index arithmetic lives here. *)
Require Import List Arith Lia Permutation Bool.
Import ListNotations.
Set Implicit Arguments.

Definition mi := list nat.

Fixpoint deg (n : mi) : nat :=
  match n with [] => 0 | d :: r => d + deg r end.

(** pointwise sum (truncating at the shorter list; only used on equal lengths) *)
Fixpoint padd (a b : mi) : mi :=
  match a, b with
  | x :: a', y :: b' => (x + y) :: padd a' b'
  | _, _ => []
  end.

Fixpoint splits (n : mi) : list (mi * mi) :=
  match n with
  | [] => [([], [])]
  | d :: r =>
      flat_map (fun i => map (fun p => (i :: fst p, (d - i) :: snd p)) (splits r))
               (seq 0 (S d))
  end.

Definition mzero (k : nat) : mi := repeat 0 k.
Definition is_zero (n : mi) : bool := forallb (Nat.eqb 0) n.

Definition swap {A B} (p : A * B) : B * A := (snd p, fst p).

(** * generic list lemmas *)

Lemma NoDup_app' {A} (l1 l2 : list A) :
  NoDup l1 -> NoDup l2 -> (forall a, In a l1 -> ~ In a l2) -> NoDup (l1 ++ l2).
Proof.
  induction l1 as [|a l IH]; cbn; intros H1 H2 H; auto.
  inversion H1; subst. constructor.
  - rewrite in_app_iff. intros [?|?]; auto. eapply H; eauto.
  - apply IH; auto.
Qed.

Lemma nodup_flat_map {A B} (g : A -> list B) l :
  NoDup l -> (forall a, In a l -> NoDup (g a)) ->
  (forall a a' b, In a l -> In a' l -> In b (g a) -> In b (g a') -> a = a') ->
  NoDup (flat_map g l).
Proof.
  induction 1 as [|a l Hn Hl IH]; cbn; intros Hg Hd. constructor.
  apply NoDup_app'. apply Hg; now left. apply IH; auto. intros; eapply Hd; eauto.
  intros b Hb Hb'. apply in_flat_map in Hb'. destruct Hb' as (a' & Ia' & Ib').
  assert (a = a') by (eapply Hd; eauto). subst. contradiction.
Qed.

Lemma nodup_map_inj {A B} (g : A -> B) l :
  (forall x y, In x l -> In y l -> g x = g y -> x = y) -> NoDup l -> NoDup (map g l).
Proof.
  intros Hinj. induction 1 as [|a l Hn Hl IH]; cbn. constructor.
  constructor.
  - rewrite in_map_iff. intros (x & E & I). apply Hinj in E; cbn; auto. subst. contradiction.
  - apply IH. intros; apply Hinj; cbn; auto.
Qed.

Lemma nodup_filter {A} (P : A -> bool) l : NoDup l -> NoDup (filter P l).
Proof. apply NoDup_filter. Qed.

(** * degree, pointwise sum, zero *)

Lemma padd_length a b : length a = length b -> length (padd a b) = length a.
Proof.
  revert b. induction a as [|x a IH]; intros [|y b]; cbn; intros H; try discriminate; auto.
Qed.

Lemma padd_comm a b : padd a b = padd b a.
Proof.
  revert b. induction a as [|x a IH]; intros [|y b]; cbn; auto.
  rewrite IH. f_equal. lia.
Qed.

Lemma padd_assoc a b c : padd a (padd b c) = padd (padd a b) c.
Proof.
  revert b c. induction a as [|x a IH]; intros [|y b] [|z c]; cbn; auto.
  rewrite IH. f_equal. lia.
Qed.

Lemma deg_padd a b : length a = length b -> deg (padd a b) = deg a + deg b.
Proof.
  revert b. induction a as [|x a IH]; intros [|y b]; cbn; intros H; try discriminate; auto.
  rewrite IH by lia. lia.
Qed.

Lemma mzero_length k : length (mzero k) = k.
Proof. apply repeat_length. Qed.

Lemma deg_mzero k : deg (mzero k) = 0.
Proof. induction k; cbn; auto. Qed.

Lemma is_zero_cons d n : is_zero (d :: n) = (Nat.eqb 0 d && is_zero n).
Proof. reflexivity. Qed.

Lemma is_zero_deg n : is_zero n = true <-> deg n = 0.
Proof.
  induction n as [|d n IH]. cbn; tauto.
  rewrite is_zero_cons, andb_true_iff, IH, Nat.eqb_eq. cbn [deg]. lia.
Qed.

Lemma is_zero_mzero n : is_zero n = true <-> n = mzero (length n).
Proof.
  induction n as [|d n IH]. cbn; tauto.
  rewrite is_zero_cons, andb_true_iff, IH, Nat.eqb_eq. cbn [length mzero repeat]. split.
  - intros [<- E]. unfold mzero in E. now rewrite <- E.
  - intros E. inversion E. unfold mzero. rewrite <- H1. auto.
Qed.

Lemma is_zero_mzero_k k : is_zero (mzero k) = true.
Proof. apply is_zero_deg, deg_mzero. Qed.

Lemma deg0_mzero k n : length n = k -> deg n = 0 -> n = mzero k.
Proof. intros <- H. apply is_zero_mzero, is_zero_deg, H. Qed.

Lemma is_zero_padd a b :
  length a = length b -> is_zero (padd a b) = is_zero a && is_zero b.
Proof.
  intros L. apply eq_true_iff_eq. rewrite andb_true_iff, !is_zero_deg, deg_padd by auto. lia.
Qed.

(** * splittings *)

Definition issplit (a b n : mi) : Prop :=
  length a = length n /\ length b = length n /\ padd a b = n.

Lemma in_splits n a b : In (a, b) (splits n) <-> issplit a b n.
Proof.
  unfold issplit. revert a b. induction n as [|d r IH]; intros a b; cbn [splits].
  - cbn. split.
    + intros [E|[]]. inversion E; subst. auto.
    + intros (La & Lb & _). destruct a, b; try discriminate. auto.
  - rewrite in_flat_map. split.
    + intros (i & Ii & Ip). apply in_seq in Ii. apply in_map_iff in Ip.
      destruct Ip as ((u, v) & E & Ip). cbn [fst snd] in E. inversion E; subst.
      apply IH in Ip. destruct Ip as (Lu & Lv & P). cbn. rewrite Lu, Lv, P.
      repeat split; auto. f_equal. lia.
    + intros (La & Lb & P). destruct a as [|x a], b as [|y b]; try discriminate.
      cbn in La, Lb, P. inversion P; subst. exists x. split. apply in_seq; lia.
      apply in_map_iff. exists (a, b). cbn [fst snd]. split.
      * do 2 f_equal. lia.
      * apply IH. repeat split; lia.
Qed.

Lemma splits_length n a b :
  In (a, b) (splits n) -> length a = length n /\ length b = length n.
Proof. rewrite in_splits. unfold issplit. tauto. Qed.

Lemma splits_deg n a b : In (a, b) (splits n) -> deg a + deg b = deg n.
Proof.
  rewrite in_splits. intros (La & Lb & <-). rewrite deg_padd; lia.
Qed.

Lemma nodup_splits n : NoDup (splits n).
Proof.
  induction n as [|d r IH]; cbn [splits].
  - constructor. intros []. constructor.
  - apply nodup_flat_map. apply seq_NoDup.
    + intros i _. apply nodup_map_inj; auto.
      intros (u, v) (u', v') _ _ E. cbn [fst snd] in E. now inversion E.
    + intros i i' (a, b) _ _ I I'. apply in_map_iff in I, I'.
      destruct I as (p & E & _), I' as (p' & E' & _). inversion E; inversion E'; subst.
      congruence.
Qed.

Lemma splits_mzero k : splits (mzero k) = [(mzero k, mzero k)].
Proof.
  induction k as [|k IH]. reflexivity.
  change (mzero (S k)) with (0 :: mzero k). cbn [splits seq flat_map].
  rewrite IH. reflexivity.
Qed.

Lemma splits_zero_l n : In (mzero (length n), n) (splits n).
Proof.
  apply in_splits. unfold issplit. rewrite mzero_length. repeat split; auto.
  induction n as [|d n IH]; cbn; auto. unfold mzero in IH. now rewrite IH.
Qed.

Lemma splits_zero_r n : In (n, mzero (length n)) (splits n).
Proof.
  apply in_splits. unfold issplit. rewrite mzero_length. repeat split; auto.
  rewrite padd_comm.
  induction n as [|d n IH]; cbn; auto. unfold mzero in IH. now rewrite IH.
Qed.

(** swapping the two halves *)
Lemma splits_swap n : Permutation (map (@swap mi mi) (splits n)) (splits n).
Proof.
  apply NoDup_Permutation.
  - apply nodup_map_inj. 2: apply nodup_splits.
    intros (a, b) (a', b') _ _ E. unfold swap in E. cbn in E. now inversion E.
  - apply nodup_splits.
  - intros (a, b). rewrite in_map_iff. split.
    + intros ((u, v) & E & I). unfold swap in E. cbn in E. inversion E; subst.
      apply in_splits in I. apply in_splits. unfold issplit in *.
      rewrite padd_comm. tauto.
    + intros I. exists (b, a). split. reflexivity.
      apply in_splits in I. apply in_splits. unfold issplit in *.
      rewrite padd_comm. tauto.
Qed.

(** * triple splittings *)

Definition trip1 (n : mi) : list (mi * mi * mi) :=
  flat_map (fun p => map (fun q => (fst p, fst q, snd q)) (splits (snd p))) (splits n).
Definition trip2 (n : mi) : list (mi * mi * mi) :=
  flat_map (fun p => map (fun q => (fst q, snd q, snd p)) (splits (fst p))) (splits n).

Definition istrip (a b c n : mi) : Prop :=
  length a = length n /\ length b = length n /\ length c = length n /\
  padd (padd a b) c = n.

Lemma in_trip1 n a b c : In (a, b, c) (trip1 n) <-> istrip a b c n.
Proof.
  unfold trip1, istrip. rewrite in_flat_map. split.
  - intros ((x, y) & I & J). apply in_splits in I. cbn [fst snd] in J.
    apply in_map_iff in J. destruct J as ((u, v) & E & J). apply in_splits in J.
    cbn [fst snd] in E. inversion E; subst. unfold issplit in *.
    destruct I as (I1 & I2 & I3), J as (J1 & J2 & J3).
    rewrite <- padd_assoc, J3. repeat split; congruence.
  - intros (La & Lb & Lc & P). exists (a, padd b c). split.
    + apply in_splits. unfold issplit. rewrite padd_assoc, padd_length by congruence. tauto.
    + cbn [fst snd]. apply in_map_iff. exists (b, c). split; auto.
      apply in_splits. unfold issplit. rewrite padd_length by congruence.
      repeat split; congruence.
Qed.

Lemma in_trip2 n a b c : In (a, b, c) (trip2 n) <-> istrip a b c n.
Proof.
  unfold trip2, istrip. rewrite in_flat_map. split.
  - intros ((x, y) & I & J). apply in_splits in I. cbn [fst snd] in J.
    apply in_map_iff in J. destruct J as ((u, v) & E & J). apply in_splits in J.
    cbn [fst snd] in E. inversion E; subst. unfold issplit in *.
    destruct I as (I1 & I2 & I3), J as (J1 & J2 & J3).
    rewrite J3. repeat split; congruence.
  - intros (La & Lb & Lc & P). exists (padd a b, c). split.
    + apply in_splits. unfold issplit. rewrite padd_length by congruence. tauto.
    + cbn [fst snd]. apply in_map_iff. exists (a, b). split; auto.
      apply in_splits. unfold issplit. rewrite padd_length by congruence.
      repeat split; congruence.
Qed.

Lemma nodup_trip1 n : NoDup (trip1 n).
Proof.
  apply nodup_flat_map. apply nodup_splits.
  - intros (x, y) _. apply nodup_map_inj. 2: apply nodup_splits.
    intros (u, v) (u', v') _ _ E. cbn [fst snd] in E. now inversion E.
  - intros (x, y) (x', y') ((a, b), c) I I' J J'. cbn [fst snd] in *.
    apply in_map_iff in J, J'.
    destruct J as ((u, v) & E & J), J' as ((u', v') & E' & J'). cbn [fst snd] in *.
    inversion E; inversion E'; subst.
    apply in_splits in J, J'. unfold issplit in *. f_equal.
    destruct J as (_ & _ & <-), J' as (_ & _ & <-). reflexivity.
Qed.

Lemma nodup_trip2 n : NoDup (trip2 n).
Proof.
  apply nodup_flat_map. apply nodup_splits.
  - intros (x, y) _. apply nodup_map_inj. 2: apply nodup_splits.
    intros (u, v) (u', v') _ _ E. cbn [fst snd] in E. now inversion E.
  - intros (x, y) (x', y') ((a, b), c) I I' J J'. cbn [fst snd] in *.
    apply in_map_iff in J, J'.
    destruct J as ((u, v) & E & J), J' as ((u', v') & E' & J'). cbn [fst snd] in *.
    inversion E; inversion E'; subst.
    apply in_splits in J, J'. unfold issplit in *. f_equal.
    destruct J as (_ & _ & <-), J' as (_ & _ & <-). reflexivity.
Qed.

Lemma trip_perm n : Permutation (trip1 n) (trip2 n).
Proof.
  apply NoDup_Permutation. apply nodup_trip1. apply nodup_trip2.
  intros ((a, b), c). rewrite in_trip1, in_trip2. tauto.
Qed.

(** * lexicographic comparison (Python tuple comparison) *)

Fixpoint lexc (a b : mi) : comparison :=
  match a, b with
  | [], [] => Eq
  | [], _ :: _ => Lt
  | _ :: _, [] => Gt
  | x :: a', y :: b' =>
      match Nat.compare x y with Eq => lexc a' b' | c => c end
  end.

Definition lex_ltb (a b : mi) : bool := match lexc a b with Lt => true | _ => false end.
Definition lex_leb (a b : mi) : bool := match lexc a b with Gt => false | _ => true end.
Definition mi_eqb (a b : mi) : bool := match lexc a b with Eq => true | _ => false end.

Lemma lexc_eq a b : lexc a b = Eq <-> a = b.
Proof.
  revert b. induction a as [|x a IH]; intros [|y b]; cbn; try (split; congruence).
  destruct (Nat.compare_spec x y); subst.
  - rewrite IH. split; congruence.
  - split. discriminate. intros E. inversion E. lia.
  - split. discriminate. intros E. inversion E. lia.
Qed.

Lemma lexc_refl a : lexc a a = Eq.
Proof. now apply lexc_eq. Qed.

Lemma lexc_antisym a b : lexc b a = CompOpp (lexc a b).
Proof.
  revert b. induction a as [|x a IH]; intros [|y b]; cbn; auto.
  rewrite (Nat.compare_antisym x y). destruct (Nat.compare x y); cbn; auto.
Qed.

Lemma mi_eqb_eq a b : mi_eqb a b = true <-> a = b.
Proof. unfold mi_eqb. rewrite <- lexc_eq. destruct (lexc a b); split; congruence. Qed.

Lemma lex_ltb_swap a b : lex_ltb b a = match lexc a b with Gt => true | _ => false end.
Proof. unfold lex_ltb. rewrite lexc_antisym. destruct (lexc a b); reflexivity. Qed.

(** * ranges of basis-state indices (kept here: no Ncring notations) *)
Definition range (D : nat) : list nat := seq 0 D.

Lemma in_range D i : In i (range D) <-> i < D.
Proof. unfold range. rewrite in_seq. lia. Qed.

Lemma nodup_range D : NoDup (range D).
Proof. apply seq_NoDup. Qed.

Lemma range_S D : range (S D) = range D ++ [D].
Proof. unfold range. rewrite seq_S. reflexivity. Qed.

(** * the splittings with a zero half *)
Lemma padd_mzero_l n : padd (mzero (length n)) n = n.
Proof. induction n as [|d n IH]; cbn; auto. unfold mzero in IH. now rewrite IH. Qed.

Lemma splits_zero_l_inv n a b :
  In (a, b) (splits n) -> is_zero a = true -> a = mzero (length n) /\ b = n.
Proof.
  rewrite in_splits. intros (La & Lb & P) Z. apply is_zero_mzero in Z.
  rewrite La in Z. split; auto. subst a. rewrite <- Lb in P.
  now rewrite padd_mzero_l in P.
Qed.

Lemma splits_zero_r_inv n a b :
  In (a, b) (splits n) -> is_zero b = true -> a = n /\ b = mzero (length n).
Proof.
  rewrite in_splits. intros (La & Lb & P) Z. apply is_zero_mzero in Z.
  rewrite Lb in Z. split; auto. subst b. rewrite <- La, padd_comm in P.
  now rewrite padd_mzero_l in P.
Qed.

Lemma splits_is_zero n a b :
  In (a, b) (splits n) -> is_zero n = is_zero a && is_zero b.
Proof.
  rewrite in_splits. intros (La & Lb & <-). apply is_zero_padd. congruence.
Qed.

(** arithmetic used by the half-sum lemma (kept here so that [lia] sees plain nat) *)
Lemma deg_split_cases m dx dy dn :
  dx + dy = dn -> dn < S m -> dx = 0 \/ dy = 0 \/ (dx < m /\ dy < m).
Proof. lia. Qed.

Lemma deg_lt1 d : d < 1 <-> d = 0.
Proof. lia. Qed.

Lemma splits_deg_le N n a b :
  In (a, b) (splits n) -> deg n <= N -> deg a <= N /\ deg b <= N.
Proof. intros I H. apply splits_deg in I. lia. Qed.

Lemma lt_S_le a b : a < S b <-> a <= b.
Proof. lia. Qed.

(** the enumeration order is that of itertools.product(range(2), range(3)) *)
Example splits_order :
  map fst (splits [1; 2]) = [[0; 0]; [0; 1]; [0; 2]; [1; 0]; [1; 1]; [1; 2]]
  /\ map snd (splits [1; 2]) = [[1; 2]; [1; 1]; [1; 0]; [0; 2]; [0; 1]; [0; 0]].
Proof. split; reflexivity. Qed.
