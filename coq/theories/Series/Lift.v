(** Series over a coefficient ring with a [CoefAlg] structure form a [BlockAlg]:
    all structure maps act coefficient-wise, the product is the Cauchy product,
    [ord]/[Zc] are the filtration by total degree and the order-zero coefficient,
    [hsum] is the half-sum of pymablock.series.product_by_order (hermitian, diagonal block). *)
Require Import Ncring Ncring_tac Setoid Morphisms List ZArith Permutation.
From PV.Base Require Import Classes BigSum.
From PV.Series Require Import MultiIndex Cauchy.
From PV.Block Require Import CoefAlg.
Set Implicit Arguments.

Section Lift.
Variable k : nat.
Context {R : Type} `{Rg : Ring R} {CA : CoefAlg R}.
Notation Ser := (series k R).
Notation "f =s g" := (seq_eq (k := k) f g) (at level 70).

Definition s_adj : Ser -> Ser := lift cadj.
Definition s_divz (f : Ser) (z : Z) : Ser := fun n => cdivz (f n) z.
Definition s_Dg : Ser -> Ser := lift cDg.
Definition s_Up : Ser -> Ser := lift cUp.
Definition s_Lo : Ser -> Ser := lift cLo.
Definition s_Sel : Ser -> Ser := lift cSel.
Definition s_Rw : Ser -> Ser := lift cRw.

(** one term of the half-sum: the pair (a1, a2) of orders with a1 + a2 = n contributes
    nothing if a1 > a2 (tuple comparison), the plain product if a1 = a2, and the product
    plus its adjoint if a1 < a2 *)
Definition hterm (a b : Ser) (p : mi * mi) : R :=
  match lexc (fst p) (snd p) with
  | Lt => a (fst p) * b (snd p) + cadj (a (fst p) * b (snd p))
  | Eq => a (fst p) * b (snd p)
  | Gt => 0
  end.
Definition s_half (a b : Ser) : Ser := fun n => bigsum (hterm a b) (splits n).
Definition s_hsum (a b : Ser) : Ser := lift cDg (s_half a b).

(** ** involution *)
Lemma s_adj_mul f g : s_adj (conv f g) =s conv (s_adj g) (s_adj f).
Proof.
  intros n _. unfold s_adj. rewrite (lift_conv (k := k) cadj), (conv_swap (Rg := Rg)).
  apply bigsum_ext. intros (a, b) _. cbn [fst snd]. apply cadj_mul.
Qed.

Lemma s_adj_inv f : s_adj (s_adj f) =s f.
Proof. intros n _. apply cadj_inv. Qed.

Lemma s_adj_one : s_adj (sone k) =s sone k.
Proof. exact (lift_one (k := k) cadj cadj_one). Qed.

(** ** division by integer literals *)
Lemma s_divz_P z : Proper (seq_eq (k := k) ==> seq_eq (k := k)) (fun f => s_divz f z).
Proof. intros f g H n Hn. unfold s_divz. apply cdivz_P. auto. Qed.

Lemma s_divz_add z f g : s_divz (sadd f g) z =s sadd (s_divz f z) (s_divz g z).
Proof. intros n _. apply cdivz_add. Qed.

Lemma s_divz_opp z f : s_divz (sopp f) z =s sopp (s_divz f z).
Proof. intros n _. apply cdivz_opp. Qed.

Lemma s_divz_spec z (f : Ser) : z <> 0%Z -> zmul z (s_divz f z) =s f.
Proof. intros Hz n _. rewrite (zmul_coeff (Rg := Rg)). now apply cdivz_spec. Qed.

(** ** block projections *)
Lemma s_blk_split f : f =s sadd (sadd (s_Dg f) (s_Up f)) (s_Lo f).
Proof. intros n _. apply cblk_split. Qed.

Lemma s_Dg_mul_l f g : s_Dg (conv (s_Dg f) g) =s conv (s_Dg f) (s_Dg g).
Proof.
  intros n _. unfold s_Dg. rewrite (lift_conv (k := k) cDg). apply bigsum_ext.
  intros (a, b) _. apply cDg_mul_l.
Qed.

Lemma s_Dg_mul_r f g : s_Dg (conv f (s_Dg g)) =s conv (s_Dg f) (s_Dg g).
Proof.
  intros n _. unfold s_Dg. rewrite (lift_conv (k := k) cDg). apply bigsum_ext.
  intros (a, b) _. apply cDg_mul_r.
Qed.

Lemma s_Dg_one : s_Dg (sone k) =s sone k.
Proof. exact (lift_one (k := k) cDg cDg_one). Qed.

(** ** filtration *)
Lemma s_ord_divz m f z : sord (k := k) m f -> sord (k := k) m (s_divz f z).
Proof.
  intros H n Hn Hd. unfold s_divz. transitivity (cdivz 0 z).
  apply cdivz_P. exact (H n Hn Hd).
  apply (additive_zero (phi := fun x => cdivz x z)). apply cdivz_add. apply cdivz_P.
Qed.

(** ** half-sum *)
Lemma hterm_P : Proper (seq_eq (k := k) ==> seq_eq (k := k) ==> seq_eq (k := k)) s_half.
Proof.
  intros a a' Ha b b' Hb n Hn. unfold s_half. apply bigsum_ext.
  intros (x, y) I. apply splits_length in I. destruct I as [Lx Ly].
  unfold hterm. cbn [fst snd].
  assert (E1 : a x == a' x) by (apply Ha; congruence).
  assert (E2 : b y == b' y) by (apply Hb; congruence).
  destruct (lexc x y); rewrite ?E1, ?E2; reflexivity.
Qed.

Lemma s_hsum_P : Proper (seq_eq (k := k) ==> seq_eq (k := k) ==> seq_eq (k := k)) s_hsum.
Proof.
  intros a a' Ha b b' Hb. unfold s_hsum. apply lift_P. apply am_P.
  now apply hterm_P.
Qed.

Lemma s_hsum_Dg a b : s_Dg (s_hsum a b) =s s_hsum a b.
Proof. intros n _. apply cDg_Dg. Qed.

(** The half-sum equals the full Cauchy sum at every order at which the second factor
    is the adjoint of the first on all the proper sub-orders. *)
Lemma half_full m a b :
  sord (k := k) 1 a -> sord (k := k) 1 b -> sord (k := k) m (ssub b (s_adj a)) ->
  forall n, length n = k -> (deg n < S m)%nat -> s_half a b n == conv a b n.
Proof.
  intros Ha Hb Hd n Hn Hdeg. unfold s_half, conv.
  pose (F := fun p : mi * mi => a (fst p) * b (snd p)).
  pose (lo := fun p : mi * mi =>
                match lexc (fst p) (snd p) with Gt => 0 | _ => F p end).
  transitivity (bigsum lo (splits n) +
                bigsum (fun p => match lexc (fst p) (snd p) with
                                 | Lt => cadj (F p) | _ => 0 end) (splits n)).
  { rewrite <- bigsum_add. apply bigsum_ext. intros p _. unfold hterm, lo, F.
    destruct (lexc (fst p) (snd p)); non_commutative_ring. }
  transitivity (bigsum lo (splits n) +
                bigsum (fun p => match lexc (fst p) (snd p) with
                                 | Gt => F p | _ => 0 end) (splits n)).
  2:{ rewrite <- bigsum_add. apply bigsum_ext. intros p _. unfold lo, F.
      destruct (lexc (fst p) (snd p)); non_commutative_ring. }
  apply ring_plus_comp. reflexivity.
  rewrite <- (bigsum_perm
                (fun p => match lexc (fst p) (snd p) with Gt => F p | _ => 0 end)
                (splits_swap n)), bigsum_map.
  apply bigsum_ext. intros (x, y) I. unfold swap. cbn [fst snd].
  rewrite (lexc_antisym x y). destruct (lexc x y) eqn:C; cbn [CompOpp]; try reflexivity.
  unfold F. cbn [fst snd].
  (* the term  adj (a x * b y) == a y * b x  for deg x + deg y <= m *)
  pose proof (splits_deg _ _ _ I) as E. apply splits_length in I. destruct I as [Lx Ly].
  assert (Lx' : length x = k) by congruence. assert (Ly' : length y = k) by congruence.
  destruct (@deg_split_cases m _ _ _ E Hdeg) as [Zx|[Zy|[Dx Dy]]].
  { rewrite (Ha x), (Hb x); auto; try (rewrite Zx; constructor).
    transitivity (cadj 0). apply am_P. non_commutative_ring.
    rewrite (am_zero cadj). non_commutative_ring. }
  { rewrite (Ha y), (Hb y); auto; try (rewrite Zy; constructor).
    transitivity (cadj 0). apply am_P. non_commutative_ring.
    rewrite (am_zero cadj). non_commutative_ring. }
  assert (Bx : b x == cadj (a x)).
  { pose proof (Hd x Lx' Dx) as H. unfold ssub, s_adj, lift in H.
    transitivity ((b x - cadj (a x)) + cadj (a x)). non_commutative_ring.
    rewrite H. non_commutative_ring. }
  assert (By : b y == cadj (a y)).
  { pose proof (Hd y Ly' Dy) as H. unfold ssub, s_adj, lift in H.
    transitivity ((b y - cadj (a y)) + cadj (a y)). non_commutative_ring.
    rewrite H. non_commutative_ring. }
  rewrite cadj_mul, By, cadj_inv, Bx. reflexivity.
Qed.

Lemma s_hsum_spec m a b :
  sord (k := k) 1 a -> sord (k := k) 1 b -> sord (k := k) m (ssub b (s_adj a)) ->
  sord (k := k) (S m) (ssub (s_hsum a b) (s_Dg (conv a b))).
Proof.
  intros Ha Hb Hd n Hn Hdeg. unfold ssub, s_hsum, s_Dg, lift.
  rewrite (half_full Ha Hb Hd n Hn Hdeg). non_commutative_ring.
Qed.

(** * the instance *)
Local Notation "'pw' t" := (fun f n _ => t (f n)) (at level 10, only parsing).

Global Instance series_BlockAlg_gen : BlockAlg Ser := {|
  (* involution *)
  adj := s_adj;
  adj_am := lift_am k (phi := cadj);
  adj_mul := s_adj_mul;
  adj_inv := s_adj_inv;
  adj_one := s_adj_one;
  (* division by integer literals *)
  divz := s_divz;
  divz_P := s_divz_P;
  divz_add := s_divz_add;
  divz_opp := s_divz_opp;
  divz_spec := s_divz_spec;
  (* block projections *)
  Dg := s_Dg; Up := s_Up; Lo := s_Lo;
  Dg_am := lift_am k (phi := cDg);
  Up_am := lift_am k (phi := cUp);
  Lo_am := lift_am k (phi := cLo);
  blk_split := s_blk_split;
  Dg_Dg := pw cDg_Dg; Up_Up := pw cUp_Up; Lo_Lo := pw cLo_Lo;
  Dg_Up := pw cDg_Up; Dg_Lo := pw cDg_Lo;
  Up_Dg := pw cUp_Dg; Up_Lo := pw cUp_Lo;
  Lo_Dg := pw cLo_Dg; Lo_Up := pw cLo_Up;
  Dg_adj := pw cDg_adj; Up_adj := pw cUp_adj; Lo_adj := pw cLo_adj;
  Dg_mul_l := s_Dg_mul_l;
  Dg_mul_r := s_Dg_mul_r;
  Dg_one := s_Dg_one;
  (* selection *)
  Sel := s_Sel;
  Sel_am := lift_am k (phi := cSel);
  Sel_idem := pw cSel_idem;
  Sel_adj := pw cSel_adj;
  Sel_Dg := pw cSel_Dg;
  Dg_Sel := pw cDg_Sel;
  (* rows *)
  Rw := s_Rw;
  Rw_am := lift_am k (phi := cRw);
  Rw_idem := pw cRw_idem;
  Rw_Dg := pw cRw_Dg;
  Rw_Sel := pw cRw_Sel;
  Rw_adj_Dg := pw cRw_adj_Dg;
  (* filtration *)
  ord := sord (k := k);
  ord_P := sord_P (k := k);
  ord_O := sord_O (k := k);
  ord_S := sord_S (k := k);
  ord_zero := sord_zero (k := k);
  ord_add := sord_add (k := k);
  ord_opp := sord_opp (k := k);
  ord_mul := sord_mul (k := k);
  ord_sep := sord_sep (k := k);
  ord_adj := fun m f => sord_lift (k := k) cadj (m := m) (f := f);
  ord_divz := s_ord_divz;
  ord_Dg := fun m f => sord_lift (k := k) cDg (m := m) (f := f);
  ord_Up := fun m f => sord_lift (k := k) cUp (m := m) (f := f);
  ord_Lo := fun m f => sord_lift (k := k) cLo (m := m) (f := f);
  ord_Sel := fun m f => sord_lift (k := k) cSel (m := m) (f := f);
  ord_Rw := fun m f => sord_lift (k := k) cRw (m := m) (f := f);
  (* order-zero coefficient *)
  Zc := sZc (k := k);
  Zc_am := sZc_am k;
  Zc_mul := sZc_mul (k := k);
  Zc_one := sZc_one (k := k);
  Zc_idem := sZc_idem (k := k);
  Zc_ord := sZc_ord (k := k);
  Zc_adj := sZc_lift (k := k) cadj;
  Zc_Dg := sZc_lift (k := k) cDg;
  Zc_Up := sZc_lift (k := k) cUp;
  Zc_Lo := sZc_lift (k := k) cLo;
  Zc_Sel := sZc_lift (k := k) cSel;
  (* half-sum *)
  hsum := s_hsum;
  hsum_P := s_hsum_P;
  hsum_Dg := s_hsum_Dg;
  hsum_spec := s_hsum_spec
|}.

End Lift.
