(** C15, rotation of the basis inside degenerate levels of H_0 (also the "eigenbasis change"
    clause of C14): for a fixed unitary matrix R (R† R = R R† = 1) the map
    (rot x) n := R† * x n * R is an [LAHom] of the concrete algebra to itself provided R
    commutes with the kept mask:  mask (R† y R) = R† (mask y) R  for every matrix y
    ([mask_compatible] gives a sufficient condition on the support of R).  It fixes H_0 when
    R† diag(E) R = diag(E), i.e. when R only mixes states of equal unperturbed energy. *)
Require Import Ncring Ncring_tac Setoid Morphisms List ZArith String.
From PV.Base Require Import Classes BigSum AlgLemmas.
From PV.Series Require Import MultiIndex Cauchy Lift Inst SylvInst Wiring SymBase.
From PV.Block Require Import Mat Masks CoefAlg BlockSel.
From PV.DSL Require Import Syntax Sem.
From PV.Gen Require Import Algorithms_gen.
From PV.Alg Require Import MainLift MainCorrect Unique Equivariance MainInst.
Open Scope string_scope.

(** conjugation by a unitary in an abstract ring with involution *)
Section RingConj.
Context {M : Type} `{Rg : Ring M}.
Variable star : M -> M.
Hypothesis star_P : Proper (_==_ ==> _==_) star.
Hypothesis star_mul : forall a b, star (a * b) == star b * star a.
Hypothesis star_inv : forall a, star (star a) == a.
Variable R : M.
Hypothesis RdR : star R * R == 1.
Hypothesis RRd : R * star R == 1.

Definition rc (a : M) : M := star R * a * R.

Lemma rc_P : Proper (_==_ ==> _==_) rc.
Proof. intros a b H. unfold rc. rewrite H. reflexivity. Qed.
Lemma rc_add a b : rc (a + b) == rc a + rc b.
Proof. unfold rc. non_commutative_ring. Qed.
Lemma rc_opp a : rc (- a) == - rc a.
Proof. unfold rc. non_commutative_ring. Qed.
Lemma rc_zero : rc 0 == 0.
Proof. unfold rc. non_commutative_ring. Qed.
Lemma rc_one : rc 1 == 1.
Proof. unfold rc. transitivity (star R * R). non_commutative_ring. exact RdR. Qed.
Lemma rc_mul a b : rc (a * b) == rc a * rc b.
Proof.
  unfold rc. transitivity (star R * a * (R * star R) * b * R).
  rewrite RRd. non_commutative_ring. non_commutative_ring.
Qed.
Lemma rc_star a : rc (star a) == star (rc a).
Proof.
  unfold rc. rewrite !star_mul, star_inv. non_commutative_ring.
Qed.
Lemma rc_bigsum {A} (F : A -> M) l : rc (bigsum F l) == bigsum (fun a => rc (F a)) l.
Proof.
  unfold rc. rewrite bigsum_mul_l, bigsum_mul_r. reflexivity.
Qed.
End RingConj.

(** a sufficient condition for compatibility with the kept mask: R vanishes outside a support
    [m] and states connected by the support have equal rows of the (symmetric) kept mask *)
Section MaskCompat.
Variable D : nat.
Context {R0 : Type} `{Rg : Ring R0} {CS : CStar R0}.
Variable keep : nat -> nat -> bool.
Hypothesis keep_sym : forall p q, keep p q = keep q p.
Variable R : mat D R0.
Variable m : nat -> nat -> bool.
Hypothesis R_supp : forall a p, (a < D)%nat -> (p < D)%nat -> m a p = false -> R a p == 0.
Hypothesis m_rows : forall a p r, (a < D)%nat -> (p < D)%nat -> (r < D)%nat -> m a p = true -> keep a r = keep p r.

Lemma mask_compatible (y : mat D R0) :
  mmask keep (madj R * y * R) == madj R * mmask keep y * R.
Proof.
  intros p q Hp Hq.
  change (mmask keep (mmul (mmul (madj R) y) R) p q == mmul (mmul (madj R) (mmask keep y)) R p q).
  assert (KK : forall a b, (a < D)%nat -> (b < D)%nat -> m a p = true -> m b q = true -> keep a b = keep p q).
  { intros a b Ha Hb Ma Mb. rewrite (m_rows a p b Ha Hp Hb Ma), (keep_sym p b), (m_rows b q p Hb Hq Hp Mb).
    apply keep_sym. }
  unfold mmask at 1. unfold mmul. destruct (keep p q) eqn:K.
  - apply bigsum_ext. intros b Hb. apply in_range in Hb.
    destruct (m b q) eqn:Mb.
    + apply ring_mult_comp; [|reflexivity]. apply bigsum_ext. intros a Ha. apply in_range in Ha.
      unfold madj, mmask. destruct (m a p) eqn:Ma.
      * rewrite (KK a b Ha Hb Ma Mb). reflexivity.
      * rewrite (R_supp a p Ha Hp Ma), conj_zero. non_commutative_ring.
    + rewrite (R_supp b q Hb Hq Mb). non_commutative_ring.
  - symmetry. apply bigsum_zero. intros b Hb. apply in_range in Hb.
    destruct (m b q) eqn:Mb.
    + rewrite bigsum_zero. non_commutative_ring. intros a Ha. apply in_range in Ha.
      unfold madj, mmask. destruct (m a p) eqn:Ma.
      * rewrite (KK a b Ha Hb Ma Mb). non_commutative_ring.
      * rewrite (R_supp a p Ha Hp Ma), conj_zero. non_commutative_ring.
    + rewrite (R_supp b q Hb Hq Mb). non_commutative_ring.
Qed.
End MaskCompat.

Section Rot.
Variables D k : nat.
Context {R0 : Type} `{Rg : Ring R0} {CS : CStar R0}.
Variable blk : nat -> nat.
Variable keep : nat -> nat -> bool.
Variable cm : nat -> bool.
Hypothesis keep_sym : forall p q, keep p q = keep q p.
Hypothesis keep_refl : forall p, keep p p = true.
Hypothesis keep_blk : forall p q, keep p q = true -> blk p = blk q.
Hypothesis cm_blk : forall p q, blk p = blk q -> cm p = cm q.
Local Notation T := (T D k R0).
Local Notation BA := (series_BlockAlg D k blk keep cm keep_sym keep_blk cm_blk).
Local Hint Extern 0 (BlockAlg _) => exact BA : typeclass_instances.
Local Notation M := (mat D R0).

Variable R : M.
Hypothesis RdR : madj R * R == 1.
Hypothesis RRd : R * madj R == 1.
(* R commutes with the kept mask *)
Hypothesis R_mask : forall y : M, mmask keep (madj R * y * R) == madj R * mmask keep y * R.

Local Notation mstar := (madj (D := D) (CS := CS)).
Local Notation rcm := (rc (Ro := mat_ops D) mstar R).

Definition rot (x : T) : T := fun n => rcm (x n).

Local Notation mP := (madj_P (D := D) (Rg := Rg) (CS := CS)).
Local Notation mM := (madj_mul (D := D) (Rg := Rg) (CS := CS)).
Local Notation mI := (madj_inv (D := D) (CS := CS)).

Lemma rot_P : Proper (_==_ ==> _==_) rot.
Proof. intros x y H n Hn. unfold rot. apply (rc_P (Rg := mat_Ring D)). exact (H n Hn). Qed.

Lemma rot_mul (x y : T) : rot (x * y) == rot x * rot y.
Proof.
  intros n Hn.
  change (rcm (bigsum (fun ab => x (fst ab) * y (snd ab)) (splits n))
          == bigsum (fun ab => rcm (x (fst ab)) * rcm (y (snd ab))) (splits n)).
  rewrite (rc_bigsum (Rg := mat_Ring D)). apply bigsum_ext. intros ab _.
  apply (rc_mul (Rg := mat_Ring D) _ R RRd).
Qed.

Lemma rot_LAHom : LAHom (BA := BA) (BA' := BA) rot.
Proof.
  apply mkLAHom.
  - exact rot_P.
  - intros x y n Hn. exact (rc_add (Rg := mat_Ring D) _ R (x n) (y n)).
  - intros x n Hn. exact (rc_opp (Rg := mat_Ring D) _ R (x n)).
  - intros n Hn. unfold rot.
    change ((1 : T) n) with (if is_zero n then (1 : M) else 0).
    change (rcm (if is_zero n then (1 : M) else 0) == (if is_zero n then (1 : M) else 0)).
    destruct (is_zero n). apply (rc_one (Rg := mat_Ring D) _ R RdR). apply (rc_zero (Rg := mat_Ring D)).
  - exact rot_mul.
  - intros x n Hn. exact (rc_star (Rg := mat_Ring D) _ mM mI R (x n)).
  - intros x n Hn. symmetry. exact (R_mask (x n)).
  - intros m x Hx n Hn Hd. unfold rot.
    transitivity (rcm 0). apply (rc_P (Rg := mat_Ring D)). exact (Hx n Hn Hd).
    apply (rc_zero (Rg := mat_Ring D)).
Qed.

Lemma rot_Zc (x : T) : rot (Zc x) == Zc (rot x).
Proof.
  intros n Hn.
  change (rcm (if is_zero n then x n else 0) == (if is_zero n then rcm (x n) else 0)).
  destruct (is_zero n). reflexivity. apply (rc_zero (Rg := mat_Ring D)).
Qed.

Variable E : nat -> R0.
(* R only mixes states of equal unperturbed energy *)
Hypothesis R_H0 : madj R * mdiag D E * R == mdiag D E.

Lemma rot_H0 : rot (SylvInst.H0 D k E) == SylvInst.H0 D k E.
Proof.
  intros n Hn. unfold rot, SylvInst.H0. destruct (is_zero n). exact R_H0.
  apply (rc_zero (Rg := mat_Ring D)).
Qed.

Hypothesis E_real : forall p, conj (E p) == E p.
Hypothesis keep_eucl : keep_eucl_on D keep cm.
Variable inv : R0 -> R0.
Hypothesis inv_spec : forall p q, (p < D)%nat -> (q < D)%nat -> keep p q = false ->
                                  (E p - E q) * inv (E p - E q) == 1.
Hypothesis inv_P : Proper (_==_ ==> _==_) inv.
Hypothesis inv_opp : forall x, inv (- x) == - inv x.
Hypothesis inv_conj : forall x, conj (inv x) == inv (conj x).
Variable rflag rflag' : string -> T -> T.
Variable fenv fenv' : string -> list T -> T.
Hypothesis rflag_spec : forall x, rflag "commuting_blocks" x == Rw x.
Hypothesis fenv_spec : forall y, fenv "solve_sylvester" (cons y nil) == SylvInst.sylv E inv y.
Hypothesis rflag_spec' : forall x, rflag' "commuting_blocks" x == Rw x.
Hypothesis fenv_spec' : forall y, fenv' "solve_sylvester" (cons y nil) == SylvInst.sylv E inv y.
Variable sol sol' : string -> T.
Hypothesis Hsol : solution (gflag_of false) rflag fenv sol main_alg.
Hypothesis Hsol' : solution (gflag_of false) rflag' fenv' sol' main_alg.
Hypothesis H_herm : adj (sol "H") == sol "H".
Hypothesis H_zero : Zc (sol "H") == SylvInst.H0 D k E.
Hypothesis Hin : sol' "H" == rot (sol "H").

Theorem rot_covariant :
  sol' "U" == rot (sol "U") /\ sol' "U†" == rot (sol "U†") /\ sol' "H_tilde" == rot (sol "H_tilde").
Proof.
  exact (inst_transport D k blk keep cm keep_sym keep_refl keep_blk cm_blk keep_eucl E inv inv_spec
           E_real inv_P inv_opp inv_conj
           D k blk keep cm keep_sym keep_refl keep_blk cm_blk keep_eucl E inv inv_spec
           E_real inv_P inv_opp inv_conj
           rot rot_LAHom rot_Zc rot_H0 rflag fenv rflag' fenv' rflag_spec fenv_spec
           rflag_spec' fenv_spec' sol sol' Hsol Hsol' H_herm H_zero Hin).
Qed.
End Rot.
