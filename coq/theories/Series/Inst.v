(** The concrete [BlockAlg]: multi-index formal power series in k parameters whose
    coefficients are D x D matrices over a commutative star-ring R0, with the Cauchy
    product, for a block labelling [blk], a mask [keep] of kept matrix elements inside the
    diagonal blocks and a per-block flag [cm].

    [series_BlockAlg] is the instance; the [*_entry] lemmas spell out what every structure
    map is on the entry (p, q) of the coefficient of multi-order n. *)
Require Import Ncring Ncring_tac Setoid Morphisms List ZArith.
From PV.Base Require Import Classes BigSum.
From PV.Series Require Import MultiIndex Cauchy Lift.
From PV.Block Require Import Mat Masks CoefAlg BlockSel.
Set Implicit Arguments.

Section Inst.
Variables D k : nat.
Context {R0 : Type} `{Rg : Ring R0} {CS : CStar R0}.
Variable blk : nat -> nat.
Variable keep : nat -> nat -> bool.
Variable cm : nat -> bool.
Hypothesis keep_sym : forall p q, keep p q = keep q p.
Hypothesis keep_refl : forall p, keep p p = true.
Hypothesis keep_blk : forall p q, keep p q = true -> blk p = blk q.
Hypothesis cm_blk : forall p q, blk p = blk q -> cm p = cm q.

Definition T : Type := series k (mat D R0).

Definition T_CoefAlg : CoefAlg (mat D R0) :=
  mat_CoefAlg D blk keep cm keep_sym keep_blk cm_blk.

Global Instance series_BlockAlg : BlockAlg T :=
  series_BlockAlg_gen k (CA := T_CoefAlg).

(** equality of T: all entries (p, q < D) of all coefficients of well-formed multi-orders *)
Lemma T_eq_entry (x y : T) :
  x == y <-> forall n p q, length n = k -> (p < D)%nat -> (q < D)%nat -> x n p q == y n p q.
Proof. split; intros H; [intros n p q Hn Hp Hq | intros n Hn p q Hp Hq]; now apply H. Qed.

Lemma zero_entry n p q : (0 : T) n p q = 0.
Proof. reflexivity. Qed.
Lemma one_entry n p q : (1 : T) n p q = if is_zero n then (if Nat.eqb p q then 1 else 0) else 0.
Proof. unfold one, one_notation. cbn. unfold sone. destruct (is_zero n); reflexivity. Qed.
Lemma add_entry (x y : T) n p q : (x + y) n p q = x n p q + y n p q.
Proof. reflexivity. Qed.
Lemma opp_entry (x : T) n p q : (- x) n p q = - x n p q.
Proof. reflexivity. Qed.
Lemma sub_entry (x y : T) n p q : (x - y) n p q = x n p q - y n p q.
Proof. reflexivity. Qed.
(** Cauchy product of series of matrices *)
Lemma mul_entry (x y : T) n p q :
  (x * y) n p q ==
  bigsum (fun ab => bigsum (fun r => x (fst ab) p r * y (snd ab) r q) (range D)) (splits n).
Proof.
  change ((x * y) n) with (bigsum (fun ab => x (fst ab) * y (snd ab)) (splits n)).
  rewrite (bigsum_entry (Rg := Rg)). reflexivity.
Qed.

Lemma adj_entry (x : T) n p q : adj x n p q = conj (x n q p).
Proof. reflexivity. Qed.
Lemma divz_entry (x : T) z n p q : divz x z n p q = divz0 (x n p q) z.
Proof. reflexivity. Qed.
Lemma Dg_entry (x : T) n p q : Dg x n p q = if Nat.eqb (blk p) (blk q) then x n p q else 0.
Proof. reflexivity. Qed.
Lemma Up_entry (x : T) n p q : Up x n p q = if Nat.ltb (blk p) (blk q) then x n p q else 0.
Proof. reflexivity. Qed.
Lemma Lo_entry (x : T) n p q : Lo x n p q = if Nat.ltb (blk q) (blk p) then x n p q else 0.
Proof. reflexivity. Qed.
Lemma Sel_entry (x : T) n p q : Sel x n p q = if keep p q then x n p q else 0.
Proof. reflexivity. Qed.
Lemma Rw_entry (x : T) n p q : Rw x n p q = if cm p then x n p q else 0.
Proof. reflexivity. Qed.
Lemma Zc_entry (x : T) n p q : Zc x n p q = if is_zero n then x n p q else 0.
Proof. unfold Zc. cbn. unfold sZc. destruct (is_zero n); reflexivity. Qed.
Lemma ord_iff m (x : T) :
  ord m x <-> forall n p q, length n = k -> (deg n < m)%nat -> (p < D)%nat -> (q < D)%nat ->
                            x n p q == 0.
Proof.
  split; intros H.
  - intros n p q Hn Hd Hp Hq. now apply (H n Hn Hd).
  - intros n Hn Hd p q Hp Hq. now apply H.
Qed.

(** the half-sum of product_by_order on a diagonal block: with
    t(a1,a2)[u,v] := sum_r a(a1)[u,r] * b(a2)[r,v]  (the product of the two coefficient
    matrices, summed over the intermediate states r of all blocks), the entry (p,q) is 0
    unless blk p = blk q, and then the sum over the splittings (a1,a2) of n of
      0                       if a1 > a2 (tuple comparison; skipped by the code),
      t[p,q]                  if a1 = a2,
      t[p,q] + conj (t[q,p])  if a1 < a2   (term + Dagger(term)). *)
Definition tprod (a b : T) (a1 a2 : mi) (u v : nat) : R0 :=
  bigsum (fun r => a a1 u r * b a2 r v) (range D).

Lemma hsum_entry (a b : T) n p q :
  hsum a b n p q ==
  if Nat.eqb (blk p) (blk q) then
    bigsum (fun s : mi * mi =>
              match lexc (fst s) (snd s) with
              | Gt => 0
              | Eq => tprod a b (fst s) (snd s) p q
              | Lt => tprod a b (fst s) (snd s) p q + conj (tprod a b (fst s) (snd s) q p)
              end) (splits n)
  else 0.
Proof.
  change (hsum a b n p q) with (mDg blk (s_half (k := k) (CA := T_CoefAlg) a b n) p q).
  unfold mDg, mmask, dgm. destruct (Nat.eqb (blk p) (blk q)); [|reflexivity].
  unfold s_half. rewrite (bigsum_entry (Rg := Rg)). apply bigsum_ext. intros (a1, a2) _.
  unfold hterm. cbn [fst snd]. destruct (lexc a1 a2); reflexivity.
Qed.

End Inst.

Arguments T D k R0 : clear implicits.
