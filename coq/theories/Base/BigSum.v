(** Finite sums over lists in an [Ncring] ring (setoid equality).

    Index arithmetic is kept out of this file: the [Ncring] notations capture
    [+ - * 0 1] at every type. *)
Require Import Ncring Ncring_tac Setoid Morphisms List Permutation.
Import ListNotations.
Set Implicit Arguments.

Section BigSum.
Context {T : Type} `{Rg : Ring T}.

Fixpoint bigsum {A} (f : A -> T) (l : list A) : T :=
  match l with [] => 0 | a :: l' => f a + bigsum f l' end.

Lemma bigsum_nil {A} (f : A -> T) : bigsum f [] = 0.
Proof. reflexivity. Qed.

Lemma bigsum_cons {A} (f : A -> T) a l : bigsum f (a :: l) = f a + bigsum f l.
Proof. reflexivity. Qed.

Lemma bigsum_ext {A} (f g : A -> T) l :
  (forall a, In a l -> f a == g a) -> bigsum f l == bigsum g l.
Proof.
  induction l as [|a l IH]; cbn [bigsum]; intros H. reflexivity.
  rewrite (H a), IH. reflexivity. intros; apply H; now right. now left.
Qed.

Global Instance bigsum_Proper {A} :
  Proper (pointwise_relation A ring_eq ==> eq ==> ring_eq) (@bigsum A).
Proof. intros f g H l l' <-. apply bigsum_ext. intros; apply H. Qed.

Lemma bigsum_app {A} (f : A -> T) l1 l2 :
  bigsum f (l1 ++ l2) == bigsum f l1 + bigsum f l2.
Proof.
  induction l1 as [|a l IH]; cbn [bigsum app]. non_commutative_ring.
  rewrite IH. non_commutative_ring.
Qed.

Lemma bigsum_perm {A} (f : A -> T) l1 l2 :
  Permutation l1 l2 -> bigsum f l1 == bigsum f l2.
Proof.
  induction 1; cbn [bigsum]. reflexivity. rewrite IHPermutation; reflexivity.
  non_commutative_ring. etransitivity; eauto.
Qed.

Lemma bigsum_single1 {A} (f : A -> T) a : bigsum f [a] == f a.
Proof. cbn [bigsum]. non_commutative_ring. Qed.

Lemma bigsum_mul_l {A} (f : A -> T) c l :
  c * bigsum f l == bigsum (fun a => c * f a) l.
Proof.
  induction l; cbn [bigsum]. non_commutative_ring.
  rewrite <- IHl. non_commutative_ring.
Qed.

Lemma bigsum_mul_r {A} (f : A -> T) c l :
  bigsum f l * c == bigsum (fun a => f a * c) l.
Proof.
  induction l; cbn [bigsum]. non_commutative_ring.
  rewrite <- IHl. non_commutative_ring.
Qed.

Lemma bigsum_add {A} (f g : A -> T) l :
  bigsum (fun a => f a + g a) l == bigsum f l + bigsum g l.
Proof.
  induction l; cbn [bigsum]. non_commutative_ring.
  rewrite IHl. non_commutative_ring.
Qed.

Lemma bigsum_opp {A} (f : A -> T) l :
  bigsum (fun a => - f a) l == - bigsum f l.
Proof.
  induction l; cbn [bigsum]. non_commutative_ring.
  rewrite IHl. non_commutative_ring.
Qed.

Lemma bigsum_sub {A} (f g : A -> T) l :
  bigsum (fun a => f a - g a) l == bigsum f l - bigsum g l.
Proof.
  induction l; cbn [bigsum]. non_commutative_ring.
  rewrite IHl. non_commutative_ring.
Qed.

Lemma bigsum_flat_map {A B} (f : B -> T) (g : A -> list B) l :
  bigsum f (flat_map g l) == bigsum (fun a => bigsum f (g a)) l.
Proof.
  induction l; cbn [bigsum flat_map]. reflexivity.
  rewrite bigsum_app, IHl. reflexivity.
Qed.

Lemma bigsum_map {A B} (f : B -> T) (g : A -> B) l :
  bigsum f (map g l) == bigsum (fun a => f (g a)) l.
Proof. induction l; cbn [bigsum map]. reflexivity. rewrite IHl. reflexivity. Qed.

Lemma bigsum_zero {A} (f : A -> T) l :
  (forall a, In a l -> f a == 0) -> bigsum f l == 0.
Proof.
  induction l; cbn [bigsum]; intros H. reflexivity.
  rewrite (H a), IHl. non_commutative_ring.
  intros; apply H; now right. now left.
Qed.

Lemma bigsum_const0 {A} (l : list A) : bigsum (fun _ => 0) l == 0.
Proof. apply bigsum_zero. reflexivity. Qed.

(** exchange of two finite sums *)
Lemma bigsum_exchange {A B} (f : A -> B -> T) la lb :
  bigsum (fun a => bigsum (fun b => f a b) lb) la
  == bigsum (fun b => bigsum (fun a => f a b) la) lb.
Proof.
  induction la as [|a la IH]; cbn [bigsum].
  - symmetry. apply bigsum_const0.
  - rewrite IH, <- bigsum_add. reflexivity.
Qed.

(** sum over the sub-list selected by a predicate *)
Lemma bigsum_filter {A} (P : A -> bool) (f : A -> T) l :
  bigsum f (filter P l) == bigsum (fun a => if P a then f a else 0) l.
Proof.
  induction l as [|a l IH]; cbn [bigsum filter]. reflexivity.
  destruct (P a); cbn [bigsum]; rewrite IH; non_commutative_ring.
Qed.

Lemma bigsum_split {A} (P : A -> bool) (f : A -> T) l :
  bigsum f l == bigsum f (filter P l) + bigsum f (filter (fun a => negb (P a)) l).
Proof.
  rewrite !bigsum_filter, <- bigsum_add. apply bigsum_ext. intros a _.
  destruct (P a); cbn [negb]; non_commutative_ring.
Qed.

(** a sum over a duplicate-free list with a single non-zero term *)
Lemma bigsum_single {A} (f : A -> T) x l :
  NoDup l -> In x l -> (forall a, In a l -> a <> x -> f a == 0) ->
  bigsum f l == f x.
Proof.
  induction 1 as [|a l Hn Hl IH]; cbn [bigsum In]; intros Hin Hz. contradiction.
  destruct Hin as [->|Hin].
  - rewrite bigsum_zero. non_commutative_ring.
    intros b Hb. apply Hz. now right. intros ->. contradiction.
  - rewrite IH, (Hz a); auto. non_commutative_ring.
    intros ->. contradiction.
Qed.

(** sum over a duplicate-free list where the non-zero terms are those satisfying a
    decidable predicate that singles out at most the element [x] *)
Lemma bigsum_pick {A} (f : A -> T) (P : A -> bool) x l :
  NoDup l -> In x l -> (forall a, In a l -> (P a = true <-> a = x)) ->
  bigsum (fun a => if P a then f a else 0) l == f x.
Proof.
  intros Hn Hin HP.
  rewrite (@bigsum_single _ (fun a => if P a then f a else 0) x l Hn Hin).
  - destruct (P x) eqn:E. reflexivity.
    assert (P x = true) by (apply HP; auto). congruence.
  - intros a Ha Hne. destruct (P a) eqn:E; [|reflexivity].
    apply HP in E; auto. contradiction.
Qed.

End BigSum.

Arguments bigsum : simpl never.

(** Additive maps commute with finite sums. *)
Section Morph.
Context {T : Type} `{Rg : Ring T}.
Context {U : Type} {u0 u1 : U} {uadd umul usub : U -> U -> U} {uopp : U -> U}
        {ueq : U -> U -> Prop}
        {Uo : @Ring_ops U u0 u1 uadd umul usub uopp ueq} {Ug : @Ring U _ _ _ _ _ _ _ Uo}.

Lemma additive_zero (phi : T -> U) :
  (forall x y, phi (x + y) == phi x + phi y) ->
  Proper (_==_ ==> _==_) phi -> phi 0 == 0.
Proof.
  intros Hadd HP.
  assert (H : phi 0 == phi 0 + phi 0).
  { rewrite <- Hadd. apply HP. non_commutative_ring. }
  transitivity ((phi 0 + phi 0) - phi 0). non_commutative_ring.
  rewrite <- H. non_commutative_ring.
Qed.

Lemma bigsum_morph {A} (phi : T -> U) (f : A -> T) l :
  phi 0 == 0 -> (forall x y, phi (x + y) == phi x + phi y) ->
  Proper (_==_ ==> _==_) phi ->
  phi (bigsum f l) == bigsum (fun a => phi (f a)) l.
Proof.
  intros H0 Hadd HP. induction l as [|a l IH]. exact H0.
  rewrite !bigsum_cons, Hadd, IH. reflexivity.
Qed.
End Morph.
