(** Algebraic interface on which the correctness of the shipped recurrences is proved.

    [T] is the algebra in which a whole block series lives: in the intended instance
    (Series/Inst.v) an element is a multi-index formal power series whose coefficients are
    D x D matrices over a commutative star-ring, together with a labelling of the D basis
    states by blocks and a 0/1 mask of kept matrix elements inside the diagonal blocks.
    Multiplication is the Cauchy product of series of matrices.

    Everything the proofs use about that instance is listed here as a law. *)
Require Import Ncring Ncring_tac Setoid Morphisms ZArith.
Set Implicit Arguments.

Section Defs.
Context {T : Type} `{Rg : Ring T}.

(** Additive maps (all the structure maps are additive and respect ==). *)
Class AddMap (f : T -> T) := {
  am_P :> Proper (_==_ ==> _==_) f;
  am_add : forall x y, f (x + y) == f x + f y;
  am_opp : forall x, f (- x) == - f x
}.

(** n-fold sum, used to state division by an integer literal. *)
Fixpoint nmul (n : nat) (x : T) : T :=
  match n with O => 0 | S n' => x + nmul n' x end.
Definition zmul (k : Z) (x : T) : T :=
  match k with
  | Z0 => 0
  | Zpos p => nmul (Pos.to_nat p) x
  | Zneg p => - nmul (Pos.to_nat p) x
  end.

Class BlockAlg := {
  (* involution *)
  adj : T -> T;
  adj_am :> AddMap adj;
  adj_mul : forall x y, adj (x * y) == adj y * adj x;
  adj_inv : forall x, adj (adj x) == x;
  adj_one : adj 1 == 1;
  (* division by non-zero integer literals (the DSL's  e / k) *)
  divz : T -> Z -> T;
  divz_P :> forall k, Proper (_==_ ==> _==_) (fun x => divz x k);
  divz_add : forall k x y, divz (x + y) k == divz x k + divz y k;
  divz_opp : forall k x, divz (- x) k == - divz x k;
  divz_spec : forall k x, k <> 0%Z -> zmul k (divz x k) == x;
  (* block projections: block-diagonal part, strictly upper and strictly lower block triangle *)
  Dg : T -> T;  Up : T -> T;  Lo : T -> T;
  Dg_am :> AddMap Dg;  Up_am :> AddMap Up;  Lo_am :> AddMap Lo;
  blk_split : forall x, x == Dg x + Up x + Lo x;
  Dg_Dg : forall x, Dg (Dg x) == Dg x;
  Up_Up : forall x, Up (Up x) == Up x;
  Lo_Lo : forall x, Lo (Lo x) == Lo x;
  Dg_Up : forall x, Dg (Up x) == 0;  Dg_Lo : forall x, Dg (Lo x) == 0;
  Up_Dg : forall x, Up (Dg x) == 0;  Up_Lo : forall x, Up (Lo x) == 0;
  Lo_Dg : forall x, Lo (Dg x) == 0;  Lo_Up : forall x, Lo (Up x) == 0;
  Dg_adj : forall x, Dg (adj x) == adj (Dg x);
  Up_adj : forall x, Up (adj x) == adj (Lo x);
  Lo_adj : forall x, Lo (adj x) == adj (Up x);
  Dg_mul_l : forall x y, Dg (Dg x * y) == Dg x * Dg y;
  Dg_mul_r : forall x y, Dg (x * Dg y) == Dg x * Dg y;
  Dg_one : Dg 1 == 1;
  (* selection of kept matrix elements: Sel = scope function [diag] applied to the diagonal blocks;
     the eliminated part is  Rp x = x - Sel x  (off-diagonal blocks + scope function [offdiag]) *)
  Sel : T -> T;
  Sel_am :> AddMap Sel;
  Sel_idem : forall x, Sel (Sel x) == Sel x;
  Sel_adj : forall x, Sel (adj x) == adj (Sel x);
  Sel_Dg : forall x, Sel (Dg x) == Sel x;
  Dg_Sel : forall x, Dg (Sel x) == Sel x;
  (* rows (diagonal blocks) on which the flag commuting_blocks is True *)
  Rw : T -> T;
  Rw_am :> AddMap Rw;
  Rw_idem : forall x, Rw (Rw x) == Rw x;
  Rw_Dg : forall x, Dg (Rw x) == Rw (Dg x);
  Rw_Sel : forall x, Sel (Rw x) == Rw (Sel x);
  Rw_adj_Dg : forall x, Rw (adj (Dg x)) == adj (Rw (Dg x));
  (* filtration by total order: [ord k x] = all coefficients of total order < k vanish;
     [Zc] = the order-zero coefficient (a ring morphism) *)
  ord : nat -> T -> Prop;
  ord_P :> forall k, Proper (_==_ ==> iff) (ord k);
  ord_O : forall x, ord O x;
  ord_S : forall k x, ord (S k) x -> ord k x;
  ord_zero : forall k, ord k 0;
  ord_add : forall k x y, ord k x -> ord k y -> ord k (x + y);
  ord_opp : forall k x, ord k x -> ord k (- x);
  ord_mul : forall a b x y, ord a x -> ord b y -> ord (Nat.add a b) (x * y);
  ord_sep : forall x, (forall k, ord k x) -> x == 0;
  ord_adj : forall k x, ord k x -> ord k (adj x);
  ord_divz : forall k x z, ord k x -> ord k (divz x z);
  ord_Dg : forall k x, ord k x -> ord k (Dg x);
  ord_Up : forall k x, ord k x -> ord k (Up x);
  ord_Lo : forall k x, ord k x -> ord k (Lo x);
  ord_Sel : forall k x, ord k x -> ord k (Sel x);
  ord_Rw : forall k x, ord k x -> ord k (Rw x);
  Zc : T -> T;
  Zc_am :> AddMap Zc;
  Zc_mul : forall x y, Zc (x * y) == Zc x * Zc y;
  Zc_one : Zc 1 == 1;
  Zc_idem : forall x, Zc (Zc x) == Zc x;
  Zc_ord : forall x, ord 1 x <-> Zc x == 0;
  Zc_adj : forall x, Zc (adj x) == adj (Zc x);
  Zc_Dg : forall x, Zc (Dg x) == Dg (Zc x);
  Zc_Up : forall x, Zc (Up x) == Up (Zc x);
  Zc_Lo : forall x, Zc (Lo x) == Lo (Zc x);
  Zc_Sel : forall x, Zc (Sel x) == Sel (Zc x);
  (* the diagonal blocks of a product declared [hermitian], as computed by the half-sum of
     product_by_order; agrees with the true product up to the order to which the second
     factor is the adjoint of the first *)
  hsum : T -> T -> T;
  hsum_P :> Proper (_==_ ==> _==_ ==> _==_) hsum;
  hsum_Dg : forall a b, Dg (hsum a b) == hsum a b;
  hsum_spec : forall k a b, ord 1 a -> ord 1 b -> ord k (b - adj a) ->
                            ord (S k) (hsum a b - Dg (a * b))
}.

End Defs.

Arguments BlockAlg T {_ _ _ _ _ _ _ _}.
Arguments AddMap {T _ _ _ _ _ _ _ _} f.
