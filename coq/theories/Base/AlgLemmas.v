(** Derived facts of a [BlockAlg]: additive maps, halving, the eliminated part [Rp],
    the positive-order part [Pos], and the contraction principle. *)
Require Import Ncring Ncring_tac Setoid Morphisms ZArith Lia.
From PV.Base Require Import Classes.
Set Implicit Arguments.

Section Lemmas.
Context {T : Type} `{Rg : Ring T} {BA : BlockAlg T}.

(** additive maps *)
Lemma am_zero (f : T -> T) {Hf : AddMap f} : f 0 == 0.
Proof.
  assert (E : f 0 + f 0 == f 0 + 0).
  { rewrite <- am_add. assert (E0 : (0:T) + 0 == 0) by non_commutative_ring. rewrite E0. non_commutative_ring. }
  assert (E1 : f 0 == (- f 0 + f 0) + f 0) by non_commutative_ring.
  rewrite E1. assert (E2 : - f 0 + f 0 + f 0 == - f 0 + (f 0 + f 0)) by non_commutative_ring.
  rewrite E2, E. non_commutative_ring.
Qed.
Lemma am_sub (f : T -> T) {Hf : AddMap f} x y : f (x - y) == f x - f y.
Proof. rewrite !ring_sub_def, am_add, am_opp. reflexivity. Qed.

Lemma nmul_am (f : T -> T) {Hf : AddMap f} n x : f (nmul n x) == nmul n (f x).
Proof. induction n as [|n IH]; cbn [nmul]. apply am_zero; assumption. rewrite am_add, IH. reflexivity. Qed.
Lemma zmul_am (f : T -> T) {Hf : AddMap f} k x : f (zmul k x) == zmul k (f x).
Proof. destruct k; cbn [zmul]. apply am_zero; assumption. apply nmul_am; assumption.
  rewrite am_opp, nmul_am by assumption. reflexivity. Qed.
#[global] Instance nmul_P n : Proper (_==_ ==> _==_) (nmul n).
Proof. intros x y E. induction n as [|n IH]; cbn [nmul]. reflexivity. apply ring_plus_comp; assumption. Qed.
#[global] Instance zmul_P k : Proper (_==_ ==> _==_) (zmul k).
Proof. intros x y E. destruct k; cbn [zmul]. reflexivity. apply nmul_P; exact E. apply ring_opp_comp. apply nmul_P; exact E. Qed.
Lemma nmul_add n x y : nmul n (x + y) == nmul n x + nmul n y.
Proof. induction n as [|n IH]; cbn [nmul]. non_commutative_ring. rewrite IH. non_commutative_ring. Qed.
Lemma nmul_opp n x : nmul n (- x) == - nmul n x.
Proof. induction n as [|n IH]; cbn [nmul]. non_commutative_ring. rewrite IH. non_commutative_ring. Qed.
Lemma zmul_add k x y : zmul k (x + y) == zmul k x + zmul k y.
Proof. destruct k; cbn [zmul]. non_commutative_ring. apply nmul_add. rewrite nmul_add. non_commutative_ring. Qed.

(** division: [divz (zmul k x) k == x], hence every additive map commutes with division *)
Lemma divz_proper k x y : x == y -> divz x k == divz y k.
Proof. intros E. apply (divz_P k). exact E. Qed.
#[global] Instance divz_P2 : Proper (_==_ ==> Logic.eq ==> _==_) divz.
Proof. intros x y E k k' <-. apply divz_proper. exact E. Qed.
Lemma divz_nmul k n x : divz (nmul n x) k == nmul n (divz x k).
Proof. induction n as [|n IH]; cbn [nmul].
  - assert (E : divz 0 k + divz 0 k == divz 0 k + 0).
    { rewrite <- divz_add. assert (E0 : (0:T) + 0 == 0) by non_commutative_ring.
      rewrite (divz_proper k E0). non_commutative_ring. }
    assert (E1 : divz 0 k == (- divz 0 k + divz 0 k) + divz 0 k) by non_commutative_ring.
    rewrite E1. assert (E2 : - divz 0 k + divz 0 k + divz 0 k == - divz 0 k + (divz 0 k + divz 0 k)) by non_commutative_ring.
    rewrite E2, E. non_commutative_ring.
  - rewrite divz_add, IH. reflexivity.
Qed.
Lemma divz_zmul k j x : divz (zmul j x) k == zmul j (divz x k).
Proof. destruct j; cbn [zmul].
  - exact (divz_nmul k O x).
  - apply divz_nmul.
  - rewrite divz_opp, divz_nmul. reflexivity.
Qed.
Lemma divz_cancel k x : k <> 0%Z -> divz (zmul k x) k == x.
Proof. intros Hk. rewrite divz_zmul. apply divz_spec. exact Hk. Qed.
Lemma divz_am (f : T -> T) {Hf : AddMap f} k x : k <> 0%Z -> f (divz x k) == divz (f x) k.
Proof.
  intros Hk. rewrite <- (divz_cancel (f (divz x k)) Hk).
  apply divz_proper. rewrite <- zmul_am by assumption. apply am_P. apply divz_spec. exact Hk.
Qed.
Lemma divz_sub k x y : divz (x - y) k == divz x k - divz y k.
Proof. rewrite !ring_sub_def. rewrite divz_add, divz_opp. reflexivity. Qed.

(** halving *)
Definition half (x : T) : T := divz x 2.
#[global] Instance half_P : Proper (_==_ ==> _==_) half.
Proof. intros x y E. unfold half. apply divz_proper. exact E. Qed.
Lemma half_add x y : half (x + y) == half x + half y. Proof. apply divz_add. Qed.
Lemma half_opp x : half (- x) == - half x. Proof. apply divz_opp. Qed.
Lemma half_sub x y : half (x - y) == half x - half y. Proof. apply divz_sub. Qed.
Lemma half_dbl x : half x + half x == x.
Proof. pose proof (@divz_spec _ _ _ _ _ _ _ _ _ BA 2%Z x) as E. cbn in E.
  assert (E' : half x + half x == half x + (half x + 0)) by non_commutative_ring.
  rewrite E'. apply E. discriminate. Qed.
Lemma half_twice x : half (x + x) == x.
Proof. rewrite half_add. apply half_dbl. Qed.
Lemma half_am (f : T -> T) {Hf : AddMap f} x : f (half x) == half (f x).
Proof. apply divz_am. assumption. discriminate. Qed.
Lemma divz_m2 x : divz x (-2) == - half x.
Proof.
  assert (Hm : (-2 <> 0)%Z) by discriminate.
  rewrite <- (divz_cancel (- half x) Hm). apply divz_proper.
  cbn. assert (E : - (- half x + (- half x + 0)) == half x + half x) by non_commutative_ring.
  rewrite E. symmetry. apply half_dbl.
Qed.
Lemma dbl_inj x y : x + x == y + y -> x == y.
Proof. intros E. rewrite <- (half_twice x), <- (half_twice y), E. reflexivity. Qed.
Lemma ord_half k x : ord k x -> ord k (half x). Proof. apply ord_divz. Qed.

(** block parts *)
Definition Od (x : T) : T := Up x + Lo x.
Definition Rp (x : T) : T := x - Sel x.
Definition Pos (x : T) : T := x - Zc x.
Definition comm (a b : T) : T := a * b - b * a.

#[global] Instance Rp_P : Proper (_==_ ==> _==_) Rp.
Proof. intros x y E. unfold Rp. rewrite E. reflexivity. Qed.
#[global] Instance Pos_P : Proper (_==_ ==> _==_) Pos.
Proof. intros x y E. unfold Pos. rewrite E. reflexivity. Qed.
#[global] Instance comm_P : Proper (_==_ ==> _==_ ==> _==_) comm.
Proof. intros x y E x' y' E'. unfold comm. rewrite E, E'. reflexivity. Qed.
#[global] Instance Od_P : Proper (_==_ ==> _==_) Od.
Proof. intros x y E. unfold Od. rewrite E. reflexivity. Qed.

Lemma adj_add x y : adj (x + y) == adj x + adj y. Proof. apply am_add. Qed.
Lemma adj_opp x : adj (- x) == - adj x. Proof. apply am_opp. Qed.
Lemma adj_sub x y : adj (x - y) == adj x - adj y. Proof. apply am_sub; apply adj_am. Qed.
Lemma adj_zero : adj 0 == 0. Proof. apply am_zero; apply adj_am. Qed.
Lemma half_adj x : adj (half x) == half (adj x). Proof. apply half_am; apply adj_am. Qed.
Lemma Sel_add x y : Sel (x + y) == Sel x + Sel y. Proof. apply am_add. Qed.
Lemma Sel_opp x : Sel (- x) == - Sel x. Proof. apply am_opp. Qed.
Lemma Sel_sub x y : Sel (x - y) == Sel x - Sel y. Proof. apply am_sub; apply Sel_am. Qed.
Lemma Sel_zero : Sel 0 == 0. Proof. apply am_zero; apply Sel_am. Qed.
Lemma Sel_half x : Sel (half x) == half (Sel x). Proof. apply half_am; apply Sel_am. Qed.
Lemma Sel_Rp x : Sel (Rp x) == 0.
Proof. unfold Rp. rewrite Sel_sub, Sel_idem. non_commutative_ring. Qed.
Lemma Rp_Sel x : Rp (Sel x) == 0.
Proof. unfold Rp. rewrite Sel_idem. non_commutative_ring. Qed.
Lemma Rp_Rp x : Rp (Rp x) == Rp x.
Proof. unfold Rp at 1. rewrite Sel_Rp. non_commutative_ring. Qed.
Lemma Rp_adj x : Rp (adj x) == adj (Rp x).
Proof. unfold Rp. rewrite adj_sub, Sel_adj. reflexivity. Qed.
Lemma Rp_add x y : Rp (x + y) == Rp x + Rp y.
Proof. unfold Rp. rewrite Sel_add. non_commutative_ring. Qed.
Lemma Rp_opp x : Rp (- x) == - Rp x.
Proof. unfold Rp. rewrite Sel_opp. non_commutative_ring. Qed.
Lemma Rp_sub x y : Rp (x - y) == Rp x - Rp y.
Proof. unfold Rp. rewrite Sel_sub. non_commutative_ring. Qed.
Lemma Rp_zero : Rp 0 == 0.
Proof. unfold Rp. rewrite Sel_zero. non_commutative_ring. Qed.
Lemma split_SR x : x == Sel x + Rp x.
Proof. unfold Rp. non_commutative_ring. Qed.
#[global] Instance Rp_am : AddMap Rp.
Proof. split. exact Rp_P. exact Rp_add. exact Rp_opp. Qed.

Lemma Zc_zero : Zc 0 == 0. Proof. apply am_zero; apply Zc_am. Qed.
Lemma Zc_sub x y : Zc (x - y) == Zc x - Zc y. Proof. apply am_sub; apply Zc_am. Qed.
Lemma Zc_Pos x : Zc (Pos x) == 0.
Proof. unfold Pos. rewrite Zc_sub, Zc_idem. non_commutative_ring. Qed.
Lemma Pos_of_ord1 x : ord 1 x -> Pos x == x.
Proof. intros H. apply Zc_ord in H. unfold Pos. rewrite H. non_commutative_ring. Qed.
Lemma ord1_Pos x : ord 1 (Pos x).
Proof. apply Zc_ord. apply Zc_Pos. Qed.
Lemma ord_sub k x y : ord k x -> ord k y -> ord k (x - y).
Proof. intros Hx Hy. rewrite ring_sub_def. apply ord_add. exact Hx. apply ord_opp. exact Hy. Qed.
Lemma ord_le k j x : (j <= k)%nat -> ord k x -> ord j x.
Proof. induction 1 as [|k Hle IH]. trivial. intros H. apply IH. apply ord_S. exact H. Qed.
Lemma ord_mul_l k x y : ord 1 x -> ord k y -> ord (S k) (x * y).
Proof. intros Hx Hy. change (S k) with (Nat.add 1 k). apply ord_mul; assumption. Qed.
Lemma ord_mul_r k x y : ord k x -> ord 1 y -> ord (S k) (x * y).
Proof. intros Hx Hy. replace (S k) with (Nat.add k 1) by lia. apply ord_mul; assumption. Qed.
Lemma ord_Rp k x : ord k x -> ord k (Rp x).
Proof. intros H. unfold Rp. apply ord_sub. exact H. apply ord_Sel. exact H. Qed.
Lemma ord_eq_zero x : (forall k, ord k x -> ord (S k) x) -> x == 0.
Proof. intros H. apply ord_sep. intros k. induction k as [|k IH]. apply ord_O. apply H. exact IH. Qed.
Lemma eq_of_ord x y : (forall k, ord k (x - y)) -> x == y.
Proof. intros H. assert (E : x - y == 0) by (apply ord_sep; exact H).
  assert (E' : x == (x - y) + y) by non_commutative_ring. rewrite E', E. non_commutative_ring. Qed.

(** contraction principle used everywhere: D = -1/2 (p D + D q) with p, q of positive order *)
Lemma contraction p q D : ord 1 p -> ord 1 q -> D == - half (p * D + D * q) -> D == 0.
Proof.
  intros Hp Hq E. apply ord_eq_zero. intros k Hk. rewrite E.
  apply ord_opp, ord_half, ord_add. apply ord_mul_l; assumption. apply ord_mul_r; assumption.
Qed.

(** block parts, continued *)
Lemma Dg_zero : Dg 0 == 0. Proof. apply am_zero; apply Dg_am. Qed.
Lemma Up_zero : Up 0 == 0. Proof. apply am_zero; apply Up_am. Qed.
Lemma Lo_zero : Lo 0 == 0. Proof. apply am_zero; apply Lo_am. Qed.
Lemma Dg_sub x y : Dg (x - y) == Dg x - Dg y. Proof. apply am_sub; apply Dg_am. Qed.
Lemma Up_sub x y : Up (x - y) == Up x - Up y. Proof. apply am_sub; apply Up_am. Qed.
Lemma Lo_sub x y : Lo (x - y) == Lo x - Lo y. Proof. apply am_sub; apply Lo_am. Qed.
Lemma Up_Sel x : Up (Sel x) == 0.
Proof. rewrite <- (Dg_Sel x). apply Up_Dg. Qed.
Lemma Lo_Sel x : Lo (Sel x) == 0.
Proof. rewrite <- (Dg_Sel x). apply Lo_Dg. Qed.
Lemma Up_Rp x : Up (Rp x) == Up x.
Proof. unfold Rp. rewrite Up_sub, Up_Sel. non_commutative_ring. Qed.
Lemma Lo_Rp x : Lo (Rp x) == Lo x.
Proof. unfold Rp. rewrite Lo_sub, Lo_Sel. non_commutative_ring. Qed.
Lemma Dg_Rp x : Dg (Rp x) == Dg x - Sel x.
Proof. unfold Rp. rewrite Dg_sub, Dg_Sel. reflexivity. Qed.
Lemma adj_Up x : adj (Up x) == Lo (adj x).
Proof. rewrite Lo_adj. reflexivity. Qed.
Lemma adj_Lo x : adj (Lo x) == Up (adj x).
Proof. rewrite Up_adj. reflexivity. Qed.

(** a triangular (marker) definition determines the series from its upper part *)
Lemma tri_herm s b : s == Dg b + Up b + adj (Up s) -> s == Dg b + Up b + adj (Up b).
Proof.
  intros E. assert (U : Up s == Up b).
  { rewrite E at 1. rewrite !am_add, Up_Dg, Up_Up, adj_Up, Up_Lo. non_commutative_ring. }
  rewrite E at 1. rewrite U. reflexivity.
Qed.
Lemma tri_antiherm s b : s == Dg b + Up b + - adj (Up s) -> s == Dg b + Up b + - adj (Up b).
Proof.
  intros E. assert (U : Up s == Up b).
  { rewrite E at 1. rewrite !am_add, am_opp, Up_Dg, Up_Up, adj_Up, Up_Lo. non_commutative_ring. }
  rewrite E at 1. rewrite U. reflexivity.
Qed.
Lemma full_of_herm b : adj b == b -> Dg b + Up b + adj (Up b) == b.
Proof. intros E. rewrite adj_Up, E. symmetry. apply blk_split. Qed.
Lemma full_of_antiherm b : adj b == - b -> Dg b + Up b + - adj (Up b) == b.
Proof. intros E. rewrite adj_Up, E, am_opp.
  assert (E' : Dg b + Up b + - - Lo b == Dg b + Up b + Lo b) by non_commutative_ring.
  rewrite E'. symmetry. apply blk_split. Qed.

End Lemmas.
