(* Spectrum/CharPolyEx.v - concrete 2x2 instances showing that the hypotheses of the C04
   theorems are satisfiable (non-vacuity), used by the Examples of Props/C04.v.

   The running example is first-order Schrieffer-Wolff for
       H(x) = [[0, x], [x, 1]]          (H0 = diag(0,1), V = sigma_x)
       U    = [[1, x], [-x, 1]],  Ui = [[1, -x], [x, 1]]      (1 + x W, W antihermitian)
       Ui U = (1 + x^2) 1  ==  1                    (mod x^2),  NOT equal to 1
       Ui H U = [[-x^2, -x^3], [-x^3, 1 + 2 x^2]]  ==  diag(0, 1)   (mod x^2)
   over {poly int}, N = 1. *)

From mathcomp Require Import all_ssreflect all_algebra.
From PV Require Import Spectrum.CharPoly.
Set Implicit Arguments.
Unset Strict Implicit.
Unset Printing Implicit Defensive.
Import GRing.Theory.
Local Open Scope ring_scope.

Section Mx2.
Variable R : ringType.

Definition mx2 (a b c d : R) : 'M[R]_2 :=
  \matrix_(i, j) (if (i : nat) is 0%N then (if (j : nat) is 0%N then a else b)
                  else (if (j : nat) is 0%N then c else d)).

Lemma ord2_ind (P : 'I_2 -> Prop) : P 0 -> P 1 -> forall i, P i.
Proof.
move=> h0 h1 [[|[|k]] hk] //.
  by have -> : Ordinal hk = 0 by apply: val_inj.
by have -> : Ordinal hk = 1 by apply: val_inj.
Qed.

Lemma mx2_mul a b c d a' b' c' d' :
  mx2 a b c d *m mx2 a' b' c' d'
  = mx2 (a * a' + b * c') (a * b' + b * d') (c * a' + d * c') (c * b' + d * d').
Proof.
apply/matrixP; elim/ord2_ind; elim/ord2_ind;
  by rewrite !mxE !big_ord_recl big_ord0 !mxE /= addr0.
Qed.

Lemma mx2_1 : 1%:M = mx2 1 0 0 1.
Proof. by apply/matrixP; elim/ord2_ind; elim/ord2_ind; rewrite !mxE. Qed.

Lemma mx2_cong (E : ring_cong R) a b c d a' b' c' d' :
  E a a' -> E b b' -> E c c' -> E d d' -> mx_cong E (mx2 a b c d) (mx2 a' b' c' d').
Proof. by move=> ha hb hc hd; elim/ord2_ind; elim/ord2_ind; rewrite !mxE. Qed.

Lemma mx2_block a d :
  block_mx (a%:M : 'M_1) 0 0 (d%:M : 'M_1) = mx2 a 0 0 d.
Proof.
have e0 : (0 : 'I_2) = lshift 1 (0 : 'I_1) by apply: val_inj.
have e1 : (1 : 'I_2) = rshift 1 (0 : 'I_1) by apply: val_inj.
apply/matrixP; elim/ord2_ind; elim/ord2_ind; rewrite [RHS]mxE /= ?e0 ?e1.
- by rewrite block_mxEul !mxE.
- by rewrite block_mxEur !mxE.
- by rewrite block_mxEdl !mxE.
- by rewrite block_mxEdr !mxE.
Qed.

End Mx2.

(* ------------------------------------------------------------------------- *)
(* exact similarity over int *)

Definition exU : 'M[int]_2 := mx2 1 1 0 1.
Definition exUi : 'M[int]_2 := mx2 1 (-1) 0 1.
Definition exH : 'M[int]_2 := mx2 0 1 1 2.

Lemma ex_similar_hyp : exUi *m exU = 1%:M /\ exU <> 1%:M.
Proof.
split; first by rewrite /exUi /exU mx2_mul mx2_1.
by move/matrixP/(_ 0 1); rewrite !mxE.
Qed.

(* ------------------------------------------------------------------------- *)
(* truncated similarity over {poly int}, N = 1 *)

Local Notation x := ('X : {poly int}).

(* deciding a congruence modulo x^2 by evaluating the polynomial and its derivative at 0 *)
Lemma eqN1_int (p q : {poly int}) :
  p.[0] = q.[0] -> p^`().[0] = q^`().[0] -> eqN 1 p q.
Proof.
move=> h0 h1 [|[|i]] // _; first by rewrite -!horner_coef0.
by have := h1; rewrite !horner_coef0 !coef_deriv !mulr1n.
Qed.

Ltac eqN1 := apply: eqN1_int;
  rewrite ?(derivE, hornerE, raddf0, derivC 1, derivMn, derivC, derivX) //=.

Definition swU : 'M[{poly int}]_2 := mx2 1 x (- x) 1.
Definition swUi : 'M[{poly int}]_2 := mx2 1 (- x) x 1.
Definition swH : 'M[{poly int}]_2 := mx2 0 x x 1.
Definition swHt : 'M[{poly int}]_2 := mx2 0 0 0 1.

Lemma sw_unitary : mx_cong (eqN_cong _ 1) (swUi *m swU) 1%:M.
Proof.
rewrite /swUi /swU mx2_mul mx2_1; apply: mx2_cong => /=; by eqN1.
Qed.

Lemma sw_similar : mx_cong (eqN_cong _ 1) (swUi *m swH *m swU) swHt.
Proof.
rewrite /swUi /swU /swH /swHt !mx2_mul; apply: mx2_cong => /=; by eqN1.
Qed.

(* the similarity is genuinely only modulo x^2 *)
Lemma sw_not_exact : swUi *m swU <> 1%:M.
Proof.
rewrite /swUi /swU mx2_mul mx2_1 => /matrixP/(_ 0 0); rewrite !mxE /=.
move/(congr1 (fun p : {poly int} => p.[1])).
by rewrite !hornerE.
Qed.

Lemma swHt_block :
  swHt = block_mx (diag_mx (0 : 'rV_1)) 0 0 ((1 : {poly int})%:M : 'M_1).
Proof.
have -> : diag_mx (0 : 'rV[{poly int}]_1) = (0 : {poly int})%:M.
  by apply/matrixP => i j; rewrite !mxE !ord1 /= mulr1n.
by rewrite /swHt -mx2_block.
Qed.

(* ------------------------------------------------------------------------- *)
(* Rayleigh-Schroedinger uniqueness: p = X (X - 1), e = x^2 == 0 (mod x^2) *)

Definition rsd (j : 'I_2) : {poly int} := ((j : nat)%:R)%:P.
Definition rsp : {poly {poly int}} := \prod_j ('X - (rsd j)%:P).
Definition rse : {poly int} := 'X^2.

Lemma rs_ex_distinct : forall j : 'I_2, j != 0 -> (rsd j)`_0 != (rsd 0)`_0.
Proof. by elim/ord2_ind => // _; rewrite /rsd !coefC. Qed.

Lemma rs_ex_root : eqN 1 rsp.[rse] 0.
Proof.
rewrite /rsp /rse horner_prod !big_ord_recl big_ord0 !hornerXsubC /rsd /=.
by eqN1.
Qed.

Lemma rs_ex_e0 : rse`_0 = (rsd 0)`_0.
Proof. by rewrite /rse /rsd coefXn coefC. Qed.

Lemma rs_ex_nontrivial : rse <> rsd 0.
Proof.
move/(congr1 (fun p : {poly int} => p.[1])).
by rewrite /rse /rsd !hornerE.
Qed.
