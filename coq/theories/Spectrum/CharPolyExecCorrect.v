(* Spectrum/CharPolyExecCorrect.v - the list-based algorithms of CharPolyExec.v compute
   MathComp's [\det] and [char_poly].

   Generic statement: let K : Ops A be any operation record and phi : A -> R a map into a
   commutative ring that commutes with the operations ([ops_hom]).  Then
     [det_hom]      phi (det K n M) = \det (matrix of the phi-images of M)
     [charpoly_hom] Poly (map phi (charpoly K n M)) = char_poly (matrix of phi-images)
   for well-formed n x n lists of rows, and [poly_ops_hom]: the polynomial operations on
   coefficient lists are again such a record (phi := Poly o map phi), so the statement
   iterates (Qx, then polynomials over Qx).

   What remains unproved for the tie: that the instance [Qops] (stdlib Q with Qred, setoid
   equality Qeq) is such a homomorphic image of a MathComp field (rat).  The algorithm is the
   same Gallina term; only its arithmetic on Q is trusted. *)

From mathcomp Require Import all_ssreflect all_algebra.
From PV Require Import Spectrum.CharPoly Spectrum.CharPolyExec.
Set Implicit Arguments.
Unset Strict Implicit.
Unset Printing Implicit Defensive.
Import GRing.Theory.
Local Open Scope ring_scope.

Record ops_hom (A : Type) (K : Ops A) (R : comRingType) (phi : A -> R) := OpsHom {
  h_0 : phi (o0 K) = 0;
  h_1 : phi (o1 K) = 1;
  h_add : forall a b, phi (oadd K a b) = phi a + phi b;
  h_mul : forall a b, phi (omul K a b) = phi a * phi b;
  h_opp : forall a, phi (oopp K a) = - phi a;
  h_eqb : forall a b, oeqb K a b = true -> phi a = phi b }.

(* the ring operations of a comRingType, phi = id *)
Definition ROps (R : comRingType) : Ops R :=
  MkOps (0 : R) 1 +%R *%R -%R (fun a b => a == b).

Lemma ROps_hom (R : comRingType) : ops_hom (ROps R) (@id R).
Proof. by split=> //= a b /eqP. Qed.

Section Hom.
Variables (A : Type) (K : Ops A) (R : comRingType) (phi : A -> R).
Hypothesis H : ops_hom K phi.

Definition phiP (l : list A) : {poly R} := Poly (map phi l).

Lemma phiP_cons x l : phiP (x :: l) = phiP l * 'X + (phi x)%:P.
Proof. by rewrite /phiP /= cons_poly_def. Qed.

Lemma phiP_add a b : phiP (padd K a b) = phiP a + phiP b.
Proof.
elim: a b => [|x a IH] [|y b] //=; rewrite ?add0r ?addr0 //.
rewrite !phiP_cons IH (h_add H) polyCD mulrDl.
by rewrite addrACA.
Qed.

Lemma phiP_scale c b : phiP (pscale K c b) = (phi c)%:P * phiP b.
Proof.
elim: b => [|y b IH] /=; first by rewrite /phiP /= mulr0.
by rewrite !phiP_cons IH (h_mul H) polyCM mulrDr mulrA.
Qed.

Lemma phiP_mul a b : phiP (pmul K a b) = phiP a * phiP b.
Proof.
elim: a => [|x a IH] /=; first by rewrite /phiP /= mul0r.
rewrite phiP_add phiP_scale !phiP_cons IH (h_0 H) addr0 mulrDl addrC.
by congr (_ + _); rewrite -!mulrA [phiP b * _]mulrC.
Qed.

Lemma phiP_opp a : phiP (popp K a) = - phiP a.
Proof.
elim: a => [|x a IH] /=; first by rewrite /phiP /= oppr0.
by rewrite !phiP_cons IH (h_opp H) polyCN opprD mulNr.
Qed.

Lemma phiP_all0 a : all0 K a = true -> phiP a = 0.
Proof.
elim: a => [|x a IH] //= /andP[/(h_eqb H) hx /IH ha].
by rewrite phiP_cons ha hx (h_0 H) mul0r add0r.
Qed.

Lemma phiP_eqb a b : peqb K a b = true -> phiP a = phiP b.
Proof.
elim: a b => [|x a IH] [|y b] //.
- by move=> h; rewrite (@phiP_all0 (y :: b) h).
- move=> /= /andP[/(h_eqb H) hx /phiP_all0 ha].
  by rewrite phiP_cons ha hx (h_0 H) mul0r add0r.
- by move=> /= /andP[/(h_eqb H) hx /IH ha]; rewrite !phiP_cons ha hx.
Qed.

Lemma poly_ops_hom : ops_hom (poly_ops K) phiP.
Proof.
split=> /=.
- by [].
- by rewrite phiP_cons /phiP /= mul0r add0r (h_1 H).
- exact: phiP_add.
- exact: phiP_mul.
- exact: phiP_opp.
- exact: phiP_eqb.
Qed.

(* ---- determinants ---- *)

Definition mxl (n : nat) (M : list (list A)) : 'M[R]_n :=
  \matrix_(i, j) phi (nth (o0 K) (nth [::] M i) j).

Definition wf (n : nat) (M : list (list A)) : bool :=
  (size M == n) && all (fun r => size r == n) M.

Lemma Lmap (T U : Type) (f : T -> U) (l : list T) : List.map f l = map f l.
Proof. by elim: l => //= x l ->. Qed.

Lemma nth_remove_nth x0 j (l : list A) k :
  nth x0 (remove_nth j l) k = nth x0 l (bump j k).
Proof.
elim: l j k => [|x l IH] [|j] [|k] //=; rewrite ?nth_nil //.
by rewrite IH bumpS.
Qed.

Lemma size_remove_nth j (l : list A) : (j < size l)%N -> size (remove_nth j l) = (size l).-1.
Proof.
elim: l j => [|x l IH] [|j] //=; rewrite ltnS => h.
by rewrite IH //; case: (size l) h.
Qed.

Lemma phi_altsum (r : list A) j neg f m : size r = m ->
  phi (altsum K r j neg f)
  = \sum_(k < m) (-1) ^+ (neg + k) * (phi (nth (o0 K) r k) * phi (f (j + k)%N)).
Proof.
elim: r j neg m => [|x r IH] j neg m /= <-; first by rewrite big_ord0 (h_0 H).
rewrite big_ord_recl (h_add H) /= addn0; congr (_ + _).
  by case: neg; rewrite /= ?(h_opp H) (h_mul H) addn0 ?expr1 ?mulN1r ?expr0 ?mul1r.
rewrite (IH j.+1 (negb neg) (size r)) //; apply: eq_bigr => k _.
rewrite /bump /= add1n addSnnS; congr (_ * _).
by rewrite addnS exprS; case: neg; rewrite /= ?add0n ?add1n ?exprS ?mulN1r ?opprK.
Qed.

Lemma det_hom n M : wf n M -> phi (det K n M) = \det (mxl n M).
Proof.
elim: n M => [|n IH] M; first by rewrite det_mx00 /= (h_1 H).
case: M => [|r rest] //; rewrite /wf /= eqSS => /andP[/eqP sz /andP[/eqP szr hall]].
rewrite (phi_altsum _ _ _ szr) (expand_det_row _ ord0); apply: eq_bigr => k _.
rewrite /= add0n !mxE /= /cofactor mulrCA Lmap; congr (_ * (_ * _)).
rewrite IH; last first.
  rewrite /wf size_map sz eqxx /=; apply/(all_nthP [::]) => i; rewrite size_map => ir.
  have /eqP sl := (all_nthP [::] hall) i ir.
  by rewrite (nth_map [::]) // size_remove_nth sl.
congr (\det _); apply/matrixP => i j; rewrite !mxE /=.
by rewrite (nth_map [::]) ?sz // nth_remove_nth.
Qed.

(* ---- matrix product and identity ---- *)

Definition ent (l : list A) (j : nat) : R := phi (nth (o0 K) l j).

Lemma ent_nil j : ent [::] j = 0.
Proof. by rewrite /ent nth_nil (h_0 H). Qed.

Lemma ent_padd a b j : ent (padd K a b) j = ent a j + ent b j.
Proof.
elim: a b j => [|x a IH] [|y b] j; rewrite /= ?ent_nil ?add0r ?addr0 //.
by case: j => [|j]; [exact: (h_add H) | exact: IH].
Qed.

Lemma ent_scale c r j : ent (List.map (omul K c) r) j = phi c * ent r j.
Proof.
elim: r j => [|y r IH] [|j]; rewrite /= ?ent_nil ?mulr0 //; first exact: (h_mul H).
exact: IH.
Qed.

Lemma ent_zero (T : Type) (l : list T) j : ent (List.map (fun _ => o0 K) l) j = 0.
Proof.
elim: l j => [|y l IH] [|j]; rewrite /= ?ent_nil //; first exact: (h_0 H).
exact: IH.
Qed.

Lemma ent_lincomb cs rows zero j : ent zero j = 0 ->
  ent (lincomb K cs rows zero) j
  = \sum_(t < size cs) phi (nth (o0 K) cs t) * ent (nth [::] rows t) j.
Proof.
move=> hz; elim: cs rows => [|c cs IH] [|r rows] /=.
- by rewrite big_ord0.
- by rewrite big_ord0.
- by rewrite hz big1 // => t _; rewrite nth_nil ent_nil mulr0.
- by rewrite /vadd ent_padd ent_scale big_ord_recl /= IH.
Qed.

Lemma size_padd a b : size (padd K a b) = maxn (size a) (size b).
Proof.
by elim: a b => [|x a IH] [|y b] //=; rewrite ?IH ?maxnSS ?max0n ?maxn0.
Qed.

Lemma size_lincomb cs rows zero p : size zero = p ->
  all (fun r => size r == p) rows -> size (lincomb K cs rows zero) = p.
Proof.
move=> hz; elim: cs rows => [|c cs IH] [|r rows] //= /andP[/eqP sr hall].
by rewrite /vadd size_padd Lmap size_map sr IH // maxnn.
Qed.

Lemma size_hd n P : wf n P -> size (List.hd [::] P) = n.
Proof. by case: P => [|r P] /andP[/eqP <- //=] /andP[/eqP]. Qed.

Lemma wf_mmul n M P : wf n M -> wf n P -> wf n (mmul K M P).
Proof.
move=> /andP[sM hM] wP; have [_ hP] := andP wP.
rewrite /wf /mmul Lmap size_map sM /= all_map; apply/(all_nthP [::]) => i _ /=.
by rewrite (@size_lincomb _ _ _ n) // Lmap size_map (size_hd wP).
Qed.

Lemma mxl_mmul n M P : wf n M -> mxl n (mmul K M P) = mxl n M *m mxl n P.
Proof.
move=> /andP[/eqP sM hM]; apply/matrixP => i j; rewrite !mxE.
have iM : (i < size M)%N by rewrite sM.
have /eqP sr := (all_nthP [::] hM) i iM.
rewrite /mmul Lmap (nth_map [::]) // -/(ent _ _) ent_lincomb ?ent_zero // sr.
by apply: eq_bigr => t _; rewrite !mxE.
Qed.

Lemma Lseq a n : List.seq a n = iota a n.
Proof. by elim: n a => //= n IH a; rewrite IH. Qed.

Lemma ent_unit_row oi n j : (j < n)%N -> ent (unit_row K oi n) j = (oi == Some j)%:R.
Proof.
elim: n oi j => [|n IH] oi j //.
case: oi => [[|i]|]; case: j => [|j] //=; rewrite ?ltnS /ent /= ?(h_0 H) ?(h_1 H) //;
  by move/IH; rewrite /ent => ->.
Qed.

Lemma mxl_ident n : mxl n (ident K n) = 1%:M.
Proof.
apply/matrixP => i j; rewrite !mxE /ident Lmap Lseq (nth_map 0%N) ?size_iota //.
by rewrite nth_iota // add0n -/(ent _ _) ent_unit_row.
Qed.

Lemma wf_ident n : wf n (ident K n).
Proof.
rewrite /wf /ident Lmap Lseq size_map size_iota eqxx /= all_map.
apply/(all_nthP 0%N) => i _ /=; move: (Some _) => oi.
by elim: n oi => [|n IH] [[|k]|] //=; rewrite eqSS.
Qed.

(* ---- characteristic polynomial ---- *)

Lemma nth_cp_row (oi : option nat) (r : list A) j : (j < size r)%N ->
  nth [::] (cp_row K oi r) j
  = if oi == Some j then [:: oopp K (nth (o0 K) r j); o1 K]
    else [:: oopp K (nth (o0 K) r j)].
Proof.
elim: r oi j => [|a r IH] oi j //=.
case: oi => [[|i]|]; case: j => [|j] //=; rewrite ltnS => /IH -> //.
Qed.

Lemma size_cp_row oi (r : list A) : size (cp_row K oi r) = size r.
Proof. by elim: r oi => [|a r IH] [[|i]|] //=; rewrite IH. Qed.

Lemma nth_cp_rows i0 (M : list (list A)) i :
  nth [::] (cp_rows K i0 M) i = if (i < size M)%N then cp_row K (Some (i0 + i)%N) (nth [::] M i) else [::].
Proof.
elim: M i0 i => [|r M IH] i0 [|i] //=; first by rewrite addn0.
by rewrite IH ltnS addSnnS.
Qed.

Lemma size_cp_rows i0 (M : list (list A)) : size (cp_rows K i0 M) = size M.
Proof. by elim: M i0 => [|r M IH] i0 //=; rewrite IH. Qed.

End Hom.

Section CharPolyCorrect.
Variables (A : Type) (K : Ops A) (R : comRingType) (phi : A -> R).
Hypothesis H : ops_hom K phi.

Theorem charpoly_hom n M : wf n M ->
  phiP phi (charpoly K n M) = char_poly (mxl K phi n M).
Proof.
move=> wfM; have [/eqP sz hall] := andP wfM.
rewrite /charpoly (det_hom (poly_ops_hom H)); last first.
  rewrite /wf size_cp_rows sz eqxx /=; apply/(all_nthP [::]) => i.
  rewrite size_cp_rows => iM; rewrite nth_cp_rows iM size_cp_row.
  exact: (all_nthP [::] hall).
congr (\det _); apply/matrixP => i j; rewrite !mxE /=.
have iM : (i < size M)%N by rewrite sz.
have jr : (j < size (nth [::] M i))%N.
  by have /eqP -> := (all_nthP [::] hall) i iM.
rewrite nth_cp_rows iM add0n nth_cp_row //.
have -> : (Some (i : nat) == Some (j : nat)) = (i == j) by [].
case: eqP => _; rewrite !phiP_cons /phiP /= ?(h_opp H) ?(h_1 H).
  by rewrite mul0r add0r mul1r polyCN mulr1n addrC.
by rewrite mul0r add0r polyCN mulr0n sub0r.
Qed.

End CharPolyCorrect.


(* The two levels used by the tie, over an arbitrary comRingType F in place of Q: entries of M
   are coefficient lists of polynomials in x, the result is the list (in the eigenvalue
   variable) of such coefficient lists. *)
Corollary charpoly_exec_correct (F : comRingType) n (M : list (list (list F))) :
  wf n M ->
  Poly (map (fun l => Poly l) (charpoly (poly_ops (ROps F)) n M))
  = char_poly (\matrix_(i < n, j < n) Poly (nth [::] (nth [::] M i) j)).
Proof.
move=> wfM; have := charpoly_hom (poly_ops_hom (ROps_hom F)) wfM; rewrite /phiP.
have e : (fun l : list F => Poly (map id l)) =1 (fun l => Poly l).
  by move=> l; rewrite map_id.
rewrite (eq_map e) => ->; congr char_poly; apply/matrixP => i j.
by rewrite !mxE /= map_id.
Qed.

Corollary det_exec_correct (F : comRingType) n (M : list (list (list F))) :
  wf n M ->
  Poly (det (poly_ops (ROps F)) n M)
  = \det (\matrix_(i < n, j < n) Poly (nth [::] (nth [::] M i) j)).
Proof.
move=> wfM; have := det_hom (poly_ops_hom (ROps_hom F)) wfM; rewrite /phiP map_id => ->.
by congr (\det _); apply/matrixP => i j; rewrite !mxE /= map_id.
Qed.

(* ---- the premise checks of the tie imply the premises of C04_charpoly_trunc ---- *)

Lemma Lfirstn (T : Type) n (l : list T) : List.firstn n l = take n l.
Proof. by elim: n l => [|n IH] [|x l] //=; rewrite IH. Qed.

Lemma forall2b_nth (X : Type) (f : X -> X -> bool) x0 a b :
  forall2b f a b = true ->
  size a = size b /\ forall i, (i < size a)%N -> f (nth x0 a i) (nth x0 b i) = true.
Proof.
elim: a b => [|x a IH] [|y b] //= /andP[fxy /IH [sz h]].
by split; [rewrite sz | case].
Qed.

Section ChecksSound.
Variable F : comRingType.
Let K1 := ROps F.
Let KP := poly_ops K1.
Let phi2 : list F -> {poly F} := phiP (@id F).
Let H2 : ops_hom KP phi2 := poly_ops_hom (ROps_hom F).

(* a list of rows of coefficient lists, read as a matrix of polynomials *)
Definition MX n (M : list (list (list F))) : 'M[{poly F}]_n :=
  \matrix_(i < n, j < n) Poly (nth [::] (nth [::] M i) j).

Lemma phi2E l : phi2 l = Poly l.
Proof. by rewrite /phi2 /phiP map_id. Qed.

Lemma MX_mxl n M : MX n M = mxl KP phi2 n M.
Proof. by apply/matrixP => i j; rewrite !mxE phi2E. Qed.

Lemma eqN_b_sound N p q : g_eqN_b K1 N p q = true -> eqN N (Poly p) (Poly q).
Proof.
rewrite /g_eqN_b /g_trunc !Lfirstn => /(phiP_eqb (ROps_hom F)).
rewrite -/phi2 !phi2E => e i iN.
have := congr1 (fun r : {poly F} => r`_i) e.
by rewrite !coef_Poly !nth_take.
Qed.

Lemma mx_eqN_b_sound N n M P : wf n M ->
  g_mx_eqN_b K1 N M P = true -> forall i j : 'I_n, eqN N (MX n M i j) (MX n P i j).
Proof.
move=> /andP[/eqP sM hM] h i j; rewrite !mxE.
have [_ hrows] := forall2b_nth [::] h.
have iM : (i < size M)%N by rewrite sM.
have [_ hent] := forall2b_nth [::] (hrows i iM).
apply: eqN_b_sound; apply: hent.
by have /eqP -> := (all_nthP [::] hM) i iM.
Qed.

Theorem exec_premises_sound N n U Ui H Ht :
  wf n U -> wf n Ui -> wf n H ->
  g_prem_unitary K1 N n U Ui = true ->
  g_prem_similar K1 N U Ui H Ht = true ->
  (forall i j, eqN N ((MX n Ui *m MX n U) i j) ((1%:M : 'M_n) i j))
  /\ (forall i j, eqN N ((MX n Ui *m MX n H *m MX n U) i j) (MX n Ht i j)).
Proof.
move=> wU wUi wH h1 h2; split=> i j.
- have := mx_eqN_b_sound (wf_mmul KP wUi wU) h1 i j.
  by rewrite !MX_mxl (mxl_mmul H2) // (mxl_ident H2).
- have := mx_eqN_b_sound (wf_mmul KP (wf_mmul KP wUi wH) wU) h2 i j.
  by rewrite !MX_mxl !(mxl_mmul H2) // (wf_mmul KP).
Qed.

(* hence, by C04_charpoly_trunc, the conclusion for the matrices denoted by the lists *)
Corollary exec_sound N n U Ui H Ht :
  wf n U -> wf n Ui -> wf n H ->
  g_prem_unitary K1 N n U Ui = true ->
  g_prem_similar K1 N U Ui H Ht = true ->
  forall k, eqN N (char_poly (MX n Ht))`_k (char_poly (MX n H))`_k.
Proof.
move=> wU wUi wH h1 h2.
have [p1 p2] := exec_premises_sound wU wUi wH h1 h2.
exact: (charpoly_trunc p1 p2).
Qed.

End ChecksSound.
