(* Spectrum/CharPolyExec.v - executable (list-based) reading of the C04 statement, used by the
   tie tools/harness/k_charpoly.py.

   MathComp's 'M[{poly R}] does not reduce under vm_compute, so the tie evaluates the
   premises and the conclusion of [C04_charpoly_trunc] with the small stand-alone
   definitions below: polynomials are coefficient lists (low degree first), matrices are
   lists of rows, determinants are Laplace expansions along the first row.  They are
   generic in the coefficient operations, and are used at two levels:
     Qx  := polynomials in the formal parameter x with coefficients in Q,
     QxX := polynomials in the eigenvalue variable X with coefficients in Qx.

   STATUS: Spectrum/CharPolyExecCorrect.v proves, for the operations of ANY MathComp
   comRingType in place of Q, that [det]/[charpoly] below compute MathComp's
   [\det]/[char_poly] and that the premise checks [g_prem_unitary]/[g_prem_similar] imply
   the premises of C04_charpoly_trunc.  What is NOT proved is that the instance [Qops]
   (stdlib Q, operations followed by Qred, comparison Qeq_bool) is such a ring - only the
   arithmetic of Q is trusted; the algorithm is the same Gallina term.  What the tie
   establishes inside Coq is therefore a TEST, on the implementation's outputs, of (a) the
   premises of C04_charpoly_trunc and (b) its conclusion (this file: stdlib only). *)

Require Import List ZArith QArith Bool.
Import ListNotations.

Set Implicit Arguments.

Record Ops (A : Type) := MkOps {
  o0 : A; o1 : A;
  oadd : A -> A -> A; omul : A -> A -> A; oopp : A -> A;
  oeqb : A -> A -> bool }.

Section Generic.
Variables (A : Type) (K : Ops A).

(* ---- polynomials over A ---- *)
Fixpoint padd (a b : list A) : list A :=
  match a, b with
  | [], _ => b
  | _, [] => a
  | x :: a', y :: b' => oadd K x y :: padd a' b'
  end.

Definition pscale (c : A) (a : list A) : list A := map (omul K c) a.
Definition popp (a : list A) : list A := map (oopp K) a.

Fixpoint pmul (a b : list A) : list A :=
  match a with
  | [] => []
  | x :: a' => padd (pscale x b) (o0 K :: pmul a' b)
  end.

Fixpoint all0 (a : list A) : bool :=
  match a with [] => true | x :: a' => oeqb K x (o0 K) && all0 a' end.

Fixpoint peqb (a b : list A) {struct a} : bool :=
  match a with
  | [] => all0 b
  | x :: a' =>
      match b with
      | [] => oeqb K x (o0 K) && all0 a'
      | y :: b' => oeqb K x y && peqb a' b'
      end
  end.

Definition poly_ops : Ops (list A) :=
  MkOps [] [o1 K] padd pmul popp peqb.

(* ---- matrices over A (lists of rows) ---- *)
Definition vadd (u v : list A) : list A := padd u v.   (* entry-wise, same length *)

Fixpoint lincomb (cs : list A) (rows : list (list A)) (zero : list A) : list A :=
  match cs, rows with
  | c :: cs', r :: rows' => vadd (map (omul K c) r) (lincomb cs' rows' zero)
  | _, _ => zero
  end.

Definition mmul (M P : list (list A)) : list (list A) :=
  let zero := map (fun _ => o0 K) (hd [] P) in
  map (fun r => lincomb r P zero) M.

(* row i of the identity; the position is tracked with an option (None = already passed) *)
Fixpoint unit_row (i : option nat) (n : nat) : list A :=
  match n with
  | O => []
  | S n' =>
      match i with
      | Some O => o1 K :: unit_row None n'
      | Some (S i') => o0 K :: unit_row (Some i') n'
      | None => o0 K :: unit_row None n'
      end
  end.

Definition ident (n : nat) : list (list A) :=
  map (fun i => unit_row (Some i) n) (seq 0 n).

Fixpoint remove_nth (j : nat) (l : list A) : list A :=
  match l with
  | [] => []
  | x :: l' => match j with O => l' | S j' => x :: remove_nth j' l' end
  end.

(* alternating sum  sum_j (-1)^j r_j * f j  *)
Fixpoint altsum (r : list A) (j : nat) (neg : bool) (f : nat -> A) : A :=
  match r with
  | [] => o0 K
  | x :: r' =>
      let t := omul K x (f j) in
      oadd K (if neg then oopp K t else t) (altsum r' (S j) (negb neg) f)
  end.

(* determinant by Laplace expansion along the first row; n = dimension (fuel) *)
Fixpoint det (n : nat) (M : list (list A)) : A :=
  match n with
  | O => o1 K
  | S n' =>
      match M with
      | [] => o1 K
      | r :: rest => altsum r 0 false (fun j => det n' (map (remove_nth j) rest))
      end
  end.

End Generic.

(* ---- characteristic polynomial: det (X - M) over polynomials in X ---- *)
Section CharPoly.
Variables (A : Type) (K : Ops A).

Fixpoint cp_row (i : option nat) (r : list A) : list (list A) :=
  match r with
  | [] => []
  | a :: r' =>
      match i with
      | Some O => [oopp K a; o1 K] :: cp_row None r'
      | Some (S i') => [oopp K a] :: cp_row (Some i') r'
      | None => [oopp K a] :: cp_row None r'
      end
  end.

Fixpoint cp_rows (i : nat) (M : list (list A)) : list (list (list A)) :=
  match M with
  | [] => []
  | r :: M' => cp_row (Some i) r :: cp_rows (S i) M'
  end.

Definition charpoly (n : nat) (M : list (list A)) : list A :=
  det (poly_ops K) n (cp_rows 0 M).

End CharPoly.

(* ---- instances ---- *)
Definition Qops : Ops Q :=
  MkOps 0%Q 1%Q (fun a b => Qred (a + b)) (fun a b => Qred (a * b)) Qopp Qeq_bool.

(* ---- the checks, generic in the coefficient operations ---- *)
Fixpoint forall2b {X : Type} (f : X -> X -> bool) (a b : list X) : bool :=
  match a, b with
  | [], [] => true
  | x :: a', y :: b' => f x y && forall2b f a' b'
  | _, _ => false
  end.

Section Checks.
Variables (A : Type) (K : Ops A).
Let KP := poly_ops K.          (* polynomials in x: coefficient lists over A *)

Definition g_trunc (N : nat) (p : list A) : list A := firstn (S N) p.

Definition g_eqN_b (N : nat) (p q : list A) : bool := peqb K (g_trunc N p) (g_trunc N q).

Definition g_mx_eqN_b (N : nat) (M P : list (list (list A))) : bool :=
  forall2b (forall2b (g_eqN_b N)) M P.

(* premises of C04_charpoly_trunc *)
Definition g_prem_unitary (N n : nat) (U Ui : list (list (list A))) : bool :=
  g_mx_eqN_b N (mmul KP Ui U) (ident KP n).

Definition g_prem_similar (N : nat) (U Ui H Ht : list (list (list A))) : bool :=
  g_mx_eqN_b N (mmul KP (mmul KP Ui H) U) Ht.

(* conclusion: all n+1 coefficients (polynomials in x) agree modulo x^(N+1) *)
Fixpoint g_coefs_eqN_b (N : nat) (k : nat) (p q : list (list A)) : bool :=
  match k with
  | O => true
  | S k' => g_eqN_b N (hd [] p) (hd [] q) && g_coefs_eqN_b N k' (tl p) (tl q)
  end.

Definition g_concl_charpoly (N n : nat) (H Ht : list (list (list A))) : bool :=
  g_coefs_eqN_b N (S n) (charpoly KP n Ht) (charpoly KP n H).

End Checks.

(* ---- the instance used by the tie: rational coefficients ---- *)
Definition Qx := list Q.
Definition QxOps : Ops Qx := poly_ops Qops.

Definition trunc : nat -> Qx -> Qx := g_trunc (A:=Q).
Definition eqN_b : nat -> Qx -> Qx -> bool := g_eqN_b Qops.
Definition mx_eqN_b : nat -> list (list Qx) -> list (list Qx) -> bool := g_mx_eqN_b Qops.
Definition prem_unitary : nat -> nat -> list (list Qx) -> list (list Qx) -> bool :=
  g_prem_unitary Qops.
Definition prem_similar :
  nat -> list (list Qx) -> list (list Qx) -> list (list Qx) -> list (list Qx) -> bool :=
  g_prem_similar Qops.
Definition concl_charpoly : nat -> nat -> list (list Qx) -> list (list Qx) -> bool :=
  g_concl_charpoly Qops.

(* ---- self-tests: the first-order Schrieffer-Wolff example of CharPolyEx.v ---- *)
Local Open Scope Q_scope.
Definition t_U  : list (list Qx) := [[ [1]; [0; 1] ]; [ [0; -1 # 1]; [1] ]].
Definition t_Ui : list (list Qx) := [[ [1]; [0; -1 # 1] ]; [ [0; 1]; [1] ]].
Definition t_H  : list (list Qx) := [[ []; [0; 1] ]; [ [0; 1]; [1] ]].
Definition t_Ht : list (list Qx) := [[ []; [] ]; [ []; [1] ]].
Definition t_bad : list (list Qx) := [[ []; [] ]; [ []; [1; 1] ]].

Example exec_selftest :
  (prem_unitary 1 2 t_U t_Ui, prem_similar 1 t_U t_Ui t_H t_Ht, concl_charpoly 1 2 t_H t_Ht,
   (* negative controls: not exact at order 2; a wrong H_tilde is rejected *)
   prem_unitary 2 2 t_U t_Ui, prem_similar 1 t_U t_Ui t_H t_bad, concl_charpoly 1 2 t_H t_bad)
  = (true, true, true, false, false, false).
Proof. vm_compute. reflexivity. Qed.

(* char poly of [[0,x],[x,1]] is X^2 - X - x^2 *)
Example exec_charpoly_value :
  forall2b (eqN_b 5) (charpoly QxOps 2 t_H) [ [0; 0; -1 # 1]; [-1 # 1]; [1] ] = true.
Proof. vm_compute. reflexivity. Qed.

(* 3x3 determinant sanity: det [[2,0,1],[1,3,2],[1,1,1]] = 2*(3-2) - 0 + 1*(1-3) = 0;
   det [[2,0,1],[1,3,2],[1,1,4]] = 2*(12-2) + (1-3) = 18 *)
Example exec_det3 :
  (Qeq_bool (det Qops 3 [[2;0;1];[1;3;2];[1;1;1]]) 0,
   Qeq_bool (det Qops 3 [[2;0;1];[1;3;2];[1;1;4]]) 18) = (true, true).
Proof. vm_compute. reflexivity. Qed.
