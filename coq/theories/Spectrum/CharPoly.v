(* Spectrum/CharPoly.v  -  property C04.

   Characteristic polynomials under (truncated) similarity, MathComp style.

   Reading guide
   -------------
   * [charpoly_similar]   exact similarity over any commutative ring.
   * [ring_cong]          a ring congruence (equivalence compatible with sum, opposite, product),
                          i.e. "equality modulo an ideal"; [rc_det], [rc_horner]:
                          determinants and polynomial evaluation respect it.
   * [charpoly_cong]      the characteristic polynomial is invariant, modulo ANY ring
                          congruence, under a similarity that holds modulo that
                          congruence.  Only  Uinv * U == 1  is needed (not U * Uinv == 1).
   * [eqN N]              the congruence "equal modulo 'X^(N+1)" on {poly F}
                          (coefficients of index <= N agree); [eqNP] relates it to
                          divisibility of the difference by 'X^(N+1).
   * [charpoly_trunc]     the instance used by C04: one formal parameter x, matrices over
                          {poly F}, all hypotheses and the conclusion modulo x^(N+1).
   * [charpoly_blockdiag] char_poly (block_mx A 0 0 B) = char_poly A * char_poly B.
   * [rs_unique] & co.    Hensel-type uniqueness of a root with a prescribed simple
                          constant term: the Rayleigh-Schroedinger clause.

   Several parameters / "total order <= N"
   ---------------------------------------
   F is an ARBITRARY commutative ring.  For a Hamiltonian H(l_1..l_k) with coefficients
   in a field K take F := K[c_1..c_k] and substitute l_j := c_j * x.  A monomial
   l^n = l_1^n_1 ... l_k^n_k becomes c^n * x^|n|, so the coefficient of x^m of any
   polynomial expression in the l_j is the generating polynomial (in the c_j) of its
   coefficients of total order m; two expressions agree in all coefficients of total order
   <= N iff their images agree modulo x^(N+1) over F.  Hence the multi-parameter clause of
   C04 is the instance F = K[c] of [charpoly_trunc]; nothing about multivariate polynomials
   has to be formalised, and no narrower hypothesis is involved.  (Alternatively
   [charpoly_cong] can be instantiated directly with the congruence "equal up to total
   order N" of any multivariate polynomial ring.) *)

From mathcomp Require Import all_ssreflect all_algebra.
Set Implicit Arguments.
Unset Strict Implicit.
Unset Printing Implicit Defensive.
Import GRing.Theory.
Local Open Scope ring_scope.

(* ------------------------------------------------------------------------- *)
(* 1. Exact similarity                                                        *)

Section Similar.
Variable (F : comRingType) (n : nat).
Implicit Types U Ui H : 'M[F]_n.

Lemma charpoly_similar U Ui H :
  Ui *m U = 1%:M -> char_poly (Ui *m H *m U) = char_poly H.
Proof.
move=> UiU; rewrite /char_poly /char_poly_mx.
have mapUiU : map_mx (@polyC F) Ui *m map_mx (@polyC F) U = 1%:M.
  by rewrite -map_mxM UiU map_mx1.
have -> : 'X%:M - map_mx (@polyC F) (Ui *m H *m U)
        = map_mx (@polyC F) Ui *m ('X%:M - map_mx (@polyC F) H) *m map_mx (@polyC F) U.
  rewrite !map_mxM mulmxBr mulmxBl; congr (_ - _).
  by rewrite -scalemx1 -scalemxAr -scalemxAl mulmx1 mapUiU scalemx1.
by rewrite !det_mulmx mulrAC -det_mulmx mapUiU det1 mul1r.
Qed.

(* for square matrices over a commutative ring a left inverse is a right inverse *)
Lemma left_inverse_right U Ui : Ui *m U = 1%:M -> U *m Ui = 1%:M.
Proof. exact: mulmx1C. Qed.

End Similar.

(* ------------------------------------------------------------------------- *)
(* 2. Ring congruences                                                        *)

Record ring_cong (R : ringType) := RingCong {
  rc_rel :> R -> R -> Prop;
  rc_refl : forall a, rc_rel a a;
  rc_sym : forall a b, rc_rel a b -> rc_rel b a;
  rc_trans : forall a b c, rc_rel a b -> rc_rel b c -> rc_rel a c;
  rc_add : forall a a' b b', rc_rel a a' -> rc_rel b b' -> rc_rel (a + b) (a' + b');
  rc_opp : forall a a', rc_rel a a' -> rc_rel (- a) (- a');
  rc_mul : forall a a' b b', rc_rel a a' -> rc_rel b b' -> rc_rel (a * b) (a' * b')
}.

Section CongTheory.
Variables (R : ringType) (E : ring_cong R).

Lemma rc_eq a b : a = b -> E a b.
Proof. by move=> ->; apply: rc_refl. Qed.

Lemma rc_sub a a' b b' : E a a' -> E b b' -> E (a - b) (a' - b').
Proof. by move=> ha hb; apply: rc_add => //; apply: rc_opp. Qed.

Lemma rc_sum I (r : seq I) (P : pred I) (f g : I -> R) :
  (forall i, P i -> E (f i) (g i)) ->
  E (\sum_(i <- r | P i) f i) (\sum_(i <- r | P i) g i).
Proof.
move=> h; elim/big_rec2: _ => [|i x y Pi exy]; first exact: rc_refl.
by apply: rc_add => //; apply: h.
Qed.

Lemma rc_prod I (r : seq I) (P : pred I) (f g : I -> R) :
  (forall i, P i -> E (f i) (g i)) ->
  E (\prod_(i <- r | P i) f i) (\prod_(i <- r | P i) g i).
Proof.
move=> h; elim/big_rec2: _ => [|i x y Pi exy]; first exact: rc_refl.
by apply: rc_mul => //; apply: h.
Qed.

Lemma rc_exp a b k : E a b -> E (a ^+ k) (b ^+ k).
Proof.
move=> h; elim: k => [|k IH]; first by rewrite !expr0; apply: rc_refl.
by rewrite !exprS; apply: rc_mul.
Qed.

(* entry-wise congruence of matrices *)
Definition mx_cong m n (A B : 'M[R]_(m, n)) := forall i j, E (A i j) (B i j).

Lemma mx_cong_refl m n (A : 'M[R]_(m, n)) : mx_cong A A.
Proof. by move=> i j; apply: rc_refl. Qed.

Lemma mx_cong_sym m n (A B : 'M[R]_(m, n)) : mx_cong A B -> mx_cong B A.
Proof. by move=> h i j; apply: rc_sym. Qed.

Lemma mx_cong_trans m n (A B C : 'M[R]_(m, n)) :
  mx_cong A B -> mx_cong B C -> mx_cong A C.
Proof. by move=> h1 h2 i j; apply: rc_trans (h1 i j) (h2 i j). Qed.

Lemma mx_cong_mul m n p (A A' : 'M[R]_(m, n)) (B B' : 'M[R]_(n, p)) :
  mx_cong A A' -> mx_cong B B' -> mx_cong (A *m B) (A' *m B').
Proof.
by move=> hA hB i j; rewrite !mxE; apply: rc_sum => k _; apply: rc_mul.
Qed.

Lemma mx_cong_add m n (A A' B B' : 'M[R]_(m, n)) :
  mx_cong A A' -> mx_cong B B' -> mx_cong (A + B) (A' + B').
Proof. by move=> hA hB i j; rewrite !mxE; apply: rc_add. Qed.

(* coefficient-wise congruence of polynomials: again a ring congruence *)
Definition poly_rel (p q : {poly R}) := forall k, E p`_k q`_k.

Lemma poly_rel_mul p p' q q' :
  poly_rel p p' -> poly_rel q q' -> poly_rel (p * q) (p' * q').
Proof.
by move=> hp hq k; rewrite !coefM; apply: rc_sum => j _; apply: rc_mul.
Qed.

Definition poly_cong : ring_cong [ringType of {poly R}].
Proof.
exists poly_rel.
- by move=> p k; apply: rc_refl.
- by move=> p q h k; apply: rc_sym.
- by move=> p q r h1 h2 k; apply: rc_trans (h1 k) (h2 k).
- by move=> p p' q q' hp hq k; rewrite !coefD; apply: rc_add.
- by move=> p p' hp k; rewrite !coefN; apply: rc_opp.
- exact: poly_rel_mul.
Defined.

Lemma poly_rel_C a b : E a b -> poly_rel a%:P b%:P.
Proof. by move=> h k; rewrite !coefC; case: eqP => _ //; apply: rc_refl. Qed.

(* evaluation respects the congruence *)
Lemma rc_horner p q x y : poly_rel p q -> E x y -> E p.[x] q.[y].
Proof.
move=> hpq hxy.
rewrite (@horner_coef_wide _ (maxn (size p) (size q)) p) ?leq_maxl //.
rewrite (@horner_coef_wide _ (maxn (size p) (size q)) q) ?leq_maxr //.
by apply: rc_sum => i _; apply: rc_mul => //; apply: rc_exp.
Qed.

End CongTheory.

Arguments mx_cong {R} E {m n} A B.
Arguments poly_rel {R} E p q.

Section CongDet.
Variables (R : comRingType) (E : ring_cong R).

Lemma rc_det n (A B : 'M[R]_n) : mx_cong E A B -> E (\det A) (\det B).
Proof.
move=> h; rewrite /determinant; apply: rc_sum => s _; apply: rc_mul.
  exact: rc_refl.
by apply: rc_prod => i _; apply: h.
Qed.

End CongDet.

Section CongCharPoly.
Variables (R : comRingType) (E : ring_cong R).

Let PE := poly_cong E.
Let C n (A : 'M[R]_n) : 'M[{poly R}]_n := map_mx (@polyC R) A.

Lemma mx_cong_C n (A B : 'M[R]_n) : mx_cong E A B -> mx_cong PE (C A) (C B).
Proof. by move=> h i j; rewrite !mxE; apply: poly_rel_C. Qed.

Lemma char_poly_mx_cong n (A B : 'M[R]_n) :
  mx_cong E A B -> mx_cong PE (char_poly_mx A) (char_poly_mx B).
Proof.
move=> h i j; rewrite /char_poly_mx !mxE; apply: rc_sub; first exact: rc_refl.
exact: poly_rel_C.
Qed.

Lemma char_poly_cong_mx n (A B : 'M[R]_n) :
  mx_cong E A B -> poly_rel E (char_poly A) (char_poly B).
Proof. by move=> h; apply: (@rc_det _ PE); apply: char_poly_mx_cong. Qed.

(* The characteristic polynomial is invariant, modulo the congruence, under a
   similarity that holds modulo the congruence. *)
Theorem charpoly_cong n (U Ui H Ht : 'M[R]_n) :
  mx_cong E (Ui *m U) 1%:M ->
  mx_cong E (Ui *m H *m U) Ht ->
  poly_rel E (char_poly Ht) (char_poly H).
Proof.
move=> hU hH.
(* step 1: replace Ht by Ui H U *)
apply: (@rc_trans _ PE _ (char_poly (Ui *m H *m U))).
  by apply: char_poly_cong_mx; apply: mx_cong_sym.
(* step 2: X - C(Ui H U) == C Ui (X - C H) C U entry-wise *)
have h2 : mx_cong PE (char_poly_mx (Ui *m H *m U))
                     (C Ui *m char_poly_mx H *m C U).
  have -> : C Ui *m char_poly_mx H *m C U
          = 'X *: C (Ui *m U) - C (Ui *m H *m U).
    rewrite /char_poly_mx /C !map_mxM mulmxBr mulmxBl; congr (_ - _).
    by rewrite -scalemx1 -scalemxAr -scalemxAl mulmx1.
  move=> i j; rewrite /char_poly_mx !mxE; apply: (@rc_sub _ PE); last exact: rc_refl.
  have -> : ('X : {poly R}) *+ (i == j) = 'X * ((1%:M : 'M[R]_n) i j)%:P.
    by rewrite !mxE; case: (i == j); rewrite ?mulr1n ?mulr0n ?mulr1 ?mulr0.
  apply: (@rc_mul _ PE); first exact: rc_refl.
  apply: poly_rel_C; apply: rc_sym.
  by have := hU i j; rewrite [(Ui *m U) i j]mxE.
apply: (@rc_trans _ PE _ (\det (C Ui *m char_poly_mx H *m C U))).
  exact: (@rc_det _ PE).
(* step 3: det is multiplicative, det (C (Ui U)) == 1 *)
rewrite !det_mulmx mulrAC -det_mulmx -[X in PE _ X]mul1r.
apply: (@rc_mul _ PE); last exact: rc_refl.
rewrite /C -map_mxM -(det1 _ n) -(map_mx1 (polyC_rmorphism R)).
by apply: (@rc_det _ PE); apply: mx_cong_C.
Qed.

End CongCharPoly.

(* ------------------------------------------------------------------------- *)
(* 3. Truncation modulo 'X^(N+1)                                              *)

Section Trunc.
Variable F : comRingType.

Definition eqN (N : nat) (p q : {poly F}) :=
  forall i, (i <= N)%N -> p`_i = q`_i.

Lemma eqN_mul N p p' q q' : eqN N p p' -> eqN N q q' -> eqN N (p * q) (p' * q').
Proof.
move=> hp hq i iN; rewrite !coefM; apply: eq_bigr => j _.
rewrite hp ?hq //; first exact: leq_trans (leq_subr _ _) iN.
by apply: leq_trans iN; rewrite -ltnS.
Qed.

Definition eqN_cong (N : nat) : ring_cong [ringType of {poly F}].
Proof.
exists (eqN N).
- by move=> p i _.
- by move=> p q h i iN; rewrite h.
- by move=> p q r h1 h2 i iN; rewrite h1 ?h2.
- by move=> p p' q q' hp hq i iN; rewrite !coefD hp ?hq.
- by move=> p p' hp i iN; rewrite !coefN hp.
- exact: eqN_mul.
Defined.

(* the congruence is "the difference is a multiple of 'X^(N+1)" *)
Lemma eqNP N p q : eqN N p q <-> exists r, p = q + r * 'X^N.+1.
Proof.
split=> [h|[r ->] i iN]; last first.
  by rewrite coefD coefMXn ltnS iN addr0.
exists (\poly_(i < size (p - q)) (p - q)`_(i + N.+1)).
apply/polyP => i; rewrite coefD coefMXn ltnS.
case: leqP => [iN|Ni]; first by rewrite addr0; apply: h.
rewrite coef_poly subnK //; case: ltnP => [_|le]; first by rewrite coefB addrC subrK.
have /eqP : (p - q)`_i = 0.
  by apply: nth_default; apply: leq_trans le (leq_subr _ _).
by rewrite coefB subr_eq0 addr0 => /eqP.
Qed.

Lemma eqN_le N M p q : (M <= N)%N -> eqN N p q -> eqN M p q.
Proof. by move=> MN h i iM; apply: h; apply: leq_trans iM MN. Qed.

(* The C04 statement for one formal parameter (see the header for several). *)
Theorem charpoly_trunc N n (U Ui H Ht : 'M[{poly F}]_n) :
  (forall i j, eqN N ((Ui *m U) i j) ((1%:M : 'M_n) i j)) ->
  (forall i j, eqN N ((Ui *m H *m U) i j) (Ht i j)) ->
  forall k, eqN N (char_poly Ht)`_k (char_poly H)`_k.
Proof. exact: (@charpoly_cong _ (eqN_cong N)). Qed.

(* the same, with every congruence unfolded to coefficients *)
Corollary charpoly_trunc_coef N n (U Ui H Ht : 'M[{poly F}]_n) :
  (forall i j m, (m <= N)%N -> ((Ui *m U) i j)`_m = ((1%:M : 'M[{poly F}]_n) i j)`_m) ->
  (forall i j m, (m <= N)%N -> ((Ui *m H *m U) i j)`_m = (Ht i j)`_m) ->
  forall k m, (m <= N)%N -> (char_poly Ht)`_k`_m = (char_poly H)`_k`_m.
Proof. by move=> h1 h2 k m; apply: (@charpoly_trunc N n U Ui H Ht). Qed.

End Trunc.

(* ------------------------------------------------------------------------- *)
(* 4. Block-diagonal matrices                                                 *)

Section BlockDiag.
Variable R : comRingType.

Lemma charpoly_blockdiag n1 n2 (A : 'M[R]_n1) (B : 'M[R]_n2) :
  char_poly (block_mx A 0 0 B) = char_poly A * char_poly B.
Proof. by rewrite /char_poly char_block_diag_mx det_ublock. Qed.

Lemma charpoly_diag n (d : 'rV[R]_n) :
  char_poly (diag_mx d) = \prod_i ('X - (d 0 i)%:P).
Proof.
rewrite char_poly_trig ?diag_mx_is_trig //.
by apply: eq_bigr => i _; rewrite mxE eqxx.
Qed.

(* any number of blocks: a sequence of square matrices of arbitrary sizes *)
Definition sqmx := {n : nat & 'M[R]_n}.

Fixpoint bd_size (s : seq sqmx) : nat :=
  if s is b :: s' then (tag b + bd_size s')%N else 0%N.

Fixpoint bd_mx (s : seq sqmx) : 'M[R]_(bd_size s) :=
  if s is b :: s' return 'M[R]_(bd_size s)
  then block_mx (tagged b) 0 0 (bd_mx s') else 0.

Lemma charpoly_blockdiag_seq (s : seq sqmx) :
  char_poly (bd_mx s) = \prod_(b <- s) char_poly (tagged b).
Proof.
elim: s => [|b s IH] /=.
  by rewrite big_nil /char_poly det_mx00.
by rewrite big_cons charpoly_blockdiag IH.
Qed.

End BlockDiag.

(* ------------------------------------------------------------------------- *)
(* 5. Rayleigh-Schroedinger clause: a root with a simple constant term is      *)
(*    unique modulo 'X^(N+1).                                                  *)

Section RS.
Variable F : idomainType.
Implicit Types (p q : {poly {poly F}}) (d e a b : {poly F}).

Local Notation "p ==[ N ] q" := (poly_rel (eqN_cong F N) p q) (at level 70).

(* a factor with non-zero constant term can be cancelled modulo 'X^(N+1)
   (it is a unit of F[[x]] when F is a field; over a domain it is at least regular) *)
Lemma eqN_mul_cancel N a b : a`_0 != 0 -> eqN N (a * b) 0 -> eqN N b 0.
Proof.
move=> a0 h; elim/ltn_ind => i IH iN; rewrite coef0.
have := h i iN; rewrite coefM coef0 big_ord_recl /= subn0 big1 => [|j _].
  by rewrite addr0 => /eqP; rewrite mulf_eq0 (negbTE a0) /= => /eqP.
rewrite /bump /= add1n IH ?coef0 ?mulr0 //; first by rewrite subnSK ?leq_subr.
by apply: leq_trans iN; apply: leq_subr.
Qed.

(* every d with p == ('X - d) * q is a root of p *)
Lemma rs_root N p q d : p ==[N] (('X - d%:P) * q) -> eqN N p.[d] 0.
Proof.
move=> hp.
have := @rc_horner _ (eqN_cong F N) _ _ d d hp (rc_refl _ _).
by rewrite hornerM hornerXsubC subrr mul0r.
Qed.

(* ... and the only one with that constant term, if it is a simple root at order 0 *)
Lemma rs_unique_factor N p q d e :
  p ==[N] (('X - d%:P) * q) ->
  eqN N p.[e] 0 -> (q.[e])`_0 != 0 -> eqN N e d.
Proof.
move=> hp he hq.
have h1 := @rc_horner _ (eqN_cong F N) _ _ e e hp (rc_refl _ _).
have h2 : eqN N (q.[e] * (e - d)) 0.
  move=> i iN; rewrite mulrC -[RHS](he i iN).
  by rewrite (h1 i iN) hornerM hornerXsubC.
have h3 := eqN_mul_cancel hq h2.
by move=> i iN; apply/eqP; rewrite -subr_eq0 -coefB h3 ?coef0.
Qed.

Lemma coef0_prod_horner (I : finType) (P : pred I) (f : I -> {poly F}) :
  (\prod_(i | P i) f i)`_0 = \prod_(i | P i) (f i)`_0.
Proof.
rewrite -horner_coef0 horner_prod; apply: eq_bigr => i _.
by rewrite horner_coef0.
Qed.

(* fully split case: p == prod_j ('X - d_j), the d_j(0) pairwise distinct from d_i(0) *)
Theorem rs_unique N n (d : 'I_n -> {poly F}) p (i : 'I_n) e :
  p ==[N] (\prod_j ('X - (d j)%:P)) ->
  (forall j, j != i -> (d j)`_0 != (d i)`_0) ->
  eqN N p.[e] 0 -> e`_0 = (d i)`_0 -> eqN N e (d i).
Proof.
move=> hp hd he e0; rewrite (bigD1 i) //= in hp.
apply: (rs_unique_factor hp he).
rewrite horner_prod coef0_prod_horner; apply/prodf_neq0 => j ji.
by rewrite hornerXsubC coefB e0 subr_eq0 eq_sym; apply: hd.
Qed.

Theorem rs_roots N n (d : 'I_n -> {poly F}) p (i : 'I_n) :
  p ==[N] (\prod_j ('X - (d j)%:P)) -> eqN N p.[d i] 0.
Proof. by move=> hp; rewrite (bigD1 i) //= in hp; apply: rs_root hp. Qed.

(* End to end: H is similar modulo x^(N+1) to  diag(d) (+) B  (a fully diagonalised
   block next to an arbitrary rest).  Then every d_i is an eigenvalue series of H to
   order N, and it is the only one with constant term d_i(0) provided that level is
   non-degenerate at order 0 (different from the other d_j(0) and not an eigenvalue of
   B at order 0). *)
Theorem rs_diag_block N n1 n2 (U Ui H : 'M[{poly F}]_(n1 + n2))
    (d : 'rV[{poly F}]_n1) (B : 'M[{poly F}]_n2) :
  mx_cong (eqN_cong F N) (Ui *m U) 1%:M ->
  mx_cong (eqN_cong F N) (Ui *m H *m U) (block_mx (diag_mx d) 0 0 B) ->
  forall i : 'I_n1,
    eqN N (char_poly H).[d 0 i] 0
    /\ forall e, eqN N (char_poly H).[e] 0 -> e`_0 = (d 0 i)`_0 ->
         (forall j, j != i -> (d 0 j)`_0 != (d 0 i)`_0) ->
         ((char_poly B).[e])`_0 != 0 ->
         eqN N e (d 0 i).
Proof.
move=> hU hH i.
have hp : char_poly H ==[N]
          (('X - (d 0 i)%:P) * (\prod_(j | j != i) ('X - (d 0 j)%:P) * char_poly B)).
  have := charpoly_cong hU hH; rewrite charpoly_blockdiag charpoly_diag.
  by rewrite (bigD1 i) //= -mulrA => h; apply: (@rc_sym _ (poly_cong _)).
split; first exact: rs_root hp.
move=> e he e0 hd hB; apply: (rs_unique_factor hp he).
rewrite hornerM -horner_coef0 hornerM !horner_coef0 mulf_neq0 //.
rewrite horner_prod coef0_prod_horner; apply/prodf_neq0 => j ji.
by rewrite hornerXsubC coefB e0 subr_eq0 eq_sym; apply: hd.
Qed.

End RS.
