(* PySeries/GetItem.v

   Model of BlockSeries.__getitem__ (pymablock/series.py lines 138-213, as repaired
   by the fix commits 2831e55, 8db8abe, d2650ea), on top of Cache.v (element cache)
   and Index.v (specification of NumPy indexing):

     item tuple-ised;
     finite-only item and n_infinite > 0  ->  a VIEW BlockSeries is returned
        all integers:  eval = lambda *index: self[item + index]
        otherwise:     packed = BlockSeries(eval = lambda *index:
                           self[item + tuple(slice(o, o + 1) for o in index)]
                               .filled(zero)[(..., *(0,) * n_infinite)])
                       view eval = lambda *index: packed[index[-n_inf:]][index[:-n_inf]]
                       view shape = np.empty(self.shape)[item].shape
     _check_finite(item[n_finite:])      IndexError: slice stop None, negative slice
                                         start / stop, negative integer or list order
     _check_number_perturbations(item)   IndexError: wrong number of indices
     trial_shape = shape + (order.stop | max(order, initial=0) + 1 for the orders)
     trial = zeros(trial_shape); one_entry = isscalar(trial[item]); trial[item] = 1
     for index in zip( *np.where(trial)):  (row-major = sorted)  evaluate through the cache
     result = trial[item]; masked where `is zero` unless one_entry

   Stored values are `bval`: an element, or (for the hidden `packed` series) an array
   of elements.  Exception tags are `pyerr` of Sentinel.v.
*)

Require Import List ZArith Arith Bool Lia.
Import ListNotations.
Require Import PV.PySeries.Sentinel PV.PySeries.Cache PV.PySeries.Index.

Set Implicit Arguments.

Record bshead : Type := mkBS { fshape : list nat; bninf : nat }.

Definition exn_of_ixerr (e : ixerr) : exn pyerr :=
  match e with
  | EIndex => IndexError
  | EValue => Other ValueError
  | EType => Other TypeError
  end.

(* _check_finite raises IndexError for this order *)
Definition order_bad (o : ix) : bool :=
  match o with
  | ISlice start stop _ =>
      match stop with
      | None => true
      | Some sp =>
          (match start with Some st => Z.ltb st 0 | None => false end) || Z.ltb sp 0
      end
  | IInt z => Z.ltb z 0
  | IList l => existsb (fun z => Z.ltb z 0) l
  end.

(* order.stop  |  np.max(order, initial=0) + 1 *)
Definition order_extent (o : ix) : ixres nat :=
  match o with
  | ISlice _ (Some sp) _ => IOk (Z.to_nat sp)
  | ISlice _ None _ => IErr EIndex
  | IInt z => IOk (Z.to_nat z + 1)
  | IList [] => IErr EType                 (* np.max([]) is a float: np.zeros raises TypeError *)
  | IList l => IOk (Z.to_nat (fold_right Z.max 0%Z l) + 1)
  end.

Fixpoint extents (orders : list ix) : ixres (list nat) :=
  match orders with
  | [] => IOk []
  | o :: r =>
      match order_extent o, extents r with
      | IOk e, IOk es => IOk (e :: es)
      | IErr e, _ => IErr e
      | _, IErr e => IErr e
      end
  end.

Section GetItem.
  Variable X : Type.                (* element values *)
  Variable xzero : X -> bool.       (* `x is zero` *)
  Variable xdefault : X.            (* never used on reachable paths *)

  Inductive bval : Type :=
  | BElem (x : X)
  | BArr (shape : list nat) (vals : list X).

  Definition bzero (v : bval) : bool := match v with BElem x => xzero x | BArr _ _ => false end.

  Definition bworld := world bval.
  Definition bresult := res pyerr bval.
  Definition bcallback := callback bval pyerr.

  (* what series[item] returns *)
  Inductive bsres : Type :=
  | RScalar (v : bval)                              (* one entry *)
  | RArray (shape : list nat) (vals : list bval).   (* masked array; mask = map bzero vals *)

  Definition result_mask (r : bsres) : list bool :=
    match r with RScalar _ => [] | RArray _ vals => map bzero vals end.

  (* evaluate the marked positions, in the given order, through the element cache *)
  Fixpoint eval_positions (g : bcallback) (s : sid) (ps : list index) (w : bworld)
    : res pyerr (list (index * bval)) * bworld :=
    match ps with
    | [] => (Ok [], w)
    | p :: r =>
        match g s p w with
        | (Ok v, w1) =>
            match eval_positions g s r w1 with
            | (Ok l, w2) => (Ok ((p, v) :: l), w2)
            | (Raise x, w2) => (Raise x, w2)
            | (OutOfFuel, w2) => (OutOfFuel, w2)
            end
        | (Raise x, w1) => (Raise x, w1)
        | (OutOfFuel, w1) => (OutOfFuel, w1)
        end
    end.

  Fixpoint lookup_eval (l : list (index * bval)) (p : index) : option bval :=
    match l with
    | [] => None
    | (q, v) :: r => if index_eqb q p then Some v else lookup_eval r p
    end.

  Definition value_at (l : list (index * bval)) (p : index) : bval :=
    match lookup_eval l p with Some v => v | None => BElem xdefault end.

  Definition hd_default (l : list bval) : bval :=
    match l with v :: _ => v | [] => BElem xdefault end.

  (* the part of __getitem__ after the view branch *)
  Definition bs_getitem_full (g : bcallback) (hd : bshead) (s : sid) (item : list ix) (w : bworld)
    : res pyerr bsres * bworld :=
    let nf := length (fshape hd) in
    let orders := skipn nf item in
    if existsb order_bad orders then (Raise IndexError, w)
    else if negb (Nat.eqb (length item) (nf + bninf hd)) then (Raise IndexError, w)
    else
      match extents orders with
      | IErr e => (Raise (exn_of_ixerr e), w)
      | IOk ext =>
          let tshape := fshape hd ++ ext in
          match np_index tshape item with
          | IErr e => (Raise (exn_of_ixerr e), w)
          | IOk (shp, poss) =>
              match eval_positions g s (sort_uniq poss) w with
              | (Ok evald, w') =>
                  let vals := map (value_at evald) poss in
                  (Ok (if np_scalar tshape item
                       then RScalar (hd_default vals)
                       else RArray shp vals), w')
              | (Raise x, w') => (Raise x, w')
              | (OutOfFuel, w') => (OutOfFuel, w')
              end
          end
      end.

  (* ---- the series of a world ------------------------------------------- *)

  Inductive action : Type :=
  | AVal (x : X)                    (* return x *)
  | ARaise (e : exn pyerr)          (* raise *)
  | AGet (s : sid) (i : index).     (* return other_series[i]  (i non-negative, in bounds) *)

  Inductive bdesc : Type :=
  | BTable (h : bshead) (tbl : index -> action)
  | BViewInt (h : bshead) (parent : sid) (item : list Z)
  | BPacked (h : bshead) (parent : sid) (item : list ix)
  | BViewArr (h : bshead) (packed : sid).

  Definition bhead (d : bdesc) : bshead :=
    match d with
    | BTable h _ => h | BViewInt h _ _ => h | BPacked h _ _ => h | BViewArr h _ => h
    end.

  Definition bhead_at (descs : list bdesc) (s : sid) : bshead :=
    match nth_error descs s with Some d => bhead d | None => mkBS [] 0 end.

  Fixpoint elems_of (vals : list bval) : option (list X) :=
    match vals with
    | [] => Some []
    | BElem x :: r => match elems_of r with Some xs => Some (x :: xs) | None => None end
    | BArr _ _ :: _ => None
    end.

  (* row-major offset of an in-bounds position *)
  Fixpoint offset (shape : list nat) (pos : list nat) (acc : nat) : nat :=
    match shape, pos with
    | d :: sh, p :: ps => offset sh ps (acc * d + p)
    | _, _ => acc
    end.

  Definition order_slice (o : nat) : ix :=
    ISlice (Some (Z.of_nat o)) (Some (Z.of_nat o + 1)%Z) None.

  Definition bs_eval (descs : list bdesc) : evalT bval pyerr :=
    fun s g i w =>
      match nth_error descs s with
      | None => (Raise IndexError, w)
      | Some (BTable _ tbl) =>
          match tbl i with
          | AVal x => (Ok (BElem x), w)
          | ARaise e => (Raise e, w)
          | AGet s' i' => g s' i' w
          end
      | Some (BViewInt _ p item) =>
          (* self[item + index] *)
          match bs_getitem_full g (bhead_at descs p) p
                                (map IInt item ++ map (fun n => IInt (Z.of_nat n)) i) w with
          | (Ok (RScalar v), w') => (Ok v, w')
          | (Ok (RArray _ _), w') => (Raise (Other TypeError), w')       (* unreachable *)
          | (Raise x, w') => (Raise x, w')
          | (OutOfFuel, w') => (OutOfFuel, w')
          end
      | Some (BPacked _ p item) =>
          (* self[item + slices(o, o+1)].filled(zero)[(..., 0, ..., 0)] *)
          match bs_getitem_full g (bhead_at descs p) p (item ++ map order_slice i) w with
          | (Ok (RArray shp vals), w') =>
              match elems_of vals with
              | Some xs => (Ok (BArr (firstn (length shp - length i) shp) xs), w')
              | None => (Raise (Other TypeError), w')                    (* unreachable *)
              end
          | (Ok (RScalar _), w') => (Raise (Other TypeError), w')        (* unreachable *)
          | (Raise x, w') => (Raise x, w')
          | (OutOfFuel, w') => (OutOfFuel, w')
          end
      | Some (BViewArr h q) =>
          (* packed[index[-n_inf:]][index[:-n_inf]] *)
          let nfin := length i - bninf h in
          match g q (skipn nfin i) w with
          | (Ok (BArr shp xs), w') => (Ok (BElem (nth (offset shp (firstn nfin i) 0) xs xdefault)), w')
          | (Ok (BElem _), w') => (Raise (Other TypeError), w')          (* unreachable *)
          | (Raise x, w') => (Raise x, w')
          | (OutOfFuel, w') => (OutOfFuel, w')
          end
      end.

  (* ---- user-level requests --------------------------------------------- *)

  Inductive bobs : Type :=
  | OScalar (v : bval)
  | OArray (shape : list nat) (vals : list bval) (mask : list bool)
  | OView (s : sid) (shape : list nat)          (* a new BlockSeries, registered as series s *)
  | OExc (e : exn pyerr)
  | OFuel
  | OContains (b : bool)
  | OPopped (e : option (entry bval)).

  Inductive breq : Type :=
  | QGet (s : sid) (item : list ix)
  | QHas (s : sid) (i : index)
  | QPop (s : sid) (i : index).

  Definition bs_request (fuel : nat) (descs : list bdesc) (q : breq) (w : bworld)
    : bobs * list bdesc * bworld :=
    match q with
    | QHas s i => (OContains (wcontains bzero w s i), descs, w)
    | QPop s i => let (e, w') := pop s i w in (OPopped e, descs, w')
    | QGet s item =>
        let hd := bhead_at descs s in
        if Nat.eqb (length item) (length (fshape hd)) && Nat.ltb 0 (bninf hd) then
          (* the view branch *)
          if forallb is_int item then
            let ints := flat_map (fun i => match i with IInt z => [z] | _ => [] end) item in
            (OView (length descs) [], descs ++ [BViewInt (mkBS [] (bninf hd)) s ints], w)
          else
            match np_index (fshape hd) item with
            | IErr e => (OExc (exn_of_ixerr e), descs, w)
            | IOk (vshape, _) =>
                (OView (S (length descs)) vshape,
                 descs ++ [BPacked (mkBS [] (bninf hd)) s item;
                           BViewArr (mkBS vshape (bninf hd)) (length descs)], w)
            end
        else
          match bs_getitem_full (getitem (bs_eval descs) fuel) hd s item w with
          | (Ok (RScalar v), w') => (OScalar v, descs, w')
          | (Ok (RArray shp vals), w') => (OArray shp vals (map bzero vals), descs, w')
          | (Raise x, w') => (OExc x, descs, w')
          | (OutOfFuel, w') => (OFuel, descs, w')
          end
    end.

  Fixpoint bs_script (fuel : nat) (descs : list bdesc) (qs : list breq) (w : bworld)
    : list bobs * list bdesc * bworld :=
    match qs with
    | [] => ([], descs, w)
    | q :: rest =>
        match bs_request fuel descs q w with
        | (o, descs1, w1) =>
            match bs_script fuel descs1 rest w1 with
            | (os, descs2, w2) => (o :: os, descs2, w2)
            end
        end
    end.

End GetItem.

Arguments BElem {X} x.
Arguments BArr {X} shape vals.
Arguments RScalar {X} v.
Arguments RArray {X} shape vals.
Arguments AVal {X} x.
Arguments ARaise {X} e.
Arguments AGet {X} s i.
Arguments BTable {X} h tbl.
Arguments BViewInt {X} h parent item.
Arguments BPacked {X} h parent item.
Arguments BViewArr {X} h packed.
Arguments OScalar {X} v.
Arguments OArray {X} shape vals mask.
Arguments OView {X} s shape.
Arguments OExc {X} e.
Arguments OFuel {X}.
Arguments OContains {X} b.
Arguments OPopped {X} e.
