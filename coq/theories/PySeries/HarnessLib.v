(* PySeries/HarnessLib.v

   Executable glue for the correspondence harnesses k_cauchydot / k_getitem:
   the concrete value domain (2x2 matrices of Gaussian integers: exact and
   non-commutative), boolean equalities, and `check_*` functions that run the
   models of Cache.v / CauchyDot.v on a script and compare with the observations
   made on the implementation.  Nothing here is used by the theorems.
*)

Require Import List ZArith Bool Arith.
Import ListNotations.
Require Import PV.PySeries.Sentinel PV.PySeries.Cache PV.PySeries.ProductByOrder
        PV.PySeries.CauchyDot.

Set Implicit Arguments.
Local Open Scope Z_scope.

(* Gaussian integers and 2x2 matrices over them *)
Definition gz := (Z * Z)%type.
Definition gadd (x y : gz) : gz := (fst x + fst y, snd x + snd y).
Definition gmul (x y : gz) : gz := (fst x * fst y - snd x * snd y, fst x * snd y + snd x * fst y).
Definition gconj (x : gz) : gz := (fst x, - snd x).
Definition geqb (x y : gz) : bool := Z.eqb (fst x) (fst y) && Z.eqb (snd x) (snd y).

Record m2 : Type := M2 { m00 : gz; m01 : gz; m10 : gz; m11 : gz }.
Definition m2add (x y : m2) : m2 :=
  M2 (gadd (m00 x) (m00 y)) (gadd (m01 x) (m01 y)) (gadd (m10 x) (m10 y)) (gadd (m11 x) (m11 y)).
Definition m2mul (x y : m2) : m2 :=
  M2 (gadd (gmul (m00 x) (m00 y)) (gmul (m01 x) (m10 y)))
     (gadd (gmul (m00 x) (m01 y)) (gmul (m01 x) (m11 y)))
     (gadd (gmul (m10 x) (m00 y)) (gmul (m11 x) (m10 y)))
     (gadd (gmul (m10 x) (m01 y)) (gmul (m11 x) (m11 y))).
Definition m2adj (x : m2) : m2 :=
  M2 (gconj (m00 x)) (gconj (m10 x)) (gconj (m01 x)) (gconj (m11 x)).
Definition m2eqb (x y : m2) : bool :=
  geqb (m00 x) (m00 y) && geqb (m01 x) (m01 y) && geqb (m10 x) (m10 y) && geqb (m11 x) (m11 y).

Section Eqb.
  Variable V : Type.
  Variable veqb : V -> V -> bool.

  Definition sval_eqb (x y : sval V) : bool :=
    match x, y with
    | SZero, SZero => true
    | SOne, SOne => true
    | SVal a, SVal b => veqb a b
    | _, _ => false
    end.
End Eqb.

Definition pyerr_eqb (x y : pyerr) : bool :=
  match x, y with
  | TypeError, TypeError => true
  | SympifyError, SympifyError => true
  | ValueError, ValueError => true
  | KeyboardInterrupt, KeyboardInterrupt => true
  | UserError a, UserError b => Nat.eqb a b
  | _, _ => false
  end.

Definition exn_eqb (x y : exn pyerr) : bool :=
  match x, y with
  | IndexError, IndexError => true
  | RuntimeError, RuntimeError => true
  | Other a, Other b => pyerr_eqb a b
  | _, _ => false
  end.

Section Obs.
  Variable V : Type.
  Variable veqb : V -> V -> bool.

  Definition res_eqb (x y : res pyerr V) : bool :=
    match x, y with
    | Ok a, Ok b => veqb a b
    | Raise a, Raise b => exn_eqb a b
    | _, _ => false                (* OutOfFuel never matches an observation *)
    end.

  Definition entry_eqb (x y : entry V) : bool :=
    match x, y with
    | Pending, Pending => true
    | Done a, Done b => veqb a b
    | _, _ => false
    end.

  Definition obs_eqb (x y : observation V pyerr) : bool :=
    match x, y with
    | OGet a, OGet b => res_eqb a b
    | OHas a, OHas b => Bool.eqb a b
    | OPop None, OPop None => true
    | OPop (Some a), OPop (Some b) => entry_eqb a b
    | _, _ => false
    end.

  Fixpoint list_eqb {A} (e : A -> A -> bool) (l1 l2 : list A) : bool :=
    match l1, l2 with
    | [], [] => true
    | a :: r1, b :: r2 => e a b && list_eqb e r1 r2
    | _, _ => false
    end.

  Definition call_eqb (x y : sid * index) : bool :=
    Nat.eqb (fst x) (fst y) && index_eqb (snd x) (snd y).

  (* same set of keys (both lists duplicate-free) *)
  Definition keyset_eqb (l1 l2 : list index) : bool :=
    Nat.eqb (length l1) (length l2)
    && forallb (fun k => existsb (index_eqb k) l2) l1.

  (* table given as association list, default for the rest *)
  Fixpoint table {A} (l : list (index * A)) (d : A) (i : index) : A :=
    match l with
    | [] => d
    | (k, a) :: r => if index_eqb k i then a else table r d i
    end.

  (* initial world: one association list of evaluated entries per series *)
  Definition init_world (data : list (list (index * V))) : world V :=
    mkWorld (fun s => map (fun p => (fst p, Done (snd p))) (nth s data [])) [].

End Obs.

(* ---- cauchy_dot_product ------------------------------------------------- *)

Definition sv := sval m2.
Definition sv_eqb : sv -> sv -> bool := sval_eqb m2eqb.

(* zero test used by __contains__ *)
Definition sv_is_zero (v : sv) : bool := is_zero v.

Definition run_script_sv ev fuel script w0 :=
  run_script (V:=sv) (E:=pyerr) sv_is_zero ev fuel script w0.

Definition check_run_sv (ev : evalT sv pyerr) (fuel : nat) (w0 : world sv)
           (script : list request)
           (exp_obs : list (observation sv pyerr))
           (log_sids : list sid)      (* series whose eval calls were observed *)
           (exp_calls : list (sid * index))
           (exp_keys : list (sid * list index)) : bool :=
  let (os, w) := run_script_sv ev fuel script w0 in
  list_eqb (obs_eqb sv_eqb) os exp_obs
  && list_eqb call_eqb
       (filter (fun c => existsb (Nat.eqb (fst c)) log_sids) (eval_calls w)) exp_calls
  && forallb (fun sk => keyset_eqb (keys (wcache w (fst sk))) (snd sk)) exp_keys.

(* base: descriptors of the factor series; the product is built by the model of
   cauchy_dot_product; its id must be `exp_sid` (None: ValueError expected) *)
Definition check_cdp (base : list (sdesc m2)) (factors : list sid) (herm : bool)
           (data : list (list (index * sv))) (fuel : nat)
           (script : list request)
           (exp_obs : list (observation sv pyerr))
           (log_sids : list sid)
           (exp_calls : list (sid * index))
           (exp_keys : list (sid * list index)) : bool :=
  match cauchy_dot_product base factors herm with
  | None => false
  | Some (descs, p) =>
      check_run_sv (cdp_eval m2add m2mul m2adj descs) fuel (init_world data)
                   script exp_obs log_sids exp_calls exp_keys
  end.

Definition check_cdp_valueerror (base : list (sdesc m2)) (factors : list sid) (herm : bool) : bool :=
  match cauchy_dot_product base factors herm with None => true | Some _ => false end.

Definition product_sid (base : list (sdesc m2)) (factors : list sid) (herm : bool) : nat :=
  match cauchy_dot_product base factors herm with None => 0%nat | Some (_, p) => p end.

(* ---- NumPy indexing spec and BlockSeries.__getitem__ -------------------- *)
Require Import PV.PySeries.Index PV.PySeries.GetItem.

Definition ixerr_eqb (a b : ixerr) : bool :=
  match a, b with
  | EIndex, EIndex => true | EValue, EValue => true | EType, EType => true
  | _, _ => false
  end.

Definition natlist_eqb (a b : list nat) : bool := list_eqb Nat.eqb a b.

Definition check_np_index (shape : list nat) (item : list ix)
           (expected : ixres (list nat * list (list nat))) : bool :=
  match np_index shape item, expected with
  | IOk (s1, p1), IOk (s2, p2) => natlist_eqb s1 s2 && list_eqb natlist_eqb p1 p2
  | IErr a, IErr b => ixerr_eqb a b
  | _, _ => false
  end.

Definition check_np_scalar (shape : list nat) (item : list ix) (expected : bool) : bool :=
  Bool.eqb (np_scalar shape item) expected.

(* elements of the series of k_getitem: tagged integers and the sentinels *)
Definition xv := sval Z.
Definition xv_eqb : xv -> xv -> bool := sval_eqb Z.eqb.
Definition xv_zero (x : xv) : bool := is_zero x.
Definition xv_default : xv := SVal (-999)%Z.

Definition bv := bval xv.
Definition bv_eqb (a b : bv) : bool :=
  match a, b with
  | BElem x, BElem y => xv_eqb x y
  | BArr s1 v1, BArr s2 v2 => natlist_eqb s1 s2 && list_eqb xv_eqb v1 v2
  | _, _ => false
  end.

Definition bobs_eqb (a b : bobs xv) : bool :=
  match a, b with
  | OScalar x, OScalar y => bv_eqb x y
  | OArray s1 v1 m1, OArray s2 v2 m2 =>
      natlist_eqb s1 s2 && list_eqb bv_eqb v1 v2 && list_eqb Bool.eqb m1 m2
  | OView s1 sh1, OView s2 sh2 => Nat.eqb s1 s2 && natlist_eqb sh1 sh2
  | OExc x, OExc y => exn_eqb x y
  | OContains x, OContains y => Bool.eqb x y
  | OPopped None, OPopped None => true
  | OPopped (Some x), OPopped (Some y) => entry_eqb bv_eqb x y
  | _, _ => false            (* OFuel never matches *)
  end.

Definition binit_world (data : list (list (index * xv))) : world bv :=
  mkWorld (fun s => map (fun p => (fst p, Done (BElem (snd p)))) (nth s data [])) [].

Definition check_getitem (descs : list (bdesc xv)) (data : list (list (index * xv)))
           (fuel : nat) (script : list breq)
           (exp_obs : list (bobs xv))
           (log_sids : list sid)
           (exp_calls : list (sid * index))
           (exp_keys : list (sid * list index)) : bool :=
  match bs_script xv_zero xv_default fuel descs script (binit_world data) with
  | (os, _, w) =>
      list_eqb bobs_eqb os exp_obs
      && list_eqb call_eqb
           (filter (fun c => existsb (Nat.eqb (fst c)) log_sids) (eval_calls w)) exp_calls
      && forallb (fun sk => keyset_eqb (keys (wcache w (fst sk))) (snd sk)) exp_keys
  end.

(* ---- further checks for k_cauchydot -------------------------------------- *)

(* the product series built by cauchy_dot_product: shape, n_infinite, dimension_names *)
Definition check_cdp_head (base : list (sdesc m2)) (factors : list sid) (herm : bool)
           (r c n : nat) (names : list nat) : bool :=
  match cauchy_dot_product base factors herm with
  | None => false
  | Some (descs, p) =>
      let h := head_at descs p in
      Nat.eqb (rows h) r && Nat.eqb (cols h) c && Nat.eqb (ninf h) n && natlist_eqb (dnames h) names
  end.

(* product_by_order(index, first, second, hermitian=herm) called directly (operator=None) on the
   base series 0 and 1 *)
Definition check_pbo (base : list (sdesc m2)) (data : list (list (index * sv))) (fuel : nat)
           (herm : bool) (start end_ : nat) (orders : list nat)
           (exp : res pyerr sv)
           (exp_calls : list (sid * index))
           (exp_keys : list (sid * list index)) : bool :=
  let g := cdp_getitem m2add m2mul m2adj base fuel in
  match product_by_order m2add m2mul m2adj
          (fun i w => wcontains sv_is_zero w 0%nat i) (fun i w => wcontains sv_is_zero w 1%nat i)
          (g 0%nat) (g 1%nat) herm (cols (head_at base 0%nat)) start end_ orders (init_world data) with
  | (r, w) =>
      res_eqb sv_eqb r exp
      && list_eqb call_eqb (eval_calls w) exp_calls
      && forallb (fun sk => keyset_eqb (keys (wcache w (fst sk))) (snd sk)) exp_keys
  end.

(* sentinel arithmetic of Sentinel.v against the Python operators *)
Inductive sop : Type := OpAdd | OpSub | OpNeg | OpDagger.

Definition sres_eqb (a b : sres m2) : bool :=
  match a, b with
  | SOk x, SOk y => sv_eqb x y
  | SErr x, SErr y => pyerr_eqb x y
  | _, _ => false
  end.

Definition m2neg (x : m2) : m2 :=
  let n := fun g : gz => (- fst g, - snd g) in M2 (n (m00 x)) (n (m01 x)) (n (m10 x)) (n (m11 x)).

Definition check_sop (op : sop) (x y : sv) (exp : sres m2) : bool :=
  sres_eqb (match op with
            | OpAdd => py_add m2add x y
            | OpSub => py_sub m2add m2neg x y
            | OpNeg => py_neg m2neg x
            | OpDagger => py_dagger m2adj x
            end) exp.
