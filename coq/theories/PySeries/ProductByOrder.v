(* PySeries/ProductByOrder.v

   Index-level model of `product_by_order(index, first, second, operator,
   hermitian)` of pymablock/series.py (lines 370-450), exactly as coded:

       start, end, *orders = index
       hermitian = hermitian and start == end
       result = zero
       for middle, *orders_1st in product(range(first.shape[1]),
                                          *(range(dim + 1) for dim in orders)):
           orders_2nd = tuple(i - j for i, j in zip(orders, orders_1st))
           first_index = (start, middle, *orders_1st)
           second_index = (middle, end, *orders_2nd)
           if hermitian and orders_1st > orders_2nd:  continue       # tuple order
           if (first_index not in first) or (second_index not in second): continue
           cost(o) = reduce(mul, ((i + 1) ** 2 for i in o))           # TypeError on ()
           if cost(orders_1st) <= cost(orders_2nd):
               first_value = first[first_index];   zero -> continue
               second_value = second[second_index]; zero -> continue
           else:  the other way round
           term = (product with `one` dropped)
           result = result + term               if not hermitian or orders_1st == orders_2nd
           result = result + term + Dagger(term) otherwise
       return result

   The two factors are abstract "element access" operations on an arbitrary state
   `St` (in CauchyDot.v: the world of caches, with BlockSeries.__getitem__ and
   __contains__; in the proofs also pure tables with an access log):

       has1, has2 : index -> St -> bool                  (`index in series`)
       get1, get2 : index -> St -> res pyerr (sval R) * St   (`series[index]`)

   No Ncring here (index arithmetic).  Ring operations enter only through the
   sentinel operations of Sentinel.v.
*)

Require Import List Arith Bool Lia.
Import ListNotations.
Require Import PV.PySeries.Sentinel PV.PySeries.Cache.

Set Implicit Arguments.

Definition mi := list nat.       (* multi-order: one entry per infinite dimension *)

(* itertools.product( *(range(d + 1) for d in orders)): lexicographic, first component outermost *)
Fixpoint splits (orders : mi) : list mi :=
  match orders with
  | [] => [[]]
  | d :: r => flat_map (fun a => map (cons a) (splits r)) (seq 0 (S d))
  end.

(* tuple(i - j for i, j in zip(orders, orders_1st)) *)
Fixpoint msub (n a : mi) : mi :=
  match n, a with
  | x :: n', y :: a' => (x - y) :: msub n' a'
  | _, _ => []
  end.

(* Python's  a > b  on tuples of ints *)
Fixpoint tuple_gt (a b : mi) : bool :=
  match a, b with
  | x :: a', y :: b' => if Nat.eqb x y then tuple_gt a' b' else Nat.ltb y x
  | _ :: _, [] => true
  | [], _ => false
  end.

Definition mi_eqb (a b : mi) : bool := index_eqb a b.

(* reduce(mul, ((i + 1) ** 2 for i in orders)); None = TypeError (empty iterable) *)
Definition cost (o : mi) : option nat :=
  match o with
  | [] => None
  | x :: r => Some (fold_left (fun acc i => acc * ((i + 1) * (i + 1))) r ((x + 1) * (x + 1)))
  end.

(* product(range(mid), *(range(dim + 1) for dim in orders)) *)
Definition enumeration (mid : nat) (orders : mi) : list (nat * mi) :=
  flat_map (fun k => map (pair k) (splits orders)) (seq 0 mid).

Section PBO.
  Variable R : Type.
  Variables (radd rmul : R -> R -> R) (radj : R -> R).
  Variable St : Type.
  Variables has1 has2 : index -> St -> bool.
  Variables get1 get2 : index -> St -> res pyerr (sval R) * St.

  Definition pres := res pyerr (sval R).

  (* Fetch the two factor values in the given order; `Ok None` = `continue`. *)
  Definition fetch (first_first : bool) (i1 i2 : index) (st : St)
    : res pyerr (option (sval R * sval R)) * St :=
    if first_first then
      match get1 i1 st with
      | (Ok v1, st1) =>
          if is_zero v1 then (Ok None, st1)
          else match get2 i2 st1 with
               | (Ok v2, st2) => if is_zero v2 then (Ok None, st2) else (Ok (Some (v1, v2)), st2)
               | (Raise x, st2) => (Raise x, st2)
               | (OutOfFuel, st2) => (OutOfFuel, st2)
               end
      | (Raise x, st1) => (Raise x, st1)
      | (OutOfFuel, st1) => (OutOfFuel, st1)
      end
    else
      match get2 i2 st with
      | (Ok v2, st1) =>
          if is_zero v2 then (Ok None, st1)
          else match get1 i1 st1 with
               | (Ok v1, st2) => if is_zero v1 then (Ok None, st2) else (Ok (Some (v1, v2)), st2)
               | (Raise x, st2) => (Raise x, st2)
               | (OutOfFuel, st2) => (OutOfFuel, st2)
               end
      | (Raise x, st1) => (Raise x, st1)
      | (OutOfFuel, st1) => (OutOfFuel, st1)
      end.

  (* the accumulation statement *)
  Definition accumulate (herm : bool) (o1 o2 : mi) (acc term : sval R) : sres R :=
    if negb herm || mi_eqb o1 o2 then py_accum radd acc term
    else py_accum_herm radd radj acc term.

  (* the loop; `herm` is already `hermitian and start == end` *)
  Fixpoint pbo_loop (herm : bool) (start end_ : nat) (orders : mi)
           (todo : list (nat * mi)) (acc : sval R) (st : St) : pres * St :=
    match todo with
    | [] => (Ok acc, st)
    | (k, o1) :: rest =>
        let o2 := msub orders o1 in
        let i1 := start :: k :: o1 in
        let i2 := k :: end_ :: o2 in
        if herm && tuple_gt o1 o2 then pbo_loop herm start end_ orders rest acc st
        else if negb (has1 i1 st) || negb (has2 i2 st) then
               pbo_loop herm start end_ orders rest acc st
        else
          match cost o1, cost o2 with
          | Some c1, Some c2 =>
              match fetch (Nat.leb c1 c2) i1 i2 st with
              | (Ok None, st') => pbo_loop herm start end_ orders rest acc st'
              | (Ok (Some (v1, v2)), st') =>
                  match accumulate herm o1 o2 acc (py_term rmul v1 v2) with
                  | SOk acc' => pbo_loop herm start end_ orders rest acc' st'
                  | SErr e => (Raise (Other e), st')
                  end
              | (Raise x, st') => (Raise x, st')
              | (OutOfFuel, st') => (OutOfFuel, st')
              end
          | _, _ => (Raise (Other TypeError), st)      (* reduce() of empty iterable *)
          end
    end.

  (* product_by_order(index = (start, end, *orders), first, second, hermitian);
     mid = first.shape[1] *)
  Definition product_by_order (hermitian : bool) (mid : nat)
             (start end_ : nat) (orders : mi) (st : St) : pres * St :=
    pbo_loop (hermitian && Nat.eqb start end_) start end_ orders
             (enumeration mid orders) SZero st.

End PBO.
