(* PySeries/ViewArrProofs.v

   The list/slice finite-only view.  Appending, to a finite index expression, one
   length-one slice o:o+1 per order dimension selects the same finite positions, each
   extended by the orders, and appends dimensions of extent 1:

     np_index (shape ++ [o1+1; ...]) (item ++ [o1:o1+1; ...])
        = (vshape ++ [1; ...],  map (fun p => p ++ [o1; ...]) positions)
     where (vshape, positions) = np_index shape item.

   Hence the hidden `packed` series holds at orders o the array whose k-th entry is the
   element (positions[k] ++ o) of the original, with the shape of np.empty(shape)[item],
   and the view's element (f ++ o) is entry offset(f) of it.
*)

Require Import List ZArith Arith Bool Lia.
Import ListNotations.
Require Import PV.PySeries.Sentinel PV.PySeries.Cache PV.PySeries.Index PV.PySeries.GetItem
        PV.PySeries.IndexProofs.

Set Implicit Arguments.

Definition tail_slices (oidx : list nat) : list nix := map (fun o => NSlice [o]) oidx.
Definition singles (oidx : list nat) : list (list nat) := map (fun o => [o]) oidx.

Lemma norm_order_slice b o : norm_ix b (o + 1) (order_slice o) = IOk (NSlice [o]).
Proof.
  unfold order_slice, norm_ix, slice_positions, clip.
  assert ((Z.of_nat o <? 0)%Z = false) as -> by (apply Z.ltb_ge; lia).
  assert ((Z.of_nat o + 1 <? 0)%Z = false) as -> by (apply Z.ltb_ge; lia).
  replace (Z.min (Z.of_nat o) (Z.of_nat (o + 1))) with (Z.of_nat o) by lia.
  replace (Z.min (Z.of_nat o + 1) (Z.of_nat (o + 1))) with (Z.of_nat o + 1)%Z by lia.
  assert ((Z.of_nat o + 1 <=? Z.of_nat o)%Z = false) as -> by (apply Z.leb_gt; lia).
  replace ((Z.of_nat o + 1 - Z.of_nat o + 1 - 1) / 1)%Z with 1%Z by (rewrite Z.div_1_r; lia).
  change (Z.to_nat 1) with 1. cbn [seq map]. do 3 f_equal. lia.
Qed.

Lemma norm_all_tail b fs : forall fitem oidx,
  length fitem = length fs ->
  norm_all b (fs ++ map (fun n => n + 1) oidx) (fitem ++ map order_slice oidx) =
  match norm_all b fs fitem with
  | IOk A => IOk (A ++ tail_slices oidx)
  | IErr e => IErr e
  end.
Proof.
  induction fs as [|d fs IH]; intros [|i fitem] oidx L; try discriminate.
  - change (norm_all b [] []) with (IOk (@nil nix)). cbn [app]. clear.
    induction oidx as [|o r IHr]; [reflexivity|].
    cbn [map norm_all]. rewrite norm_order_slice, IHr. reflexivity.
  - cbn [app norm_all]. destruct (norm_ix b d i); auto. rewrite IH by (cbn in L; lia).
    destruct (norm_all b fs fitem); auto.
Qed.

Lemma bcast_len_tail A oidx acc : bcast_len (A ++ tail_slices oidx) acc = bcast_len A acc.
Proof.
  revert acc. induction A as [|[n|l|ps] A IH]; intros acc; cbn; auto.
  - induction oidx; cbn; auto.
  - destruct acc as [a|]; auto. destruct (bc a (length l)); auto.
Qed.

Lemma slices_of_app A B : slices_of (A ++ B) = slices_of A ++ slices_of B.
Proof. unfold slices_of. apply flat_map_app. Qed.

Lemma slices_of_tail oidx : slices_of (tail_slices oidx) = singles oidx.
Proof. induction oidx; cbn; auto. now f_equal. Qed.

Lemma cart_singles S oidx : cart (S ++ singles oidx) = map (fun c => c ++ oidx) (cart S).
Proof.
  induction S as [|l S IH]; cbn.
  - cbn [app cart map]. induction oidx as [|o r IHr]; [reflexivity|].
    change (singles (o :: r)) with ([o] :: singles r). cbn [cart flat_map]. rewrite IHr. reflexivity.
  - rewrite IH. clear IH. induction l as [|x l IHl]; cbn; auto.
    rewrite map_app, IHl, !map_map. reflexivity.
Qed.

Lemma cart_length S c : In c (cart S) -> length c = length S.
Proof.
  revert c. induction S as [|l S IH]; cbn; intros c H.
  - destruct H as [<-|[]]. reflexivity.
  - apply in_flat_map in H. destruct H as (x & _ & H). apply in_map_iff in H.
    destruct H as (c' & <- & H). cbn. f_equal. now apply IH.
Qed.

Lemma fill_tail A oidx t : forall c,
  length c = length (slices_of A) ->
  fill (A ++ tail_slices oidx) t (c ++ oidx) = fill A t c ++ oidx.
Proof.
  induction A as [|[n|l|ps] A IH]; intros c L; cbn in *.
  - destruct c; [|discriminate]. cbn. clear. induction oidx as [|o r IHr]; cbn; auto. now f_equal.
  - f_equal. now apply IH.
  - f_equal. now apply IH.
  - destruct c as [|x c]; [discriminate|]. cbn. f_equal. apply IH. now inversion L.
Qed.

Lemma map_flat_map' {A B C} (f : B -> C) (g : A -> list B) l :
  map f (flat_map g l) = flat_map (fun x => map f (g x)) l.
Proof. induction l; cbn; auto. now rewrite map_app, IHl. Qed.

Lemma flat_map_ext_in' {A B} (f g : A -> list B) l :
  (forall x, In x l -> f x = g x) -> flat_map f l = flat_map g l.
Proof.
  induction l as [|a l IH]; cbn; intros H; auto. rewrite (H a), IH; auto.
Qed.

Lemma map_length_singles oidx : map (@length nat) (singles oidx) = repeat 1 (length oidx).
Proof. induction oidx; cbn; auto. now f_equal. Qed.

(* structure of the adjacency test *)
Lemma leading_slices_spec A pre rest :
  leading_slices A = (pre, rest) ->
  A = pre ++ rest /\ forallb is_slice pre = true /\
  (match rest with NSlice _ :: _ => False | _ => True end).
Proof.
  revert pre rest. induction A as [|[n|l|ps] A IH]; cbn; intros pre rest E;
    try (inversion E; subst; cbn; auto; fail).
  destruct (leading_slices A) as [a b]. inversion E; subst.
  destruct (IH a rest eq_refl) as (-> & F & R). cbn. auto.
Qed.

Lemma leading_adv_spec A adv post :
  leading_adv A = (adv, post) -> A = adv ++ post /\ slices_of adv = [].
Proof.
  revert adv post. induction A as [|[n|l|ps] A IH]; cbn; intros adv post E;
    try (inversion E; subst; cbn; auto; fail);
    destruct (leading_adv A) as [a b]; inversion E; subst;
    destruct (IH a post eq_refl) as (-> & S); cbn; auto.
Qed.

Lemma leading_slices_tail A oidx pre rest :
  leading_slices A = (pre, rest) -> rest <> [] ->
  leading_slices (A ++ tail_slices oidx) = (pre, rest ++ tail_slices oidx).
Proof.
  revert pre rest. induction A as [|[n|l|ps] A IH]; cbn; intros pre rest E N;
    try (inversion E; subst; cbn; auto; congruence).
  destruct (leading_slices A) as [a b]. inversion E; subst.
  now rewrite (IH a rest eq_refl N).
Qed.

Lemma leading_adv_tail A oidx adv post :
  leading_adv A = (adv, post) ->
  leading_adv (A ++ tail_slices oidx) = (adv, post ++ tail_slices oidx).
Proof.
  revert adv post. induction A as [|[n|l|ps] A IH]; cbn; intros adv post E.
  - inversion E; subst. destruct oidx; reflexivity.
  - destruct (leading_adv A) as [a b]. inversion E; subst. now rewrite (IH a post eq_refl).
  - destruct (leading_adv A) as [a b]. inversion E; subst. now rewrite (IH a post eq_refl).
  - inversion E; subst. reflexivity.
Qed.

Lemma forallb_slice_tail oidx : forallb is_slice (tail_slices oidx) = true.
Proof. induction oidx; cbn; auto. Qed.

Lemma bcast_some_has_list A acc L :
  bcast_len A acc = Some (Some L) -> acc = None -> exists l, In (NList l) A.
Proof.
  revert acc. induction A as [|[n|l|ps] A IH]; cbn; intros acc E N; subst.
  - discriminate.
  - destruct (IH None E eq_refl) as (l & H). eauto.
  - eauto.
  - destruct (IH None E eq_refl) as (l & H). eauto.
Qed.

Lemma adjacent_split_tail A oidx L :
  bcast_len A None = Some (Some L) ->
  adjacent_split (A ++ tail_slices oidx) =
  match adjacent_split A with
  | Some (pre, post) => Some (pre, post ++ tail_slices oidx)
  | None => None
  end.
Proof.
  intros B. unfold adjacent_split.
  destruct (leading_slices A) as [pre rest] eqn:E1.
  destruct (leading_slices_spec _ E1) as (-> & Fp & R).
  assert (rest <> []) as N.
  { intros ->. destruct (bcast_some_has_list _ B eq_refl) as (l & H).
    rewrite app_nil_r in H. rewrite forallb_forall in Fp. specialize (Fp _ H). discriminate. }
  rewrite (leading_slices_tail _ oidx E1 N).
  destruct (leading_adv rest) as [adv post] eqn:E2.
  rewrite (leading_adv_tail _ oidx E2).
  rewrite forallb_app, forallb_slice_tail, andb_true_r.
  destruct (forallb is_slice post); reflexivity.
Qed.

Lemma adjacent_split_slices A pre post :
  adjacent_split A = Some (pre, post) ->
  slices_of A = slices_of pre ++ slices_of post.
Proof.
  unfold adjacent_split. destruct (leading_slices A) as [pre' rest] eqn:E1.
  destruct (leading_adv rest) as [adv post'] eqn:E2.
  destruct (forallb is_slice post'); [|discriminate]. intros E. inversion E; subst.
  destruct (leading_slices_spec _ E1) as (-> & _ & _).
  destruct (leading_adv_spec _ E2) as (-> & S).
  now rewrite !slices_of_app, S.
Qed.

Theorem np_index_n_tail A oidx :
  np_index_n (A ++ tail_slices oidx) =
  match np_index_n A with
  | IOk (shp, poss) => IOk (shp ++ repeat 1 (length oidx), map (fun p => p ++ oidx) poss)
  | IErr e => IErr e
  end.
Proof.
  unfold np_index_n. rewrite bcast_len_tail.
  destruct (bcast_len A None) as [[L|]|] eqn:B; auto.
  - rewrite (adjacent_split_tail _ oidx B).
    destruct (adjacent_split A) as [[pre post]|] eqn:Adj.
    + pose proof (adjacent_split_slices _ Adj) as SA.
      rewrite slices_of_app, slices_of_tail. f_equal. f_equal.
      * rewrite map_app, map_length_singles, <- !app_assoc. reflexivity.
      * rewrite cart_singles. rewrite map_flat_map'. apply flat_map_ext_in'. intros cp Hcp.
        rewrite map_flat_map'. apply flat_map_ext_in'. intros t _.
        rewrite !map_map. apply map_ext_in. intros cq Hcq.
        rewrite app_assoc. apply fill_tail.
        rewrite SA, !app_length. f_equal; now apply cart_length.
    + rewrite slices_of_app, slices_of_tail. f_equal. f_equal.
      * rewrite map_app, map_length_singles. reflexivity.
      * rewrite cart_singles. rewrite map_flat_map'. apply flat_map_ext_in'. intros t _.
        rewrite !map_map. apply map_ext_in. intros c Hc. apply fill_tail. now apply cart_length.
  - rewrite slices_of_app, slices_of_tail. f_equal. f_equal.
    + rewrite map_app, map_length_singles. reflexivity.
    + rewrite cart_singles, !map_map. apply map_ext_in. intros c Hc. apply fill_tail.
      now apply cart_length.
Qed.

Lemma basic_error_tail fs : forall fitem oidx,
  length fitem = length fs ->
  basic_error (fs ++ map (fun n => n + 1) oidx) (fitem ++ map order_slice oidx) = basic_error fs fitem.
Proof.
  induction fs as [|d fs IH]; intros [|i fitem] oidx L; try discriminate.
  - cbn [app basic_error]. clear. induction oidx as [|o r IHr]; [reflexivity|].
    cbn [map basic_error]. unfold order_slice at 1. fold (order_slice o).
    rewrite norm_order_slice. exact IHr.
  - cbn [app basic_error]. rewrite IH by (cbn in L; lia). reflexivity.
Qed.

Lemma raw_bcast_tail item oidx acc : raw_bcast (item ++ map order_slice oidx) acc = raw_bcast item acc.
Proof.
  revert acc. induction item as [|[z|l|a b c] item IH]; intros acc; cbn; auto.
  - induction oidx; cbn; auto.
  - destruct acc as [a|]; auto. destruct (bc a (length l)); auto.
Qed.

Lemma np_index_tail fs item oidx vshape poss :
  length item = length fs ->
  np_index fs item = IOk (vshape, poss) ->
  np_index (fs ++ map (fun n => n + 1) oidx) (item ++ map order_slice oidx)
  = IOk (vshape ++ repeat 1 (length oidx), map (fun p => p ++ oidx) poss).
Proof.
  intros L. unfold np_index.
  rewrite !app_length, !map_length, L, !Nat.ltb_irrefl, !Nat.sub_diag. cbn [repeat].
  rewrite !app_nil_r, norm_all_tail, basic_error_tail by auto.
  unfold lenient_item. rewrite raw_bcast_tail. fold (lenient_item item).
  destruct (basic_error fs item); [discriminate|].
  destruct (norm_all (lenient_item item) fs item) as [A|e]; [|discriminate].
  rewrite np_index_n_tail. intros ->. reflexivity.
Qed.

Section PackedView.
  Variable X : Type.
  Variable xzero : X -> bool.
  Variable xdefault : X.

  (* the hidden packed series: at orders oidx it holds the array of the elements
     (position ++ oidx) of the parent, position ranging over np_index shape item *)
  Theorem packed_element (descs : list (bdesc X)) q h p item vshape poss
          (g : bcallback X) (oidx : index) (w : bworld X) :
    nth_error descs q = Some (BPacked h p item) ->
    length item = length (fshape (bhead_at descs p)) ->
    length oidx = bninf (bhead_at descs p) -> 0 < bninf (bhead_at descs p) ->
    np_index (fshape (bhead_at descs p)) item = IOk (vshape, poss) ->
    bs_eval xdefault descs q g oidx w =
    match eval_positions g p (sort_uniq (map (fun f => f ++ oidx) poss)) w with
    | (Ok evald, w') =>
        match elems_of (map (value_at xdefault evald) (map (fun f => f ++ oidx) poss)) with
        | Some xs => (Ok (BArr vshape xs), w')
        | None => (Raise (Other TypeError), w')
        end
    | (Raise x, w') => (Raise x, w')
    | (OutOfFuel, w') => (OutOfFuel, w')
    end.
  Proof.
    intros D L1 L2 Npos N. unfold bs_eval. rewrite D. unfold bs_getitem_full.
    set (hd := bhead_at descs p) in *.
    set (oz := map order_slice oidx).
    assert (length oz = length oidx) as Loz by (unfold oz; apply map_length).
    assert (skipn (length (fshape hd)) (item ++ oz) = oz) as ->.
    { rewrite skipn_app, skipn_all2 by lia. rewrite L1, Nat.sub_diag. reflexivity. }
    assert (existsb order_bad oz = false) as ->.
    { unfold oz. clear. induction oidx as [|n r IH]; cbn; auto. rewrite IH.
      assert ((Z.of_nat n <? 0)%Z = false) as -> by (apply Z.ltb_ge; lia).
      assert ((Z.of_nat n + 1 <? 0)%Z = false) as -> by (apply Z.ltb_ge; lia). reflexivity. }
    rewrite app_length, Loz, L1, L2, Nat.eqb_refl. cbn [negb].
    assert (extents oz = IOk (map (fun n => n + 1) oidx)) as ->.
    { unfold oz. clear. induction oidx as [|n r IH]; cbn; auto. cbn in IH. rewrite IH.
      do 2 f_equal. lia. }
    unfold oz. rewrite (@np_index_tail _ _ oidx _ _ L1 N).
    destruct (eval_positions g p (sort_uniq (map (fun f => f ++ oidx) poss)) w)
      as [[evald|x|] w'] eqn:P; auto.
    assert (np_scalar (fshape hd ++ map (fun n => n + 1) oidx) (item ++ map order_slice oidx) = false) as ->.
    { unfold np_scalar. rewrite forallb_app.
      destruct oidx as [|o r]; [cbn in L2; lia|]. cbn. now rewrite !andb_false_r. }
    destruct (elems_of _); auto. rewrite <- L2.
    rewrite app_length, repeat_length, Nat.add_sub, firstn_app, Nat.sub_diag, firstn_all.
    cbn. now rewrite app_nil_r.
  Qed.

  (* the view's element (fidx ++ oidx) is entry offset(fidx) of the packed array at oidx *)
  Theorem view_arr_element (descs : list (bdesc X)) v h q
          (g : bcallback X) (fidx oidx : index) (w : bworld X) :
    nth_error descs v = Some (BViewArr h q) ->
    length oidx = bninf h ->
    bs_eval xdefault descs v g (fidx ++ oidx) w =
    match g q oidx w with
    | (Ok (BArr shp xs), w') => (Ok (BElem (nth (offset shp fidx 0) xs xdefault)), w')
    | (Ok (BElem _), w') => (Raise (Other TypeError), w')
    | (Raise x, w') => (Raise x, w')
    | (OutOfFuel, w') => (OutOfFuel, w')
    end.
  Proof.
    intros D L. unfold bs_eval. rewrite D.
    rewrite app_length, <- L, Nat.add_sub.
    rewrite skipn_app, skipn_all, Nat.sub_diag, firstn_app, Nat.sub_diag, firstn_all. cbn.
    rewrite app_nil_r. reflexivity.
  Qed.

  (* creation of the view: its shape is that of np.empty(shape)[item] *)
  Theorem view_arr_created fuel (descs : list (bdesc X)) s item vshape poss (w : bworld X) :
    let hd := bhead_at descs s in
    length item = length (fshape hd) -> 0 < bninf hd ->
    forallb is_int item = false ->
    np_index (fshape hd) item = IOk (vshape, poss) ->
    bs_request xzero xdefault fuel descs (QGet s item) w =
    (OView (S (length descs)) vshape,
     descs ++ [BPacked (mkBS [] (bninf hd)) s item; BViewArr (mkBS vshape (bninf hd)) (length descs)],
     w).
  Proof.
    intros hd L N I E. unfold bs_request. fold hd.
    rewrite L, Nat.eqb_refl. apply Nat.ltb_lt in N. rewrite N. cbn [andb]. rewrite I, E. reflexivity.
  Qed.
End PackedView.
