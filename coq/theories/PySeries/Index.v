(* PySeries/Index.v

   Executable SPECIFICATION of NumPy basic + advanced indexing for the subset used
   by BlockSeries (tied to the real NumPy by tools/harness/k_npindex.py):

     - integers, negative ones counted from the end           (IInt z)
     - lists of integers (1-d integer arrays)                 (IList l)
     - forward slices start:stop:step, step >= 1 or absent    (ISlice start stop step)
     - several lists broadcast together (equal lengths, or length 1)
     - as soon as one list is present, integers are advanced indices as well
       (0-d arrays); if the advanced indices are all next to each other the
       broadcast dimension replaces them in place, if they are separated by a slice
       it goes FIRST
     - fewer indices than dimensions: the rest are full slices

   The array is a shape (list of extents); the result of indexing is the result
   shape together with the row-major list of SOURCE POSITIONS selected, so that for
   a dense array D the indexed array is  map D positions  reshaped.
   Errors: EIndex (IndexError: out of bounds, too many indices, lists that do not
   broadcast), EValue (ValueError: slice step 0), EType (TypeError).
*)

Require Import List ZArith Arith Bool Lia.
Import ListNotations.

Set Implicit Arguments.

Inductive ix : Type :=
| IInt (z : Z)
| IList (l : list Z)
| ISlice (start stop step : option Z).

Inductive ixerr : Type := EIndex | EValue | EType.

Inductive ixres (A : Type) : Type :=
| IOk (a : A)
| IErr (e : ixerr).
Arguments IOk {A} a.
Arguments IErr {A} e.

(* a normalised index of one dimension *)
Inductive nix : Type :=
| NInt (n : nat)
| NList (l : list nat)
| NSlice (positions : list nat).

Definition is_int (i : ix) : bool := match i with IInt _ => true | _ => false end.

Local Open Scope Z_scope.

(* an integer index against extent d *)
Definition norm_int (d : nat) (z : Z) : option nat :=
  if (0 <=? z) && (z <? Z.of_nat d) then Some (Z.to_nat z)
  else if (- Z.of_nat d <=? z) && (z <? 0) then Some (Z.to_nat (z + Z.of_nat d))
  else None.

Fixpoint norm_list (d : nat) (l : list Z) : option (list nat) :=
  match l with
  | [] => Some []
  | z :: r =>
      match norm_int d z, norm_list d r with
      | Some n, Some ns => Some (n :: ns)
      | _, _ => None
      end
  end.

(* slice.indices(d) for step >= 1 *)
Definition clip (d : nat) (o : option Z) (default : Z) : Z :=
  match o with
  | None => default
  | Some z => if z <? 0 then Z.max (z + Z.of_nat d) 0 else Z.min z (Z.of_nat d)
  end.

Definition slice_positions (d : nat) (start stop step : option Z) : list nat :=
  let s := clip d start 0 in
  let e := clip d stop (Z.of_nat d) in
  let st := match step with None => 1 | Some k => k end in
  let count := if e <=? s then 0 else (e - s + st - 1) / st in
  map (fun k => Z.to_nat (s + Z.of_nat k * st)) (seq 0 (Z.to_nat count)).

(* `lenient`: the lists broadcast to length 0 (some list is empty); NumPy then does not
   bounds-check the entries of the lists (nothing is selected) *)
Definition norm_ix (lenient : bool) (d : nat) (i : ix) : ixres nix :=
  match i with
  | IInt z => match norm_int d z with Some n => IOk (NInt n) | None => IErr EIndex end
  | IList l =>
      if lenient then IOk (NList (repeat 0%nat (length l)))
      else match norm_list d l with Some ns => IOk (NList ns) | None => IErr EIndex end
  | ISlice start stop step =>
      match step with
      | Some k => if k <=? 0 then IErr EValue else IOk (NSlice (slice_positions d start stop step))
      | None => IOk (NSlice (slice_positions d start stop step))
      end
  end.

Local Close Scope Z_scope.

(* normalise a whole index expression against a shape (same lengths) *)
Fixpoint norm_all (lenient : bool) (shape : list nat) (item : list ix) : ixres (list nix) :=
  match shape, item with
  | [], [] => IOk []
  | d :: sh, i :: it =>
      match norm_ix lenient d i with
      | IErr e => IErr e
      | IOk n => match norm_all lenient sh it with IErr e => IErr e | IOk ns => IOk (n :: ns) end
      end
  | _, _ => IErr EIndex
  end.

(* row-major cartesian product, first list outermost *)
Fixpoint cart (ls : list (list nat)) : list (list nat) :=
  match ls with
  | [] => [[]]
  | l :: r => flat_map (fun x => map (cons x) (cart r)) l
  end.

Definition slices_of (items : list nix) : list (list nat) :=
  flat_map (fun i => match i with NSlice ps => [ps] | _ => [] end) items.

Definition is_slice (i : nix) : bool := match i with NSlice _ => true | _ => false end.
Definition is_nlist (i : nix) : bool := match i with NList _ => true | _ => false end.

(* broadcast of the lengths of all lists; None = cannot be broadcast; Some None = no list *)
Definition bc (a b : nat) : option nat :=
  if Nat.eqb a b then Some a else if Nat.eqb a 1 then Some b else if Nat.eqb b 1 then Some a else None.

Fixpoint bcast_len (items : list nix) (acc : option nat) : option (option nat) :=
  match items with
  | [] => Some acc
  | NList l :: r =>
      match acc with
      | None => bcast_len r (Some (length l))
      | Some a => match bc a (length l) with Some c => bcast_len r (Some c) | None => None end
      end
  | _ :: r => bcast_len r acc
  end.

(* the source position for broadcast index t and the given choices for the slices *)
Fixpoint fill (items : list nix) (t : nat) (choices : list nat) : list nat :=
  match items with
  | [] => []
  | NInt n :: r => n :: fill r t choices
  | NList l :: r => nth (if Nat.eqb (length l) 1 then 0 else t) l 0 :: fill r t choices
  | NSlice _ :: r =>
      match choices with
      | c :: cs => c :: fill r t cs
      | [] => 0 :: fill r t []
      end
  end.

(* leading slices / the rest *)
Fixpoint leading_slices (items : list nix) : list nix * list nix :=
  match items with
  | NSlice ps :: r => let (a, b) := leading_slices r in (NSlice ps :: a, b)
  | _ => ([], items)
  end.

Fixpoint leading_adv (items : list nix) : list nix * list nix :=
  match items with
  | NSlice _ :: _ => ([], items)
  | i :: r => let (a, b) := leading_adv r in (i :: a, b)
  | [] => ([], [])
  end.

(* advanced indices all adjacent: slices* advanced+ slices* *)
Definition adjacent_split (items : list nix) : option (list nix * list nix) :=
  let (pre, rest) := leading_slices items in
  let (adv, post) := leading_adv rest in
  if forallb is_slice post then Some (pre, post) else None.

Definition np_index_n (items : list nix) : ixres (list nat * list (list nat)) :=
  match bcast_len items None with
  | None => IErr EIndex                                   (* shape mismatch *)
  | Some None =>                                          (* basic indexing only *)
      let sl := slices_of items in
      IOk (map (@length nat) sl, map (fill items 0) (cart sl))
  | Some (Some L) =>
      match adjacent_split items with
      | Some (pre, post) =>
          let sp := slices_of pre in
          let sq := slices_of post in
          IOk (map (@length nat) sp ++ [L] ++ map (@length nat) sq,
               flat_map (fun cp =>
                 flat_map (fun t => map (fun cq => fill items t (cp ++ cq)) (cart sq)) (seq 0 L))
                 (cart sp))
      | None =>
          let sl := slices_of items in
          IOk (L :: map (@length nat) sl,
               flat_map (fun t => map (fill items t) (cart sl)) (seq 0 L))
      end
  end.

(* do the lists of the item broadcast to length 0 ? (a mismatch is found later, by bcast_len) *)
Fixpoint raw_bcast (item : list ix) (acc : option nat) : option (option nat) :=
  match item with
  | [] => Some acc
  | IList l :: r =>
      match acc with
      | None => raw_bcast r (Some (length l))
      | Some a => match bc a (length l) with Some c => raw_bcast r (Some c) | None => None end
      end
  | _ :: r => raw_bcast r acc
  end.

Definition lenient_item (item : list ix) : bool :=
  match raw_bcast item None with Some (Some O) => true | _ => false end.

Definition full_slice : ix := ISlice None None None.

(* Which error wins when several apply (NumPy's order of processing, tied by k_npindex):
   1. too many indices (IndexError);
   2. integers and slices, left to right: an out-of-bounds integer (IndexError) or a zero
      slice step (ValueError), whichever comes first;
   3. only then the lists: shapes that do not broadcast (IndexError), entries out of bounds
      (IndexError) - the latter only if the broadcast length is not 0.
   `basic_error` is phase 2. *)
Fixpoint basic_error (shape : list nat) (item : list ix) : option ixerr :=
  match shape, item with
  | d :: sh, i :: it =>
      match i with
      | IList _ => basic_error sh it
      | _ => match norm_ix false d i with IErr e => Some e | IOk _ => basic_error sh it end
      end
  | _, _ => None
  end.

(* array[item] for an array of the given shape *)
Definition np_index (shape : list nat) (item : list ix) : ixres (list nat * list (list nat)) :=
  if Nat.ltb (length shape) (length item) then IErr EIndex       (* too many indices *)
  else
    let item' := item ++ repeat full_slice (length shape - length item) in
    match basic_error shape item' with
    | Some e => IErr e
    | None =>
        match norm_all (lenient_item item') shape item' with
        | IErr e => IErr e
        | IOk items => np_index_n items
        end
    end.

(* np.isscalar(array[item]) for an object array *)
Definition np_scalar (shape : list nat) (item : list ix) : bool :=
  Nat.eqb (length shape) (length item) && forallb is_int item.

(* lexicographic order on positions and np.where order = sorted, duplicate-free *)
Fixpoint pos_ltb (a b : list nat) : bool :=
  match a, b with
  | x :: a', y :: b' => if Nat.eqb x y then pos_ltb a' b' else Nat.ltb x y
  | [], _ :: _ => true
  | _, _ => false
  end.

Fixpoint pos_eqb (a b : list nat) : bool :=
  match a, b with
  | x :: a', y :: b' => Nat.eqb x y && pos_eqb a' b'
  | [], [] => true
  | _, _ => false
  end.

Fixpoint insert_pos (p : list nat) (l : list (list nat)) : list (list nat) :=
  match l with
  | [] => [p]
  | q :: r => if pos_eqb p q then l else if pos_ltb p q then p :: l else q :: insert_pos p r
  end.

Definition sort_uniq (l : list (list nat)) : list (list nat) := fold_right insert_pos [] l.
