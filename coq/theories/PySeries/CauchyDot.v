(* PySeries/CauchyDot.v

   Model of `cauchy_dot_product( *series, operator, hermitian)` of
   pymablock/series.py (lines 285-367) on top of Cache.v (the product is a
   BlockSeries with its own cache) and ProductByOrder.v (its eval).

   A world of series is described by a list of descriptors (position = series id):

     SBase head table             a series whose eval is a (possibly raising) table
     SProd head mode first second the series built by cauchy_dot_product for two
                                  factors; mode says which Hermitian shortcut its
                                  eval uses:
        HNone  hermitian=False
        HFull  hermitian=True, two factors:
                 eval(i,j,n) = Dagger(product[j,i,n])            if i > j
                             = product_by_order(..., hermitian=True)   otherwise
        HWrap  hermitian=True, more than two factors (only the wrapper):
                 eval(i,j,n) = Dagger(product[j,i,n])            if i > j
                             = product_by_order(..., hermitian=False)  otherwise

   `cauchy_dot_product descs factors hermitian` appends the descriptors of the new
   product series (left association: cdp(cdp(s1, s2), s3, ...)) and returns the id
   of the result, or None for the ValueError raised on incompatible factors.
*)

Require Import List Arith Bool Lia.
Import ListNotations.
Require Import PV.PySeries.Sentinel PV.PySeries.Cache PV.PySeries.ProductByOrder.

Set Implicit Arguments.

Record shead : Type := mkHead { rows : nat; cols : nat; ninf : nat; dnames : list nat }.
   (* shape = (rows, cols), n_infinite, dimension_names (each name encoded by a number; the
      default names n_0, n_1, ... are 0, 1, ...) *)

Inductive hmode : Type := HNone | HFull | HWrap.

Inductive sdesc (R : Type) : Type :=
| SBase (h : shead) (tbl : index -> res pyerr (sval R))
| SProd (h : shead) (m : hmode) (a b : sid).

Arguments SBase {R} h tbl.
Arguments SProd {R} h m a b.

Definition head_of {R} (d : sdesc R) : shead :=
  match d with SBase h _ => h | SProd h _ _ _ => h end.

Section CDP.
  Variable R : Type.
  Variables (radd rmul : R -> R -> R) (radj : R -> R).

  Definition world_t := world (sval R).
  Definition cb_t := callback (sval R) pyerr.

  Definition szero_test (v : sval R) : bool := is_zero v.

  Definition mode_wraps (m : hmode) : bool := match m with HNone => false | _ => true end.
  Definition mode_halfsum (m : hmode) : bool := match m with HFull => true | _ => false end.

  Definition head_at (descs : list (sdesc R)) (s : sid) : shead :=
    match nth_error descs s with Some d => head_of d | None => mkHead 0 0 0 [] end.

  (* The eval functions of all series of the world. *)
  Definition cdp_eval (descs : list (sdesc R)) : evalT (sval R) pyerr :=
    fun s g i w =>
      match nth_error descs s with
      | None => (Raise IndexError, w)                      (* no such series *)
      | Some (SBase _ tbl) => (tbl i, w)
      | Some (SProd h m a b) =>
          match i with
          | start :: end_ :: orders =>
              if mode_wraps m && Nat.ltb end_ start then
                (* Dagger(product[(index[1], index[0], *index[2:])]) *)
                if Nat.leb (rows h) end_ || Nat.leb (cols h) start then (Raise IndexError, w)
                else
                  match g s (end_ :: start :: orders) w with
                  | (Ok v, w') =>
                      (match py_dagger radj v with
                       | SOk d => Ok d
                       | SErr e => Raise (Other e)
                       end, w')
                  | other => other
                  end
              else
                product_by_order radd rmul radj
                  (fun i1 w => wcontains szero_test w a i1)
                  (fun i2 w => wcontains szero_test w b i2)
                  (g a) (g b)
                  (mode_halfsum m) (cols (head_at descs a)) start end_ orders w
          | _ => (Raise (Other TypeError), w)              (* not enough values to unpack *)
          end
      end.

  (* series[index] for all series of the world *)
  Definition cdp_getitem (descs : list (sdesc R)) (fuel : nat) : cb_t :=
    getitem (cdp_eval descs) fuel.

  (* ---- construction ---------------------------------------------------- *)

  (* the two-factor branch; None = ValueError *)
  Definition prod2 (descs : list (sdesc R)) (m : hmode) (a b : sid) : option (sdesc R) :=
    match nth_error descs a, nth_error descs b with
    | Some da, Some db =>
        let ha := head_of da in
        let hb := head_of db in
        if negb (Nat.eqb (ninf ha) (ninf hb)) then None         (* unequal number of infinite dimensions *)
        else if negb (index_eqb (dnames ha) (dnames hb)) then None   (* different dimension names *)
        else if negb (Nat.eqb (cols ha) (rows hb)) then None    (* incompatible finite dimensions *)
        else Some (SProd (mkHead (rows ha) (cols hb) (ninf ha) (dnames ha)) m a b)
    | _, _ => None
    end.

  (* left association; the last product gets `final` as its mode *)
  Fixpoint cdp_fold (descs : list (sdesc R)) (acc : sid) (rest : list sid) (final : hmode)
    : option (list (sdesc R) * sid) :=
    match rest with
    | [] => Some (descs, acc)
    | b :: rest' =>
        let m := match rest' with [] => final | _ => HNone end in
        match prod2 descs m acc b with
        | Some d => cdp_fold (descs ++ [d]) (length descs) rest' final
        | None => None
        end
    end.

  Definition cauchy_dot_product (descs : list (sdesc R)) (factors : list sid) (hermitian : bool)
    : option (list (sdesc R) * sid) :=
    match factors with
    | a :: b :: rest =>
        cdp_fold descs a (b :: rest)
                 (if hermitian then match rest with [] => HFull | _ => HWrap end else HNone)
    | _ => None                   (* `first, second = series` fails: ValueError *)
    end.

End CDP.
