(* PySeries/MultiIndex.v

   Facts about the enumeration `splits` used by product_by_order
   (itertools.product( *(range(d + 1) for d in orders))): it lists, without
   repetition, exactly the multi-orders a with a <= orders pointwise; with
   b = msub orders a these are exactly the pairs with a + b = orders.
   No Ncring in this file.
*)

Require Import List Arith Bool Lia Permutation.
Import ListNotations.
Require Import PV.PySeries.Cache PV.PySeries.ProductByOrder.

Set Implicit Arguments.

(* pointwise sum *)
Fixpoint madd (a b : mi) : mi :=
  match a, b with
  | x :: a', y :: b' => (x + y) :: madd a' b'
  | _, _ => []
  end.

Lemma in_splits n a : In a (splits n) <-> Forall2 le a n.
Proof.
  revert a. induction n as [|d r IH]; intros a; cbn [splits].
  - cbn. split.
    + intros [<-|[]]. constructor.
    + intros H. inversion H. now left.
  - rewrite in_flat_map. split.
    + intros (x & Hx & Ha). apply in_seq in Hx. apply in_map_iff in Ha.
      destruct Ha as (a' & <- & Ha'). constructor. lia. now apply IH.
    + intros H. inversion H as [|x ? a' ? Hle Hr]; subst.
      exists x. split. apply in_seq. lia. apply in_map. now apply IH.
Qed.

Lemma NoDup_app' {A} (l1 l2 : list A) :
  NoDup l1 -> NoDup l2 -> (forall a, In a l1 -> ~ In a l2) -> NoDup (l1 ++ l2).
Proof.
  induction l1 as [|a l IH]; cbn; intros H1 H2 H; auto. inversion H1; subst. constructor.
  - rewrite in_app_iff. intros [?|?]; auto. eapply H; eauto.
  - apply IH; auto.
Qed.

Lemma nodup_flat_map {A B} (g : A -> list B) l :
  NoDup l -> (forall a, In a l -> NoDup (g a)) ->
  (forall a a' b, In a l -> In a' l -> In b (g a) -> In b (g a') -> a = a') ->
  NoDup (flat_map g l).
Proof.
  induction 1 as [|a l Hn Hl IH]; cbn; intros Hg Hd. constructor.
  apply NoDup_app'. apply Hg; now left. apply IH; auto. intros; eapply Hd; eauto.
  intros b Hb Hb'. apply in_flat_map in Hb'. destruct Hb' as (a' & Ia' & Ib').
  assert (a = a') by (eapply Hd; eauto). subst. contradiction.
Qed.

Lemma nodup_map_inj {A B} (f : A -> B) l :
  (forall x y, In x l -> In y l -> f x = f y -> x = y) -> NoDup l -> NoDup (map f l).
Proof.
  intros Hi. induction 1 as [|a l Hn Hl IH]; cbn; constructor.
  - intros H. apply in_map_iff in H. destruct H as (y & E & Iy).
    assert (y = a) by (apply Hi; cbn; auto). subst. contradiction.
  - apply IH. intros; apply Hi; cbn; auto.
Qed.

Lemma NoDup_splits n : NoDup (splits n).
Proof.
  induction n as [|d r IH]; cbn [splits].
  - constructor. intros []. constructor.
  - apply nodup_flat_map.
    + apply seq_NoDup.
    + intros x _. apply nodup_map_inj; auto. intros ? ? _ _ E. now inversion E.
    + intros x y b _ _ Hx Hy. apply in_map_iff in Hx, Hy.
      destruct Hx as (? & <- & _), Hy as (? & E & _). now inversion E.
Qed.

Lemma enumeration_in mid n k a :
  In (k, a) (enumeration mid n) <-> k < mid /\ Forall2 le a n.
Proof.
  unfold enumeration. rewrite in_flat_map. split.
  - intros (x & Hx & H). apply in_seq in Hx. apply in_map_iff in H.
    destruct H as (a' & E & Ha). inversion E; subst. split. lia. now apply in_splits.
  - intros [Hk Ha]. exists k. split. apply in_seq; lia. apply in_map. now apply in_splits.
Qed.

Lemma NoDup_enumeration mid n : NoDup (enumeration mid n).
Proof.
  unfold enumeration. apply nodup_flat_map.
  - apply seq_NoDup.
  - intros k _. apply nodup_map_inj. intros ? ? _ _ E. now inversion E. apply NoDup_splits.
  - intros x y b _ _ Hx Hy. apply in_map_iff in Hx, Hy.
    destruct Hx as (? & <- & _), Hy as (? & E & _). now inversion E.
Qed.

Lemma madd_msub n a : Forall2 le a n -> madd a (msub n a) = n.
Proof. induction 1; cbn; auto. f_equal; auto. lia. Qed.

Lemma msub_le n a : Forall2 le a n -> Forall2 le (msub n a) n.
Proof. induction 1; cbn; constructor; auto. lia. Qed.

Lemma msub_invol n a : Forall2 le a n -> msub n (msub n a) = a.
Proof. induction 1; cbn; auto. f_equal; auto. lia. Qed.

Lemma msub_madd a b : length a = length b -> msub (madd a b) a = b.
Proof.
  revert b. induction a as [|x a IH]; intros [|y b]; cbn; try discriminate; auto.
  intros E. f_equal. lia. apply IH. lia.
Qed.

Lemma madd_le a b : length a = length b -> Forall2 le a (madd a b).
Proof.
  revert b. induction a as [|x a IH]; intros [|y b]; cbn; try discriminate; constructor.
  lia. apply IH. lia.
Qed.

Lemma Forall2_le_length (a n : mi) : Forall2 le a n -> length a = length n.
Proof. induction 1; cbn; auto. Qed.

Lemma msub_length n a : length a = length n -> length (msub n a) = length n.
Proof.
  revert a. induction n as [|x n IH]; intros [|y a]; cbn; try discriminate; auto.
Qed.

(* pairs (a, b) with a + b = n: exactly (a, msub n a) for a in splits n *)
Definition splits2 (n : mi) : list (mi * mi) := map (fun a => (a, msub n a)) (splits n).

Lemma in_splits2 n a b :
  In (a, b) (splits2 n) <-> length a = length b /\ madd a b = n.
Proof.
  unfold splits2. rewrite in_map_iff. split.
  - intros (a' & E & H). inversion E; subst. apply in_splits in H. split.
    + rewrite msub_length; now apply Forall2_le_length.
    + now apply madd_msub.
  - intros [L <-]. exists a. split. now rewrite msub_madd. apply in_splits. now apply madd_le.
Qed.

Lemma NoDup_splits2 n : NoDup (splits2 n).
Proof.
  unfold splits2. apply nodup_map_inj. intros ? ? _ _ E. now inversion E. apply NoDup_splits.
Qed.

(* tuple order *)
Lemma tuple_gt_irrefl a : tuple_gt a a = false.
Proof. induction a; cbn; auto. now rewrite Nat.eqb_refl. Qed.

Lemma tuple_gt_antisym a b : tuple_gt a b = true -> tuple_gt b a = false.
Proof.
  revert b. induction a as [|x a IH]; intros [|y b]; cbn; auto; try discriminate.
  destruct (Nat.eqb x y) eqn:E.
  - apply Nat.eqb_eq in E. subst. rewrite Nat.eqb_refl. apply IH.
  - rewrite Nat.eqb_sym, E. intros H. apply Nat.ltb_lt in H. apply Nat.ltb_ge. lia.
Qed.

Lemma tuple_trichotomy a b :
  length a = length b -> tuple_gt a b = false -> tuple_gt b a = false -> a = b.
Proof.
  revert b. induction a as [|x a IH]; intros [|y b]; cbn; try discriminate; auto.
  intros L. destruct (Nat.eqb x y) eqn:E.
  - apply Nat.eqb_eq in E. subst. rewrite Nat.eqb_refl. intros; f_equal; apply IH; auto.
  - rewrite Nat.eqb_sym, E. intros H1 H2. apply Nat.ltb_ge in H1, H2.
    apply Nat.eqb_neq in E. lia.
Qed.

Lemma mi_eqb_eq a b : mi_eqb a b = true <-> a = b.
Proof. apply index_eqb_eq. Qed.

(* ---------------------------------------------------------------------- *)
(* Splittings into several parts along a chain of products (reversed order:
   the head of every list belongs to the LAST factor).

   pathsR mids n lists the pairs (ks, ps): ks = intermediate block indices
   (bounded by mids), ps = one multi-order per factor, summing to n. *)

Fixpoint msum (len : nat) (ps : list mi) : mi :=
  match ps with
  | [] => repeat 0 len
  | p :: r => madd p (msum len r)
  end.

Fixpoint pathsR (mids : list nat) (n : mi) : list (list nat * list mi) :=
  match mids with
  | [] => [([], [n])]
  | m :: r =>
      flat_map (fun k =>
        flat_map (fun ab => map (fun p => (k :: fst p, snd ab :: snd p)) (pathsR r (fst ab)))
                 (splits2 n))
        (seq 0 m)
  end.

Lemma madd_comm a b : madd a b = madd b a.
Proof.
  revert b. induction a as [|x a IH]; intros [|y b]; cbn; auto. f_equal. lia. apply IH.
Qed.

Lemma madd_zero_r p : madd p (repeat 0 (length p)) = p.
Proof. induction p; cbn; auto. f_equal; auto. Qed.

Lemma madd_length a b : length a = length b -> length (madd a b) = length a.
Proof.
  revert b. induction a as [|x a IH]; intros [|y b]; cbn; try discriminate; auto.
Qed.

Lemma msum_length len ps :
  Forall (fun p => length p = len) ps -> length (msum len ps) = len.
Proof.
  induction 1; cbn. apply repeat_length. rewrite madd_length; auto. congruence.
Qed.

Definition path_ok (mids : list nat) (n : mi) (ks : list nat) (ps : list mi) : Prop :=
  Forall2 lt ks mids /\
  length ps = S (length mids) /\
  Forall (fun p => length p = length n) ps /\
  msum (length n) ps = n.

Lemma in_pathsR mids : forall n ks ps,
  In (ks, ps) (pathsR mids n) <-> path_ok mids n ks ps.
Proof.
  unfold path_ok. induction mids as [|m r IH]; intros n ks ps; cbn [pathsR].
  - split.
    + intros [E|[]]. inversion E; subst. split; [constructor|]. split; [reflexivity|].
      split; [repeat constructor|]. cbn. apply madd_zero_r.
    + intros (F2 & L & Fl & S). inversion F2; subst.
      destruct ps as [|p [|? ?]]; try discriminate. inversion Fl; subst.
      cbn in S. rewrite <- H1, madd_zero_r in S. subst. now left.
  - rewrite in_flat_map. split.
    + intros (k & Hk & H). apply in_seq in Hk. apply in_flat_map in H.
      destruct H as ([a b] & Hab & H). apply in_map_iff in H. destruct H as ([ks' ps'] & E & H).
      cbn [fst snd] in *. inversion E; subst. apply IH in H. destruct H as (F2 & L & Fl & S).
      apply in_splits2 in Hab. destruct Hab as [Lab Sab].
      assert (length n = length a) as Ln by (rewrite <- Sab; now apply madd_length).
      repeat split.
      * constructor; auto. lia.
      * cbn. now rewrite L.
      * constructor. congruence. rewrite Ln. exact Fl.
      * cbn. rewrite Ln, S. now rewrite madd_comm.
    + intros (F2 & L & Fl & S). inversion F2 as [|k ? ks' ? Hk F2']; subst.
      destruct ps as [|b ps']; try discriminate. inversion Fl as [|? ? Lb Fl']; subst.
      cbn in S, L. set (a := msum (length n) ps') in *.
      assert (length a = length n) as La by (apply msum_length; auto).
      exists k. split. apply in_seq. lia. apply in_flat_map. exists (a, b). split.
      * apply in_splits2. split. congruence. now rewrite madd_comm.
      * apply in_map_iff. exists (ks', ps'). split; auto. apply IH. cbn [fst].
        split; [exact F2'|]. split; [lia|]. split; rewrite La; auto.
Qed.

Lemma NoDup_pathsR mids : forall n, NoDup (pathsR mids n).
Proof.
  induction mids as [|m r IH]; intros n; cbn [pathsR].
  - constructor. intros []. constructor.
  - apply nodup_flat_map.
    + apply seq_NoDup.
    + intros k _. apply nodup_flat_map.
      * apply NoDup_splits2.
      * intros [a b] _. apply nodup_map_inj; auto.
        intros [? ?] [? ?] _ _ E. cbn in E. now inversion E.
      * intros [a b] [a' b'] x Hab Hab' Hx Hx'. cbn [fst snd] in *.
        apply in_map_iff in Hx, Hx'. destruct Hx as ([ks ps] & <- & Hx), Hx' as ([ks' ps'] & E & Hx').
        cbn [fst snd] in *. inversion E; subst.
        apply in_pathsR in Hx, Hx'. destruct Hx as (_ & _ & _ & S), Hx' as (_ & _ & _ & S').
        apply in_splits2 in Hab, Hab'. destruct Hab as [L _], Hab' as [L' _].
        f_equal. rewrite <- S, <- S'. now rewrite L, L'.
    + intros k k' x _ _ Hx Hx'. apply in_flat_map in Hx, Hx'.
      destruct Hx as (ab & _ & Hx), Hx' as (ab' & _ & Hx').
      apply in_map_iff in Hx, Hx'. destruct Hx as (p & <- & _), Hx' as (p' & E & _).
      now inversion E.
Qed.
