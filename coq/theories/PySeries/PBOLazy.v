(* PySeries/PBOLazy.v

   Laziness of product_by_order: which factor elements are requested.
   The factors are pure tables V1, V2 with `in` tests K1, K2 and the state is the
   access log (true = first factor, false = second factor).  Every logged request
   stems from one (middle, orders_1st) pair of the enumeration for which
     - the Hermitian skip did not apply,
     - both complementary elements are `in` their series (not known zeros),
     - and, if the element was requested second (by the cost rule), the element
       requested first was not the sentinel zero.
*)

Require Import List Arith Bool Lia.
Import ListNotations.
Require Import PV.PySeries.Sentinel PV.PySeries.Cache PV.PySeries.ProductByOrder.

Set Implicit Arguments.

Section Lazy.
  Variable R : Type.
  Variables (radd rmul : R -> R -> R) (radj : R -> R).
  Variables V1 V2 : index -> sval R.
  Variables K1 K2 : index -> bool.

  Definition alog := list (bool * index).

  Definition lget1 (i : index) (l : alog) : res pyerr (sval R) * alog := (Ok (V1 i), l ++ [(true, i)]).
  Definition lget2 (i : index) (l : alog) : res pyerr (sval R) * alog := (Ok (V2 i), l ++ [(false, i)]).
  Definition lhas1 (i : index) (l : alog) : bool := K1 i.
  Definition lhas2 (i : index) (l : alog) : bool := K2 i.

  Definition lpbo := product_by_order radd rmul radj lhas1 lhas2 lget1 lget2.
  Definition lloop := pbo_loop radd rmul radj lhas1 lhas2 lget1 lget2.

  Definition justified (herm : bool) (start end_ : nat) (orders : mi)
             (todo : list (nat * mi)) (e : bool * index) : Prop :=
    exists k a c1 c2,
      In (k, a) todo /\
      let b := msub orders a in
      let i1 := start :: k :: a in
      let i2 := k :: end_ :: b in
      herm && tuple_gt a b = false /\
      K1 i1 = true /\ K2 i2 = true /\
      cost a = Some c1 /\ cost b = Some c2 /\
      ((e = (true, i1) /\ (Nat.leb c1 c2 = true \/ is_zero (V2 i2) = false)) \/
       (e = (false, i2) /\ (Nat.leb c1 c2 = false \/ is_zero (V1 i1) = false))).

  Lemma justified_incl herm s e n todo todo' x :
    incl todo todo' -> justified herm s e n todo x -> justified herm s e n todo' x.
  Proof.
    intros Hi (k & a & c1 & c2 & Hin & H). exists k, a, c1, c2. split; auto.
  Qed.

  Lemma loop_lazy herm s e n todo :
    forall acc l0, exists l,
      snd (lloop herm s e n todo acc l0) = l0 ++ l /\ Forall (justified herm s e n todo) l.
  Proof.
    induction todo as [|[k a] rest IH]; intros acc l0.
    - exists []. cbn. rewrite app_nil_r. split; constructor.
    - assert (incl rest ((k, a) :: rest)) as Hincl by (intros x Hx; now right).
      assert (forall acc' l1 lmid,
                 Forall (justified herm s e n ((k, a) :: rest)) lmid ->
                 l1 = l0 ++ lmid ->
                 exists l, snd (lloop herm s e n rest acc' l1) = l0 ++ l /\
                           Forall (justified herm s e n ((k, a) :: rest)) l) as Hcont.
      { intros acc' l1 lmid Hm ->. destruct (IH acc' (l0 ++ lmid)) as (l & E & F).
        exists (lmid ++ l). rewrite E, app_assoc. split; auto.
        apply Forall_app. split; auto.
        eapply Forall_impl; [|exact F]. intros x. now apply justified_incl. }
      unfold lloop. cbn [pbo_loop]. fold lloop.
      set (b := msub n a). set (i1 := s :: k :: a). set (i2 := k :: e :: b).
      destruct (herm && tuple_gt a b) eqn:G.
      { apply (Hcont acc l0 []); auto. now rewrite app_nil_r. }
      unfold lhas1, lhas2.
      destruct (K1 i1) eqn:HK1; cbn [negb orb].
      2:{ apply (Hcont acc l0 []); auto. now rewrite app_nil_r. }
      destruct (K2 i2) eqn:HK2; cbn [negb orb].
      2:{ apply (Hcont acc l0 []); auto. now rewrite app_nil_r. }
      destruct (cost a) as [c1|] eqn:C1.
      2:{ exists []. cbn. rewrite app_nil_r. split; constructor. }
      destruct (cost b) as [c2|] eqn:C2.
      2:{ exists []. cbn. rewrite app_nil_r. split; constructor. }
      assert (forall w idx,
                 ((w, idx) = (true, i1) /\ (Nat.leb c1 c2 = true \/ is_zero (V2 i2) = false)) \/
                 ((w, idx) = (false, i2) /\ (Nat.leb c1 c2 = false \/ is_zero (V1 i1) = false)) ->
                 justified herm s e n ((k, a) :: rest) (w, idx)) as J.
      { intros w idx H. exists k, a, c1, c2. split. now left.
        fold b i1 i2. repeat split; auto. }
      unfold fetch, lget1, lget2.
      assert (forall lmid, (forall x, In x lmid -> justified herm s e n ((k, a) :: rest) x) ->
                           Forall (justified herm s e n ((k, a) :: rest)) lmid) as FA
          by (intros; now apply Forall_forall).
      destruct (Nat.leb c1 c2) eqn:L.
      + destruct (is_zero (V1 i1)) eqn:Z1.
        * apply (Hcont acc _ [(true, i1)]); [|reflexivity].
          apply FA. intros x [<-|[]]. apply J. auto.
        * assert (Forall (justified herm s e n ((k, a) :: rest)) [(true, i1); (false, i2)]) as F2.
          { apply FA. intros x [<-|[<-|[]]]; apply J; auto. }
          destruct (is_zero (V2 i2)) eqn:Z2.
          -- rewrite <- app_assoc. apply (Hcont acc _ [(true, i1); (false, i2)]); auto.
          -- rewrite <- app_assoc.
             destruct (accumulate radd radj herm a b acc (py_term rmul (V1 i1) (V2 i2))) as [acc'|err].
             ++ apply (Hcont acc' _ [(true, i1); (false, i2)]); auto.
             ++ exists [(true, i1); (false, i2)]. cbn [snd]. split; auto.
      + destruct (is_zero (V2 i2)) eqn:Z2.
        * apply (Hcont acc _ [(false, i2)]); [|reflexivity].
          apply FA. intros x [<-|[]]. apply J. auto.
        * assert (Forall (justified herm s e n ((k, a) :: rest)) [(false, i2); (true, i1)]) as F2.
          { apply FA. intros x [<-|[<-|[]]]; apply J; auto. }
          destruct (is_zero (V1 i1)) eqn:Z1.
          -- rewrite <- app_assoc. apply (Hcont acc _ [(false, i2); (true, i1)]); auto.
          -- rewrite <- app_assoc.
             destruct (accumulate radd radj herm a b acc (py_term rmul (V1 i1) (V2 i2))) as [acc'|err].
             ++ apply (Hcont acc' _ [(false, i2); (true, i1)]); auto.
             ++ exists [(false, i2); (true, i1)]. cbn [snd]. split; auto.
  Qed.

  Theorem pbo_lazy hermitian mid s e n l0 :
    exists l,
      snd (lpbo hermitian mid s e n l0) = l0 ++ l /\
      Forall (justified (hermitian && Nat.eqb s e) s e n (enumeration mid n)) l.
  Proof. apply loop_lazy. Qed.

  (* with pure tables every result is a value or a TypeError/SympifyError of the
     sentinel arithmetic, never out of fuel *)
End Lazy.
