(* PySeries/CauchyProofs.v

   World-level soundness of the model of cauchy_dot_product (CauchyDot.v):
   whatever the request history, cache contents, fuel and exceptions, a value
   returned for element (i, j, n) of a product series denotes the Cauchy sum of the
   specifications of its two factors (cdp_sound).  The Hermitian shortcuts are
   covered under their hypotheses: the transposition wrapper needs the product to
   be Hermitian, the half-sum needs the factors to be mutual adjoints.
*)

Require Import Ncring Ncring_tac Setoid Morphisms List Bool.
Import ListNotations.
Require Import PV.PySeries.Sentinel PV.PySeries.Cache PV.PySeries.ProductByOrder
        PV.PySeries.CauchyDot PV.PySeries.MultiIndex PV.PySeries.RSum PV.PySeries.PBOProofs.

Set Implicit Arguments.

Section Sound.
  Context {T : Type} `{Rg : Ring T}.
  Variable adj : T -> T.
  Hypothesis adj_proper : Proper (_==_ ==> _==_) adj.
  Hypothesis adj_add : forall x y, adj (x + y) == adj x + adj y.
  Hypothesis adj_mul : forall x y, adj (x * y) == adj y * adj x.
  Hypothesis adj_invol : forall x, adj (adj x) == x.

  Variable descs : list (sdesc T).
  Variable spec : sid -> index -> T.      (* what each element of each series denotes *)

  Definition mid_of (a : sid) : nat := cols (head_at descs a).

  (* the specification is consistent with the descriptors *)
  Definition base_ok : Prop :=
    forall s h tbl, nth_error descs s = Some (SBase h tbl) ->
                    forall i v, tbl i = Ok v -> sden v == spec s i.

  Definition prod_ok : Prop :=
    forall s h m a b, nth_error descs s = Some (SProd h m a b) ->
      (forall start end_ orders,
          spec s (start :: end_ :: orders)
          == cauchy_sum (spec a) (spec b) (mid_of a) start end_ orders) /\
      (mode_wraps m = true ->
       forall start end_ orders,
         spec s (start :: end_ :: orders) == adj (spec s (end_ :: start :: orders))) /\
      (mode_halfsum m = true ->
       forall i k n, spec b (k :: i :: n) == adj (spec a (i :: k :: n))).

  Hypothesis Hbase : base_ok.
  Hypothesis Hprod : prod_ok.

  (* cache invariant: every evaluated entry denotes its specification *)
  Definition cinv (w : world (sval T)) : Prop :=
    forall s i v, wlookup w s i = Some (Done v) -> sden v == spec s i.

  Lemma cinv_set_pending s i w : cinv w -> cinv (log_event (EvEval s i) (set_entry s i Pending w)).
  Proof.
    intros C s' i' v L. rewrite wlookup_log in L.
    destruct (pair_neq_dec s s' i i') as [P|P].
    - inversion P; subst. rewrite wlookup_set_entry_eq in L. discriminate.
    - rewrite wlookup_set_entry_neq in L by auto. now apply C.
  Qed.

  Lemma cinv_set_done s i v w : cinv w -> sden v == spec s i -> cinv (set_entry s i (Done v) w).
  Proof.
    intros C D s' i' v' L.
    destruct (pair_neq_dec s s' i i') as [P|P].
    - inversion P; subst. rewrite wlookup_set_entry_eq in L. inversion L; subst. exact D.
    - rewrite wlookup_set_entry_neq in L by auto. now apply C.
  Qed.

  (* removing keys can only shrink the set of evaluated entries (for caches without
     repeated keys) *)
  Lemma cinv_drop s i w : wf_world w -> cinv w -> cinv (drop_entry s i w).
  Proof.
    intros W C s' i' v L.
    destruct (pair_neq_dec s s' i i') as [P|P].
    - inversion P; subst. rewrite wlookup_drop_eq in L by auto. discriminate.
    - rewrite wlookup_drop_neq in L by auto. now apply C.
  Qed.

  Definition winv (w : world (sval T)) : Prop := wf_world w /\ cinv w.

  Definition sound_cb (g : callback (sval T) pyerr) : Prop :=
    forall s i w, winv w ->
      winv (snd (g s i w)) /\ forall v, fst (g s i w) = Ok v -> sden v == spec s i.

  Lemma contains_false_zero w a i :
    winv w -> wcontains (szero_test (R:=T)) w a i = false -> spec a i == 0.
  Proof.
    intros [_ C] H. unfold wcontains, contains in H. fold (wlookup w a i) in H.
    destruct (wlookup w a i) as [[|v]|] eqn:L; try discriminate.
    apply negb_false_iff in H. rewrite <- (C a i v L). now apply is_zero_sden.
  Qed.

  Lemma eval_sound g : sound_cb g ->
    forall s i w, winv w ->
      winv (snd (cdp_eval tadd tmul adj descs s g i w)) /\
      forall v, fst (cdp_eval tadd tmul adj descs s g i w) = Ok v -> sden v == spec s i.
  Proof.
    intros Hg s i w I. unfold cdp_eval.
    destruct (nth_error descs s) as [[h tbl|h m a b]|] eqn:D.
    - cbn. split; auto. intros v E. eapply Hbase; eauto.
    - destruct (Hprod _ D) as (Hsum & Hherm & Hmut).
      destruct i as [|start [|end_ orders]]; try (cbn; split; auto; discriminate).
      destruct (mode_wraps m && Nat.ltb end_ start) eqn:Wr.
      + destruct (Nat.leb (rows h) end_ || Nat.leb (cols h) start); [cbn; split; auto; discriminate|].
        destruct (Hg s (end_ :: start :: orders) w I) as [I' Hv].
        destruct (g s (end_ :: start :: orders) w) as [[v|x|] w']; cbn [fst snd] in *;
          try (split; auto; discriminate).
        split; auto. intros d E.
        destruct (py_dagger adj v) as [d'|] eqn:Dg; inversion E; subst.
        rewrite (sden_dagger adj_proper adj_add _ Dg), (Hv v eq_refl).
        apply andb_true_iff in Wr. destruct Wr as [Wr _]. symmetry. now apply Hherm.
      + destruct (pbo_spec adj_proper adj_add (Inv:=winv)
                     (has1:=fun i1 w => wcontains (szero_test (R:=T)) w a i1)
                     (has2:=fun i2 w => wcontains (szero_test (R:=T)) w b i2)
                     (get1:=g a) (get2:=g b) (F1:=spec a) (F2:=spec b)
                     (Hg a) (Hg b)
                     (fun i st Ist H => contains_false_zero a i Ist H)
                     (fun i st Ist H => contains_false_zero b i Ist H)
                     (mode_halfsum m) (mid_of a) start end_ orders w I) as [I' Hv].
        split; auto. intros v E. rewrite (Hv v E), Hsum.
        destruct (mode_halfsum m && Nat.eqb start end_) eqn:HS.
        * apply andb_true_iff in HS. destruct HS as [HS Eq]. apply PeanoNat.Nat.eqb_eq in Eq. subst end_.
          apply (halfsum_adjoint adj_proper adj_mul adj_invol).
          intros k n _. now apply Hmut.
        * rewrite enumeration_sum. apply bigsum_ext. intros k _. apply bigsum_ext. intros n _.
          unfold contrib. cbn. reflexivity.
    - cbn. split; auto. discriminate.
  Qed.

  Theorem cdp_sound fuel : sound_cb (cdp_getitem tadd tmul adj descs fuel).
  Proof.
    unfold cdp_getitem. induction fuel as [|f IH]; intros s i w I; cbn [getitem].
    - cbn. split; auto. discriminate.
    - destruct (wlookup w s i) as [[|v]|] eqn:L; cbn [fst snd].
      + split; auto. discriminate.
      + split; auto. intros v' E. inversion E; subst. destruct I as [_ C]. now apply C.
      + assert (winv (log_event (EvEval s i) (set_entry s i Pending w))) as I1.
        { destruct I as [W C]. split. apply wf_log, wf_set_entry, W. now apply cinv_set_pending. }
        destruct (eval_sound IH s i I1) as [I2 Hv].
        destruct (cdp_eval tadd tmul adj descs s (getitem (cdp_eval tadd tmul adj descs) f) i _)
          as [[v|x|] w2]; cbn [fst snd] in *.
        * split.
          -- destruct I2 as [W2 C2]. split. now apply wf_set_entry.
             apply cinv_set_done; auto.
          -- intros v' E. inversion E; subst. auto.
        * assert (winv (drop_entry s i w2)) as I3.
          { destruct I2 as [W2 C2]. split. now apply wf_drop. now apply cinv_drop. }
          destruct x; cbn; split; auto; discriminate.
        * split. destruct I2 as [W2 C2]. split. now apply wf_drop. now apply cinv_drop.
          discriminate.
  Qed.

End Sound.

(* ---------------------------------------------------------------------- *)
(* Stand-alone forms of the two Hermitian shortcuts. *)

Section Herm.
  Context {T : Type} `{Rg : Ring T}.
  Variable adj : T -> T.
  Hypothesis adj_proper : Proper (_==_ ==> _==_) adj.
  Hypothesis adj_add : forall x y, adj (x + y) == adj x + adj y.

  (* The index-transposition wrapper (both the two-factor and the many-factor
     variant): if the product P is Hermitian and the element (j, i, n) obtained from
     the product series denotes P(j, i, n), the wrapper returns a value denoting
     P(i, j, n). *)
  Theorem herm_transpose (descs : list (sdesc T)) (P : index -> T)
          s h m a b (g : callback (sval T) pyerr) start end_ orders w :
    nth_error descs s = Some (SProd h m a b) ->
    mode_wraps m = true ->
    Nat.ltb end_ start = true ->
    (forall i j n, P (i :: j :: n) == adj (P (j :: i :: n))) ->
    (forall v, fst (g s (end_ :: start :: orders) w) = Ok v -> sden v == P (end_ :: start :: orders)) ->
    forall d, fst (cdp_eval tadd tmul adj descs s g (start :: end_ :: orders) w) = Ok d ->
              sden d == P (start :: end_ :: orders).
  Proof.
    intros D M L HP Hg d. unfold cdp_eval. rewrite D, M, L. cbn [andb].
    destruct (Nat.leb (rows h) end_ || Nat.leb (cols h) start); [discriminate|].
    destruct (g s (end_ :: start :: orders) w) as [[v|x|] w']; cbn [fst snd] in *; try discriminate.
    destruct (py_dagger adj v) as [d'|] eqn:Dg; intros E; inversion E; subst.
    rewrite (sden_dagger adj_proper adj_add _ Dg), (Hg v eq_refl). symmetry. apply HP.
  Qed.

  Hypothesis adj_mul : forall x y, adj (x * y) == adj y * adj x.
  Hypothesis adj_invol : forall x, adj (adj x) == x.

  (* The half-sum on a diagonal block, for mutually adjoint factors. *)
  Theorem pbo_halfsum_adjoint
          St (has1 has2 : index -> St -> bool)
          (get1 get2 : index -> St -> res pyerr (sval T) * St)
          (Inv : St -> Prop) (F1 F2 : index -> T) :
    get_ok Inv get1 F1 -> get_ok Inv get2 F2 -> has_ok Inv has1 F1 -> has_ok Inv has2 F2 ->
    forall mid i orders st,
      (forall k a, F2 (k :: i :: a) == adj (F1 (i :: k :: a))) ->
      Inv st ->
      forall v, fst (product_by_order tadd tmul adj has1 has2 get1 get2 true mid i i orders st) = Ok v ->
                sden v == cauchy_sum F1 F2 mid i i orders.
  Proof.
    intros G1 G2 H1 H2 mid i orders st Mut I v E.
    destruct (pbo_spec adj_proper adj_add G1 G2 H1 H2 true mid i i orders st I) as [_ Hv].
    rewrite (Hv v E). rewrite PeanoNat.Nat.eqb_refl. cbn [andb].
    apply (halfsum_adjoint adj_proper adj_mul adj_invol). intros k a _. apply Mut.
  Qed.
End Herm.
