(* PySeries/ViewProofs.v : the finite-only views of BlockSeries.__getitem__. *)

Require Import List ZArith Arith Bool Lia.
Import ListNotations.
Require Import PV.PySeries.Sentinel PV.PySeries.Cache PV.PySeries.Index PV.PySeries.GetItem
        PV.PySeries.IndexProofs.

Set Implicit Arguments.

Section Views.
  Variable X : Type.
  Variable xzero : X -> bool.
  Variable xdefault : X.

  (* series[z1..zk] with k = number of finite dimensions, all integers: the request creates the
     view (no evaluation, no bounds check) *)
  Theorem view_int_created fuel (descs : list (bdesc X)) s (zs : list Z) (w : bworld X) :
    let hd := bhead_at descs s in
    length zs = length (fshape hd) -> 0 < bninf hd ->
    bs_request xzero xdefault fuel descs (QGet s (map IInt zs)) w =
    (OView (length descs) [], descs ++ [BViewInt (mkBS [] (bninf hd)) s zs], w).
  Proof.
    intros hd L N. unfold bs_request. fold hd.
    rewrite map_length, L, Nat.eqb_refl. apply Nat.ltb_lt in N. rewrite N. cbn [andb].
    assert (forallb is_int (map IInt zs) = true) as -> by (clear; induction zs; cbn; auto).
    assert (flat_map (fun i => match i with IInt z => [z] | _ => [] end) (map IInt zs) = zs) as ->
        by (clear; induction zs; cbn; auto; now f_equal).
    reflexivity.
  Qed.

  (* its element idx IS the element (normalised item ++ idx) of the original: same result,
     same effect on the world (one element request on the parent) *)
  Theorem view_int_element (descs : list (bdesc X)) v h p (zs : list Z) fpos
          (g : bcallback X) (idx : index) (w : bworld X) :
    nth_error descs v = Some (BViewInt h p zs) ->
    length zs = length (fshape (bhead_at descs p)) ->
    length idx = bninf (bhead_at descs p) ->
    Forall2 (fun dz n => norm_int (fst dz) (snd dz) = Some n)
            (combine (fshape (bhead_at descs p)) zs) fpos ->
    bs_eval xdefault descs v g idx w = g p (fpos ++ idx) w.
  Proof.
    intros D L1 L2 F. unfold bs_eval. rewrite D.
    rewrite (getitem_all_ints xdefault g (bhead_at descs p) p zs idx w L1 L2 F).
    destruct (g p (fpos ++ idx) w) as [[x|e|] w']; reflexivity.
  Qed.

  (* an out-of-bounds integer in the item surfaces as IndexError when an element is requested *)
  Theorem view_int_out_of_bounds (descs : list (bdesc X)) v h p (zs : list Z)
          (g : bcallback X) (idx : index) (w : bworld X) :
    nth_error descs v = Some (BViewInt h p zs) ->
    length zs = length (fshape (bhead_at descs p)) ->
    length idx = bninf (bhead_at descs p) ->
    norm_all false (fshape (bhead_at descs p)) (map IInt zs) = IErr EIndex ->
    bs_eval xdefault descs v g idx w = (Raise IndexError, w).
  Proof.
    intros D L1 L2 N. unfold bs_eval. rewrite D. unfold bs_getitem_full.
    set (hd := bhead_at descs p) in *.
    set (oz := map (fun n => IInt (Z.of_nat n)) idx).
    assert (length oz = length idx) as Loz by (unfold oz; apply map_length).
    assert (skipn (length (fshape hd)) (map IInt zs ++ oz) = oz) as ->.
    { rewrite skipn_app, skipn_all2 by (rewrite map_length; lia).
      rewrite map_length, L1, Nat.sub_diag. reflexivity. }
    assert (existsb order_bad oz = false) as ->.
    { unfold oz. clear. induction idx as [|n r IH]; cbn; auto. rewrite IH.
      assert ((Z.of_nat n <? 0)%Z = false) as -> by (apply Z.ltb_ge; lia). reflexivity. }
    rewrite app_length, map_length, Loz, L1, L2, Nat.eqb_refl. cbn [negb].
    assert (extents oz = IOk (map (fun n => n + 1) idx)) as ->.
    { unfold oz. clear. induction idx as [|n r IH]; cbn; auto. rewrite IH. now rewrite Nat2Z.id. }
    assert (np_index (fshape hd ++ map (fun n => n + 1) idx) (map IInt zs ++ oz) = IErr EIndex) as ->;
      [|reflexivity].
    unfold np_index.
    assert (length (fshape hd ++ map (fun n => n + 1) idx) = length (map IInt zs ++ oz)) as ->.
    { rewrite !app_length, !map_length, Loz. lia. }
    rewrite Nat.ltb_irrefl, Nat.sub_diag. cbn [repeat]. rewrite app_nil_r.
    assert (forall sh zs0 ext more, length zs0 = length sh -> norm_all false sh (map IInt zs0) = IErr EIndex ->
                                    basic_error (sh ++ ext) (map IInt zs0 ++ more) = Some EIndex) as H.
    { clear. induction sh as [|d sh IH]; intros [|z zs0] ext more L E; try discriminate.
      cbn in *. destruct (norm_int d z) eqn:N; cbn in *; auto.
      destruct (norm_all false sh (map IInt zs0)) eqn:E2; [discriminate|]. inversion E; subst.
      apply IH; auto. }
    rewrite H; auto.
  Qed.
End Views.
