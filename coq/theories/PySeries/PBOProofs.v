(* PySeries/PBOProofs.v

   Theorems about the model of product_by_order (ProductByOrder.v):

   pbo_spec     for accessors that return values denoting F1 / F2 (while some state
                invariant holds) and whose `in` test is false only on elements that
                denote 0, the result denotes the sum of the contributions of all
                (middle, splitting) pairs; for hermitian = False this is the full
                Cauchy sum (pbo_full_sum).
   pbo_lazy     which factor elements are requested (pure tables + access log).
   halfsum_adjoint  the Hermitian half-sum equals the full sum when the factors are
                mutual adjoints.
*)

Require Import Ncring Ncring_tac Setoid Morphisms List Bool Permutation.
Import ListNotations.
Require Import PV.PySeries.Sentinel PV.PySeries.Cache PV.PySeries.ProductByOrder
        PV.PySeries.MultiIndex PV.PySeries.RSum.

Set Implicit Arguments.

Section Den.
  Context {T : Type} `{Rg : Ring T}.
  Variable adj : T -> T.
  Hypothesis adj_proper : Proper (_==_ ==> _==_) adj.
  Hypothesis adj_add : forall x y, adj (x + y) == adj x + adj y.

  Definition sden (x : sval T) : T := den 0 1 x.

  Definition tadd : T -> T -> T := fun x y => x + y.
  Definition tmul : T -> T -> T := fun x y => x * y.

  Instance tadd_proper : Proper (_==_ ==> _==_ ==> _==_) tadd.
  Proof. intros a b E c d F. unfold tadd. rewrite E, F. reflexivity. Qed.

  Lemma sden_add x y z : py_add tadd x y = SOk z -> sden z == sden x + sden y.
  Proof.
    apply (@den_add T 0 1 tadd equality); try typeclasses eauto.
    intros a. unfold tadd. apply add_zero_l.
  Qed.

  Lemma sden_term x y : sden (py_term tmul x y) == sden x * sden y.
  Proof.
    apply (@den_term T 0 1 tmul equality); try typeclasses eauto; intros a; unfold tmul.
    apply mul_zero_l. apply mul_zero_r. apply mul_one_l. apply mul_one_r.
  Qed.

  Lemma sden_dagger x z : py_dagger adj x = SOk z -> sden z == adj (sden x).
  Proof.
    apply (@den_dagger T 0 1 adj equality); try typeclasses eauto.
    apply adj_zero; auto.
  Qed.

  Lemma sden_accum_herm r t z :
    py_accum_herm tadd adj r t = SOk z -> sden z == sden r + sden t + adj (sden t).
  Proof.
    apply (@den_accum_herm T 0 1 tadd adj equality); try typeclasses eauto.
    intros a. unfold tadd. apply add_zero_l. apply adj_zero; auto.
  Qed.

  Lemma is_zero_sden (v : sval T) : is_zero v = true -> sden v == 0.
  Proof. destruct v; cbn; try discriminate. reflexivity. Qed.

  (* ------------------------------------------------------------------ *)
  Section Spec.
    Variable St : Type.
    Variables has1 has2 : index -> St -> bool.
    Variables get1 get2 : index -> St -> res pyerr (sval T) * St.
    Variable Inv : St -> Prop.
    Variables F1 F2 : index -> T.

    Definition get_ok (get : index -> St -> res pyerr (sval T) * St) (F : index -> T) : Prop :=
      forall i st, Inv st ->
        Inv (snd (get i st)) /\ forall v, fst (get i st) = Ok v -> sden v == F i.
    Definition has_ok (has : index -> St -> bool) (F : index -> T) : Prop :=
      forall i st, Inv st -> has i st = false -> F i == 0.

    Hypothesis Hget1 : get_ok get1 F1.
    Hypothesis Hget2 : get_ok get2 F2.
    Hypothesis Hhas1 : has_ok has1 F1.
    Hypothesis Hhas2 : has_ok has2 F2.

    Lemma fetch_spec ff i1 i2 st :
      Inv st ->
      Inv (snd (fetch get1 get2 ff i1 i2 st)) /\
      match fst (fetch get1 get2 ff i1 i2 st) with
      | Ok None => F1 i1 * F2 i2 == 0
      | Ok (Some (v1, v2)) => sden v1 == F1 i1 /\ sden v2 == F2 i2
      | _ => True
      end.
    Proof.
      intros I. unfold fetch. destruct ff.
      - destruct (Hget1 i1 I) as [I1 D1]. destruct (get1 i1 st) as [[v1|x|] st1]; cbn in *; auto.
        destruct (is_zero v1) eqn:Z1; cbn.
        + split; auto. rewrite <- (D1 v1 eq_refl), (is_zero_sden _ Z1). apply mul_zero_l.
        + destruct (Hget2 i2 I1) as [I2 D2].
          destruct (get2 i2 st1) as [[v2|x|] st2]; cbn in *; auto.
          destruct (is_zero v2) eqn:Z2; cbn.
          * split; auto. rewrite <- (D2 v2 eq_refl), (is_zero_sden _ Z2). apply mul_zero_r.
          * split; auto.
      - destruct (Hget2 i2 I) as [I1 D1]. destruct (get2 i2 st) as [[v2|x|] st1]; cbn in *; auto.
        destruct (is_zero v2) eqn:Z1; cbn.
        + split; auto. rewrite <- (D1 v2 eq_refl), (is_zero_sden _ Z1). apply mul_zero_r.
        + destruct (Hget1 i1 I1) as [I2 D2].
          destruct (get1 i1 st1) as [[v1|x|] st2]; cbn in *; auto.
          destruct (is_zero v1) eqn:Z2; cbn.
          * split; auto. rewrite <- (D2 v1 eq_refl), (is_zero_sden _ Z2). apply mul_zero_l.
          * split; auto.
    Qed.

    (* what one (middle, orders_1st) pair contributes to the result *)
    Definition contrib (herm : bool) (start end_ : nat) (orders : mi) (ka : nat * mi) : T :=
      let b := msub orders (snd ka) in
      let t := F1 (start :: fst ka :: snd ka) * F2 (fst ka :: end_ :: b) in
      if herm && tuple_gt (snd ka) b then 0
      else if negb herm || mi_eqb (snd ka) b then t else t + adj t.

    Lemma if_zero_term (c : bool) (t : T) :
      t == 0 -> (if c then t else t + adj t) == 0.
    Proof.
      intros Z. destruct c; auto. rewrite Z, (adj_zero adj_proper adj_add). apply add_zero_l.
    Qed.

    Lemma accumulate_spec herm o1 o2 acc term z :
      accumulate tadd adj herm o1 o2 acc term = SOk z ->
      sden z == sden acc + (if negb herm || mi_eqb o1 o2 then sden term
                            else sden term + adj (sden term)).
    Proof.
      unfold accumulate. destruct (negb herm || mi_eqb o1 o2).
      - apply sden_add.
      - intros H. rewrite (sden_accum_herm _ _ H). apply add_assoc'.
    Qed.

    Lemma loop_spec herm start end_ orders todo :
      forall acc st, Inv st ->
        let r := pbo_loop tadd tmul adj has1 has2 get1 get2 herm start end_ orders todo acc st in
        Inv (snd r) /\
        forall v, fst r = Ok v ->
                  sden v == sden acc + bigsum (contrib herm start end_ orders) todo.
    Proof.
      induction todo as [|[k a] rest IH]; intros acc st I; cbn [pbo_loop].
      - cbn. split; auto. intros v E. inversion E; subst. symmetry. apply add_zero_r.
      - cbn [bigsum]. unfold contrib at 1. cbn [fst snd].
        set (b := msub orders a). set (i1 := start :: k :: a). set (i2 := k :: end_ :: b).
        destruct (herm && tuple_gt a b) eqn:G.
        { destruct (IH acc st I) as [I' H]. split; auto. intros v E.
          rewrite (H v E). rewrite add_zero_l. reflexivity. }
        destruct (negb (has1 i1 st) || negb (has2 i2 st)) eqn:C.
        { destruct (IH acc st I) as [I' H]. split; auto. intros v E. rewrite (H v E).
          assert (F1 i1 * F2 i2 == 0) as Z.
          { apply orb_true_iff in C. destruct C as [C|C]; apply negb_true_iff in C.
            - rewrite (Hhas1 I C). apply mul_zero_l.
            - rewrite (Hhas2 I C). apply mul_zero_r. }
          rewrite (if_zero_term _ Z), add_zero_l. reflexivity. }
        destruct (cost a) as [c1|]; [|cbn; split; auto; discriminate].
        destruct (cost b) as [c2|]; [|cbn; split; auto; discriminate].
        destruct (fetch_spec (Nat.leb c1 c2) i1 i2 I) as [I' Hf].
        destruct (fetch get1 get2 (Nat.leb c1 c2) i1 i2 st) as [[[[v1 v2]|]|x|] st']; cbn [fst snd] in *.
        + destruct Hf as [D1 D2].
          destruct (accumulate tadd adj herm a b acc (py_term tmul v1 v2)) as [acc'|e] eqn:A.
          * destruct (IH acc' st' I') as [I'' H]. split; auto. intros v E. rewrite (H v E).
            rewrite (accumulate_spec _ _ _ _ _ A).
            assert (sden (py_term tmul v1 v2) == F1 i1 * F2 i2) as Et
                by (rewrite sden_term, D1, D2; reflexivity).
            destruct (negb herm || mi_eqb a b); rewrite Et; apply add_assoc'.
          * cbn. split; auto. discriminate.
        + destruct (IH acc st' I') as [I'' H]. split; auto. intros v E. rewrite (H v E).
          rewrite (if_zero_term _ Hf), add_zero_l. reflexivity.
        + split; auto. discriminate.
        + split; auto. discriminate.
    Qed.

    Theorem pbo_spec hermitian mid start end_ orders st :
      Inv st ->
      let r := product_by_order tadd tmul adj has1 has2 get1 get2 hermitian mid start end_ orders st in
      Inv (snd r) /\
      forall v, fst r = Ok v ->
        sden v == bigsum (contrib (hermitian && Nat.eqb start end_) start end_ orders)
                         (enumeration mid orders).
    Proof.
      intros I. unfold product_by_order.
      destruct (loop_spec (hermitian && Nat.eqb start end_) start end_ orders
                          (enumeration mid orders) SZero I) as [I' H].
      split; auto. intros v E. rewrite (H v E). cbn. apply add_zero_l.
    Qed.

    (* The multivariate Cauchy sum over the middle block index and all splittings *)
    Definition cauchy_sum (mid start end_ : nat) (orders : mi) : T :=
      bigsum (fun k =>
                bigsum (fun a => F1 (start :: k :: a) * F2 (k :: end_ :: msub orders a))
                       (splits orders))
             (seq 0 mid).

    Lemma enumeration_sum (f : nat * mi -> T) mid orders :
      bigsum f (enumeration mid orders)
      == bigsum (fun k => bigsum (fun a => f (k, a)) (splits orders)) (seq 0 mid).
    Proof.
      unfold enumeration. rewrite bigsum_flat_map. apply bigsum_ext. intros k _.
      rewrite bigsum_map. reflexivity.
    Qed.

    Theorem pbo_full_sum mid start end_ orders st :
      Inv st ->
      let r := product_by_order tadd tmul adj has1 has2 get1 get2 false mid start end_ orders st in
      Inv (snd r) /\
      forall v, fst r = Ok v -> sden v == cauchy_sum mid start end_ orders.
    Proof.
      intros I. destruct (pbo_spec false mid start end_ orders I) as [I' H].
      split; auto. intros v E. rewrite (H v E). cbn [andb].
      rewrite enumeration_sum. apply bigsum_ext. intros k _. apply bigsum_ext. intros a _.
      unfold contrib. cbn. reflexivity.
    Qed.

  End Spec.

  (* ------------------------------------------------------------------ *)
  (* Hermitian half-sum for mutually adjoint factors, diagonal block i. *)
  Section HalfSum.
    Hypothesis adj_mul : forall x y, adj (x * y) == adj y * adj x.
    Hypothesis adj_invol : forall x, adj (adj x) == x.
    Variables F1 F2 : index -> T.
    Variable i : nat.
    Variable orders : mi.
    (* second(k, i, a) = adjoint of first(i, k, a) *)
    Hypothesis mutual : forall k a, Forall2 le a orders ->
                                    F2 (k :: i :: a) == adj (F1 (i :: k :: a)).

    Let t (k : nat) (a : mi) : T := F1 (i :: k :: a) * F2 (k :: i :: msub orders a).

    Lemma t_adj k a : Forall2 le a orders -> adj (t k a) == t k (msub orders a).
    Proof.
      intros L. unfold t. rewrite adj_mul.
      rewrite (mutual k (msub_le L)), adj_invol.
      rewrite (msub_invol L). rewrite (mutual k L). reflexivity.
    Qed.

    Definition gt_half (a : mi) : bool := tuple_gt a (msub orders a).
    Definition lt_half (a : mi) : bool := tuple_gt (msub orders a) a.

    Lemma half_perm :
      Permutation (map (msub orders) (filter lt_half (splits orders)))
                  (filter gt_half (splits orders)).
    Proof.
      apply NoDup_Permutation.
      - apply nodup_map_inj.
        + intros x y Hx Hy E. apply filter_In in Hx, Hy. destruct Hx as [Hx _], Hy as [Hy _].
          apply in_splits in Hx, Hy. rewrite <- (msub_invol Hx), <- (msub_invol Hy). now f_equal.
        + apply NoDup_filter, NoDup_splits.
      - apply NoDup_filter, NoDup_splits.
      - intros a. rewrite in_map_iff, filter_In. split.
        + intros (x & <- & Hx). apply filter_In in Hx. destruct Hx as [Hx L].
          apply in_splits in Hx. split.
          * apply in_splits. now apply msub_le.
          * unfold gt_half. rewrite (msub_invol Hx). exact L.
        + intros [Ha G]. apply in_splits in Ha. exists (msub orders a). split.
          * now apply msub_invol.
          * apply filter_In. split. apply in_splits. now apply msub_le.
            unfold lt_half. rewrite (msub_invol Ha). exact G.
    Qed.

    Lemma halfsum_one_k k :
      bigsum (fun a => contrib F1 F2 true i i orders (k, a)) (splits orders)
      == bigsum (fun a => t k a) (splits orders).
    Proof.
      (* left: sum over a <= b of (t or t + adj t) *)
      rewrite (bigsum_filter_split gt_half (fun a => contrib F1 F2 true i i orders (k, a))).
      rewrite (bigsum_filter_split gt_half (fun a => t k a) (splits orders)).
      assert (bigsum (fun a => contrib F1 F2 true i i orders (k, a)) (filter gt_half (splits orders)) == 0) as ->.
      { apply bigsum_zero. intros a Ha. apply filter_In in Ha. destruct Ha as [_ G].
        unfold contrib, gt_half in *. cbn [fst snd andb]. now rewrite G. }
      rewrite add_zero_l.
      set (rest := filter (fun a => negb (gt_half a)) (splits orders)).
      (* split the remaining part into a < b and a = b *)
      rewrite (bigsum_filter_split lt_half (fun a => contrib F1 F2 true i i orders (k, a)) rest).
      rewrite (bigsum_filter_split lt_half (fun a => t k a) rest).
      assert (forall a, In a rest -> Forall2 le a orders /\ gt_half a = false) as Hrest.
      { intros a Ha. apply filter_In in Ha. destruct Ha as [Ha G]. apply in_splits in Ha.
        split; auto. now apply negb_true_iff in G. }
      assert (bigsum (fun a => contrib F1 F2 true i i orders (k, a)) (filter lt_half rest)
              == bigsum (fun a => t k a) (filter lt_half rest)
                 + bigsum (fun a => t k (msub orders a)) (filter lt_half rest)) as ->.
      { rewrite <- bigsum_add. apply bigsum_ext. intros a Ha. apply filter_In in Ha.
        destruct Ha as [Ha L]. destruct (Hrest a Ha) as [Le G].
        unfold contrib. cbn [fst snd andb negb orb]. unfold gt_half in G. rewrite G.
        assert (mi_eqb a (msub orders a) = false) as ->.
        { destruct (mi_eqb a (msub orders a)) eqn:E; auto. apply mi_eqb_eq in E.
          unfold lt_half in L. rewrite <- E in L. now rewrite tuple_gt_irrefl in L. }
        fold (t k a). rewrite (t_adj k Le). reflexivity. }
      assert (bigsum (fun a => contrib F1 F2 true i i orders (k, a))
                     (filter (fun a => negb (lt_half a)) rest)
              == bigsum (fun a => t k a) (filter (fun a => negb (lt_half a)) rest)) as ->.
      { apply bigsum_ext. intros a Ha. apply filter_In in Ha.
        destruct Ha as [Ha L]. destruct (Hrest a Ha) as [Le G]. apply negb_true_iff in L.
        unfold contrib. cbn [fst snd andb negb orb]. unfold gt_half in G. rewrite G.
        assert (mi_eqb a (msub orders a) = true) as ->.
        { apply mi_eqb_eq. apply tuple_trichotomy; auto.
          rewrite msub_length; now apply Forall2_le_length. }
        reflexivity. }
      (* the sum over a > b is the image of the sum over a < b *)
      assert (filter lt_half rest = filter lt_half (splits orders)) as Efl.
      { unfold rest. clear. induction (splits orders) as [|a l IH]; cbn; auto.
        destruct (gt_half a) eqn:G; cbn.
        - rewrite IH. assert (lt_half a = false) as ->; auto.
          unfold lt_half, gt_half in *. now apply tuple_gt_antisym.
        - destruct (lt_half a); now rewrite IH. }
      rewrite <- (bigsum_perm (fun a => t k a) half_perm), bigsum_map, <- Efl.
      non_commutative_ring.
    Qed.

    Theorem halfsum_adjoint mid :
      bigsum (contrib F1 F2 true i i orders) (enumeration mid orders)
      == cauchy_sum F1 F2 mid i i orders.
    Proof.
      rewrite enumeration_sum. unfold cauchy_sum. apply bigsum_ext. intros k _.
      apply halfsum_one_k.
    Qed.
  End HalfSum.

End Den.
