(* PySeries/Sentinel.v

   The sentinel values `zero` and `one` of pymablock/series.py (lines 34-72) and
   the Python-level arithmetic in which they take part, exactly as coded.

   Self-contained (standard library only, no Ncring).  The value ring is given by
   section variables; after the section is closed every definition takes the ring
   operations it uses as explicit arguments (the carrier `R` is implicit for the
   constructors), every lemma takes the ring laws it needs as hypotheses.

   Python facts modelled (checked against the implementation by the harnesses
   k_cauchydot / k_getitem):

     class Zero:   __mul__(self, other)  -> self          (zero * x   is zero)
                   __add__(self, other)  -> other         (zero + x   is x)
                   __sub__(self, other)  -> -other        (zero - x   is -x)
                   adjoint = __neg__ = __mul__            (-zero, zero.adjoint() are zero)
     class One:    no methods at all.
     x + zero, x + one, one + x, one + one  (x an array / Matrix)  raise TypeError
     Dagger(zero) is zero;  Dagger(one) raises sympy.SympifyError;
     Dagger(x) = x.conjugate().transpose() or x.adjoint().

   In product_by_order (series.py 437-448):
        values = [i for i in (first_value, second_value) if i is not one]
        term = one | values[0] | operator(values[0], values[1])
        result = result + term            /  result + term + Dagger(term)
   In algorithm_parsing.py:  _zero_sum(terms...) = sum((t for t in terms if t is not
   zero), start=zero).
*)

Require Import List Setoid Morphisms.
Import ListNotations.

Set Implicit Arguments.

(* Python exceptions that sentinel arithmetic can raise (the first two), and tags for
   exception classes raised by user-supplied eval functions. *)
Inductive pyerr : Type :=
| TypeError      (* unsupported operand type(s) for +: ... 'One' / 'Zero' *)
| SympifyError   (* Dagger(one): cannot sympify object of type One *)
| ValueError     (* raised by user code (eval functions), used by the harnesses *)
| KeyboardInterrupt  (* a BaseException that is not an Exception *)
| UserError (tag : nat).  (* any other exception class of user code *)

Inductive sval (R : Type) : Type :=
| SZero : sval R          (* the singleton `zero` *)
| SOne  : sval R          (* the singleton `one` *)
| SVal  : R -> sval R.    (* any other Python object: an element of the value ring *)

Arguments SZero {R}.
Arguments SOne {R}.
Arguments SVal {R} _.

(* Result of a sentinel operation: a value or a Python exception. *)
Inductive sres (R : Type) : Type :=
| SOk  : sval R -> sres R
| SErr : pyerr -> sres R.

Arguments SOk {R} _.
Arguments SErr {R} _.

Definition is_zero {R} (x : sval R) : bool :=       (* `x is zero` *)
  match x with SZero => true | _ => false end.

Definition is_one {R} (x : sval R) : bool :=        (* `x is one` *)
  match x with SOne => true | _ => false end.

Section Ops.
  Variable R : Type.
  Variables (rO rI : R) (radd rmul : R -> R -> R) (ropp radj : R -> R).

  (* Denotation.  `one` denotes the identity, which presupposes a square block. *)
  Definition den (x : sval R) : R :=
    match x with SZero => rO | SOne => rI | SVal r => r end.

  (* x + y *)
  Definition py_add (x y : sval R) : sres R :=
    match x, y with
    | SZero, _ => SOk y                         (* Zero.__add__ returns other *)
    | SVal a, SVal b => SOk (SVal (radd a b))
    | _, _ => SErr TypeError                    (* One has no __add__/__radd__, Zero no __radd__ *)
    end.

  (* -x *)
  Definition py_neg (x : sval R) : sres R :=
    match x with
    | SZero => SOk SZero                        (* Zero.__neg__ = Zero.__mul__ returns self *)
    | SVal a => SOk (SVal (ropp a))
    | SOne => SErr TypeError
    end.

  (* x - y *)
  Definition py_sub (x y : sval R) : sres R :=
    match x, y with
    | SZero, _ => py_neg y                      (* Zero.__sub__ returns -other *)
    | SVal a, SVal b => SOk (SVal (radd a (ropp b)))
    | _, _ => SErr TypeError
    end.

  (* zero * y  (Zero.__mul__);  only the left-zero case is defined by the class. *)
  Definition py_zero_mul (y : sval R) : sval R := SZero.

  (* Dagger(x) of sympy.physics.quantum *)
  Definition py_dagger (x : sval R) : sres R :=
    match x with
    | SZero => SOk SZero                        (* Zero.adjoint returns self *)
    | SVal a => SOk (SVal (radj a))
    | SOne => SErr SympifyError
    end.

  (* The `term` of product_by_order: `one` dropped from the product.
     Python reaches this code only with both values different from `zero`; for
     completeness a zero factor gives zero (Zero.__mul__). *)
  Definition py_term (x y : sval R) : sval R :=
    match x, y with
    | SZero, _ => SZero
    | _, SZero => SZero
    | SOne, SOne => SOne
    | SOne, SVal b => SVal b
    | SVal a, SOne => SVal a
    | SVal a, SVal b => SVal (rmul a b)
    end.

  (* result = result + term *)
  Definition py_accum (result term : sval R) : sres R := py_add result term.

  (* result = result + term + Dagger(term): left to right, Dagger evaluated after
     the first addition *)
  Definition py_accum_herm (result term : sval R) : sres R :=
    match py_add result term with
    | SErr e => SErr e
    | SOk r1 =>
        match py_dagger term with
        | SErr e => SErr e
        | SOk d => py_add r1 d
        end
    end.

  (* _zero_sum(terms...) *)
  Fixpoint py_sum_from (acc : sval R) (terms : list (sval R)) : sres R :=
    match terms with
    | [] => SOk acc
    | t :: rest =>
        if is_zero t then py_sum_from acc rest
        else match py_add acc t with
             | SOk acc' => py_sum_from acc' rest
             | SErr e => SErr e
             end
    end.
  Definition py_zero_sum (terms : list (sval R)) : sres R := py_sum_from SZero terms.

  (* ---------------------------------------------------------------------- *)
  (* Homomorphism lemmas w.r.t. the denotation. *)

  Variable req : R -> R -> Prop.
  Hypothesis req_equiv : Equivalence req.
  Hypothesis radd_proper : Proper (req ==> req ==> req) radd.
  Hypothesis radd_0_l : forall a, req (radd rO a) a.
  Hypothesis radd_0_r : forall a, req (radd a rO) a.

  Local Infix "==" := req (at level 70, no associativity).

  Lemma den_add x y z : py_add x y = SOk z -> den z == radd (den x) (den y).
  Proof.
    destruct x, y; cbn; intros E; inversion E; subst; cbn;
      try (symmetry; apply radd_0_l); reflexivity.
  Qed.

  Lemma den_accum r t z : py_accum r t = SOk z -> den z == radd (den r) (den t).
  Proof. apply den_add. Qed.

  Section Neg.
    Hypothesis ropp_0 : ropp rO == rO.
    Lemma den_neg x z : py_neg x = SOk z -> den z == ropp (den x).
    Proof.
      destruct x; cbn; intros E; inversion E; subst; cbn.
      - symmetry; apply ropp_0.
      - reflexivity.
    Qed.
    Lemma den_sub x y z :
      py_sub x y = SOk z -> den z == radd (den x) (ropp (den y)).
    Proof.
      destruct x, y; cbn; intros E; inversion E; subst; cbn.
      - rewrite ropp_0, radd_0_l. reflexivity.
      - rewrite radd_0_l. reflexivity.
      - reflexivity.
    Qed.
  End Neg.

  Section Mul.
    Hypothesis rmul_0_l : forall a, rmul rO a == rO.
    Hypothesis rmul_0_r : forall a, rmul a rO == rO.
    Hypothesis rmul_1_l : forall a, rmul rI a == a.
    Hypothesis rmul_1_r : forall a, rmul a rI == a.

    Lemma den_zero_mul y : den (py_zero_mul y) == rmul rO (den y).
    Proof. cbn. symmetry. apply rmul_0_l. Qed.

    Lemma den_term x y : den (py_term x y) == rmul (den x) (den y).
    Proof.
      destruct x, y; cbn;
        try (symmetry; first [apply rmul_0_l | apply rmul_0_r | apply rmul_1_l | apply rmul_1_r]);
        reflexivity.
    Qed.

    Lemma term_not_zero x y :
      is_zero x = false -> is_zero y = false -> is_zero (py_term x y) = false.
    Proof. destruct x, y; cbn; congruence. Qed.
  End Mul.

  Section Adj.
    Hypothesis radj_0 : radj rO == rO.

    Lemma den_dagger x z : py_dagger x = SOk z -> den z == radj (den x).
    Proof.
      destruct x; cbn; intros E; inversion E; subst; cbn.
      - symmetry; apply radj_0.
      - reflexivity.
    Qed.

    Lemma den_accum_herm r t z :
      py_accum_herm r t = SOk z ->
      den z == radd (radd (den r) (den t)) (radj (den t)).
    Proof.
      unfold py_accum_herm.
      destruct (py_add r t) as [r1|] eqn:E1; [|discriminate].
      destruct (py_dagger t) as [d|] eqn:E2; [|discriminate].
      intros E3. apply den_add in E1, E3. apply den_dagger in E2.
      rewrite E3, E1, E2. reflexivity.
    Qed.
  End Adj.

  (* _zero_sum: denotes the sum of the denotations of all terms. *)
  Fixpoint rsum (l : list R) : R :=
    match l with [] => rO | a :: r => radd a (rsum r) end.

  Hypothesis radd_assoc : forall a b c, radd (radd a b) c == radd a (radd b c).

  Lemma den_sum_from acc terms z :
    py_sum_from acc terms = SOk z ->
    den z == radd (den acc) (rsum (map den terms)).
  Proof.
    revert acc. induction terms as [|t rest IH]; cbn; intros acc E.
    - inversion E; subst. symmetry. apply radd_0_r.
    - destruct (is_zero t) eqn:Z.
      + destruct t; try discriminate. cbn. rewrite radd_0_l. now apply IH.
      + destruct (py_add acc t) as [acc'|] eqn:A; [|discriminate].
        apply IH in E. apply den_add in A. rewrite E, A. apply radd_assoc.
  Qed.

  Lemma den_zero_sum terms z :
    py_zero_sum terms = SOk z -> den z == rsum (map den terms).
  Proof.
    intros E. apply den_sum_from in E. cbn in E. rewrite E. apply radd_0_l.
  Qed.

End Ops.
