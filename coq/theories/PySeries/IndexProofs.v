(* PySeries/IndexProofs.v

   Theorems about the model of BlockSeries.__getitem__ (GetItem.v):

   np_index_extent     the NumPy result of an index expression whose order part passed
                       _check_finite does not depend on the extent of the order
                       dimensions, as long as it is at least the trial extent
   getitem_numpy       the trial-array algorithm returns np_index applied to ANY dense
                       array of the element values of sufficient extent
   getitem_indexerror  the rejected classes raise IndexError and change nothing
   getitem_all_ints    an all-integer request is exactly one element request
*)

Require Import List ZArith Arith Bool Lia Sorted.
Import ListNotations.
Require Import PV.PySeries.Sentinel PV.PySeries.Cache PV.PySeries.Index PV.PySeries.GetItem.

Set Implicit Arguments.

(* ---------------------------------------------------------------------- *)
(* 1. independence of the extent *)

Lemma norm_int_nonneg d z :
  (0 <= z)%Z -> (Z.to_nat z < d) -> norm_int d z = Some (Z.to_nat z).
Proof.
  intros H0 H1. unfold norm_int.
  assert ((0 <=? z)%Z = true) as -> by (apply Z.leb_le; lia).
  assert ((z <? Z.of_nat d)%Z = true) as -> by (apply Z.ltb_lt; lia).
  reflexivity.
Qed.

Lemma norm_list_nonneg d l :
  (forall z, In z l -> (0 <= z)%Z /\ Z.to_nat z < d) ->
  norm_list d l = Some (map Z.to_nat l).
Proof.
  induction l as [|z r IH]; cbn; intros H; auto.
  destruct (H z (or_introl eq_refl)) as [H0 H1].
  rewrite (norm_int_nonneg H0 H1). rewrite IH; [reflexivity|]. intros; apply H; now right.
Qed.

Lemma le_fold_max l z : In z l -> (z <= fold_right Z.max 0 l)%Z.
Proof.
  induction l as [|a r IH]; cbn; intros H; [tauto|]. destruct H as [->|H]. lia.
  specialize (IH H). lia.
Qed.

(* the order o passed _check_finite and its trial extent is at most d *)
Definition order_fits (o : ix) (d : nat) : Prop :=
  order_bad o = false /\ exists e, order_extent o = IOk e /\ e <= d.

Lemma norm_ix_extent b o d d' :
  order_fits o d -> d <= d' -> norm_ix b d' o = norm_ix b d o.
Proof.
  intros (B & e & E & Le) Ldd. destruct o as [z|l|start stop step]; cbn in *;
    [|destruct b; [reflexivity|]|].
  - apply Z.ltb_ge in B. inversion E; subst.
    rewrite !norm_int_nonneg by lia. reflexivity.
  - destruct l as [|z0 l0]; [discriminate|]. inversion E; subst. clear E.
    set (l := z0 :: l0) in *.
    assert (forall z, In z l -> (0 <= z)%Z /\ Z.to_nat z < d) as H.
    { intros z Hz. split.
      - destruct (Z.ltb z 0) eqn:N; [|apply Z.ltb_ge in N; lia].
        exfalso. assert (existsb (fun z => Z.ltb z 0) l = true) as X.
        { apply existsb_exists. exists z. auto. }
        congruence.
      - pose proof (le_fold_max l z Hz) as M. unfold l in M. cbn in M. lia. }
    rewrite !norm_list_nonneg; auto. intros z Hz. destruct (H z Hz). split; auto. lia.
  - destruct stop as [sp|]; [|discriminate]. inversion E; subst. clear E.
    apply orb_false_iff in B. destruct B as [Bs Bp]. apply Z.ltb_ge in Bp.
    assert (slice_positions d' start (Some sp) step = slice_positions d start (Some sp) step) as ->;
      [|reflexivity].
    unfold slice_positions.
    assert (forall x, Z.to_nat sp <= x -> clip x (Some sp) (Z.of_nat x) = sp) as Hstop.
    { intros x Hx. unfold clip. assert ((sp <? 0)%Z = false) as -> by (apply Z.ltb_ge; lia). lia. }
    rewrite (Hstop d'), (Hstop d) by lia.
    destruct start as [st|]; cbn [clip].
    + apply Z.ltb_ge in Bs. assert ((st <? 0)%Z = false) as -> by (apply Z.ltb_ge; lia).
      destruct (Z.le_gt_cases st sp) as [Hs|Hs].
      * replace (Z.min st (Z.of_nat d')) with st by lia.
        replace (Z.min st (Z.of_nat d)) with st by lia. reflexivity.
      * assert ((sp <=? Z.min st (Z.of_nat d'))%Z = true) as -> by (apply Z.leb_le; lia).
        assert ((sp <=? Z.min st (Z.of_nat d))%Z = true) as -> by (apply Z.leb_le; lia).
        reflexivity.
    + reflexivity.
Qed.

Lemma norm_all_extent b fs fitem : length fitem = length fs ->
  forall orders ext ext',
    Forall2 order_fits orders ext -> Forall2 le ext ext' ->
    norm_all b (fs ++ ext') (fitem ++ orders) = norm_all b (fs ++ ext) (fitem ++ orders).
Proof.
  revert fitem. induction fs as [|d fs IH]; intros [|i fitem] L; try discriminate.
  - cbn. clear L. intros orders ext ext' F. revert ext'.
    induction F as [|o e orders ext Ho F IHF]; intros ext' Le; inversion Le; subst; cbn; auto.
    rewrite (norm_ix_extent b Ho H1). destruct (norm_ix b e o); auto. now rewrite IHF.
  - cbn in L. intros orders ext ext' F Le. cbn. destruct (norm_ix b d i); auto.
    assert (length fitem = length fs) as L' by lia.
    rewrite (IH fitem L' orders ext ext' F Le). reflexivity.
Qed.

Lemma basic_error_extent fs fitem : length fitem = length fs ->
  forall orders ext ext',
    Forall2 order_fits orders ext -> Forall2 le ext ext' ->
    basic_error (fs ++ ext') (fitem ++ orders) = basic_error (fs ++ ext) (fitem ++ orders).
Proof.
  revert fitem. induction fs as [|d fs IH]; intros [|i fitem] L; try discriminate.
  - cbn. clear L. intros orders ext ext' F. revert ext'.
    induction F as [|o e orders ext Ho F IHF]; intros ext' Le; inversion Le; subst; cbn; auto.
    rewrite (norm_ix_extent false Ho H1). destruct o; auto; destruct (norm_ix false e _); auto.
  - cbn in L. intros orders ext ext' F Le. cbn.
    assert (length fitem = length fs) as L' by lia.
    rewrite (IH fitem L' orders ext ext' F Le). reflexivity.
Qed.

Lemma extents_fits orders ext :
  existsb order_bad orders = false -> extents orders = IOk ext -> Forall2 order_fits orders ext.
Proof.
  revert ext. induction orders as [|o r IH]; cbn; intros ext B E.
  - inversion E. constructor.
  - apply orb_false_iff in B. destruct B as [Bo Br].
    destruct (order_extent o) as [e|] eqn:Eo; [|discriminate].
    destruct (extents r) as [es|] eqn:Er; [|discriminate]. inversion E; subst.
    constructor; auto. split; auto. exists e. auto.
Qed.

Lemma extents_length orders ext : extents orders = IOk ext -> length ext = length orders.
Proof.
  revert ext. induction orders as [|o r IH]; cbn; intros ext E.
  - now inversion E.
  - destruct (order_extent o); [|discriminate]. destruct (extents r) as [es|]; [|discriminate].
    inversion E; subst. cbn. f_equal. now apply IH.
Qed.

Lemma Forall2_le_length (a b : list nat) : Forall2 le a b -> length a = length b.
Proof. induction 1; cbn; auto. Qed.

Theorem np_index_extent fs item ext ext' :
  length fs <= length item ->
  existsb order_bad (skipn (length fs) item) = false ->
  extents (skipn (length fs) item) = IOk ext ->
  Forall2 le ext ext' ->
  np_index (fs ++ ext') item = np_index (fs ++ ext) item /\
  np_scalar (fs ++ ext') item = np_scalar (fs ++ ext) item.
Proof.
  intros L B E Le.
  pose proof (extents_length _ E) as Lext. pose proof (Forall2_le_length Le) as Lext'.
  rewrite skipn_length in Lext.
  assert (length (fs ++ ext') = length item) as L1 by (rewrite app_length; lia).
  assert (length (fs ++ ext) = length item) as L2 by (rewrite app_length; lia).
  split.
  - unfold np_index. rewrite L1, L2, Nat.ltb_irrefl, Nat.sub_diag. cbn [repeat]. rewrite app_nil_r.
    pose proof (extents_fits _ B E) as Fit.
    assert (length (firstn (length fs) item) = length fs) as Lfi by (rewrite firstn_length; lia).
    pose proof (@norm_all_extent (lenient_item item) fs (firstn (length fs) item) Lfi _ _ _ Fit Le) as NA.
    pose proof (@basic_error_extent fs (firstn (length fs) item) Lfi _ _ _ Fit Le) as BE.
    rewrite (firstn_skipn (length fs) item) in NA, BE. now rewrite NA, BE.
  - unfold np_scalar. now rewrite L1, L2.
Qed.

(* ---------------------------------------------------------------------- *)
(* 2. the trial-array algorithm *)

Lemma pos_eqb_eq a b : pos_eqb a b = true <-> a = b.
Proof.
  revert b. induction a as [|x a IH]; intros [|y b]; cbn; split; try discriminate; auto.
  - intros H. apply andb_true_iff in H. destruct H as [H1 H2]. apply Nat.eqb_eq in H1.
    apply IH in H2. congruence.
  - intros H. inversion H; subst. rewrite Nat.eqb_refl. cbn. now apply IH.
Qed.

Lemma in_insert_pos p q l : In q (insert_pos p l) <-> q = p \/ In q l.
Proof.
  induction l as [|r l IH]; cbn.
  - intuition.
  - destruct (pos_eqb p r) eqn:E.
    + apply pos_eqb_eq in E. subst. cbn. intuition.
    + destruct (pos_ltb p r); cbn; [intuition|]. rewrite IH. intuition.
Qed.

Lemma in_sort_uniq q l : In q (sort_uniq l) <-> In q l.
Proof.
  unfold sort_uniq. induction l as [|p l IH]; cbn; [tauto|].
  rewrite in_insert_pos, IH. intuition.
Qed.

Section Algo.
  Variable X : Type.
  Variable xzero : X -> bool.
  Variable xdefault : X.

  Notation bval := (bval X).
  Notation bcallback := (bcallback X).

  Lemma eval_positions_keys (g : bcallback) s ps : forall w l w',
    eval_positions g s ps w = (Ok l, w') -> map fst l = ps.
  Proof.
    induction ps as [|p r IH]; cbn; intros w l w' E.
    - inversion E. reflexivity.
    - destruct (g s p w) as [[v|x|] w1]; try discriminate.
      destruct (eval_positions g s r w1) as [[l'|x|] w2] eqn:E'; try discriminate.
      inversion E; subst. cbn. f_equal. eapply IH; eauto.
  Qed.

  Lemma lookup_eval_in (l : list (index * bval)) p :
    In p (map fst l) -> exists v, lookup_eval l p = Some v.
  Proof.
    induction l as [|[q v] r IH]; cbn; [tauto|].
    destruct (index_eqb q p) eqn:E; eauto.
    intros [H|H]; auto. subst. now rewrite index_eqb_refl in E.
  Qed.

  (* what a successful request returned, for ANY sufficient extent of a dense array *)
  Theorem getitem_numpy (g : bcallback) hd s item w r w' :
    bs_getitem_full xdefault g hd s item w = (Ok r, w') ->
    exists ext evald,
      extents (skipn (length (fshape hd)) item) = IOk ext /\
      (* every element value used is the one the element cache returned, in np.where order *)
      (forall ext', Forall2 le ext ext' ->
         exists shp poss,
           np_index (fshape hd ++ ext') item = IOk (shp, poss) /\
           eval_positions g s (sort_uniq poss) w = (Ok evald, w') /\
           (forall p, In p poss -> exists v, lookup_eval evald p = Some v) /\
           r = (if np_scalar (fshape hd ++ ext') item
                then RScalar (hd_default xdefault (map (value_at xdefault evald) poss))
                else RArray shp (map (value_at xdefault evald) poss))).
  Proof.
    unfold bs_getitem_full. intros H.
    destruct (existsb order_bad (skipn (length (fshape hd)) item)) eqn:B; [discriminate|].
    destruct (negb (Nat.eqb (length item) (length (fshape hd) + bninf hd))) eqn:A; [discriminate|].
    apply negb_false_iff, Nat.eqb_eq in A.
    destruct (extents (skipn (length (fshape hd)) item)) as [ext|] eqn:E; [|discriminate].
    destruct (np_index (fshape hd ++ ext) item) as [[shp poss]|] eqn:N; [|discriminate].
    destruct (eval_positions g s (sort_uniq poss) w) as [[evald|x|] w2] eqn:P; try discriminate.
    inversion H; subst. exists ext, evald. split; auto.
    intros ext' Le.
    destruct (@np_index_extent (fshape hd) item ext ext') as [E1 E2]; auto. lia.
    exists shp, poss. rewrite E1, E2. repeat split; auto.
    intros p Hp. apply lookup_eval_in. rewrite (eval_positions_keys _ _ _ _ P).
    now apply in_sort_uniq.
  Qed.

  (* dense-array form: D is any array of element values that agrees with what the cache
     returned on the selected positions *)
  Corollary getitem_dense (g : bcallback) hd s item w shp vals w' :
    bs_getitem_full xdefault g hd s item w = (Ok (RArray shp vals), w') ->
    exists ext evald,
      extents (skipn (length (fshape hd)) item) = IOk ext /\
      forall ext' (D : index -> bval),
        Forall2 le ext ext' ->
        (forall p v, lookup_eval evald p = Some v -> D p = v) ->
        exists poss,
          np_index (fshape hd ++ ext') item = IOk (shp, poss) /\
          vals = map D poss /\
          result_mask xzero (RArray shp vals) = map (fun p => bzero xzero (D p)) poss.
  Proof.
    intros H. destruct (getitem_numpy _ _ _ _ _ H) as (ext & evald & E & Hall).
    exists ext, evald. split; auto. intros ext' D Le HD.
    destruct (Hall ext' Le) as (shp' & poss & N & _ & Hin & R).
    destruct (np_scalar (fshape hd ++ ext') item); [discriminate|]. inversion R; subst.
    exists poss. split; auto.
    assert (map (value_at xdefault evald) poss = map D poss) as EQ.
    { apply map_ext_in. intros p Hp. destruct (Hin p Hp) as (v & Hv).
      unfold value_at. rewrite Hv. symmetry. now apply HD. }
    split; auto. cbn. rewrite EQ, map_map. reflexivity.
  Qed.

  (* ------------------------------------------------------------------ *)
  (* 3. IndexError classes *)

  Lemma order_bad_spec o :
    order_bad o = true <->
    (exists start step, o = ISlice start None step) \/                       (* infinite *)
    (exists st stop step, o = ISlice (Some st) stop step /\ (st < 0)%Z) \/   (* negative start *)
    (exists start sp step, o = ISlice start (Some sp) step /\ (sp < 0)%Z) \/ (* negative stop *)
    (exists z, o = IInt z /\ (z < 0)%Z) \/                                   (* negative integer *)
    (exists l z, o = IList l /\ In z l /\ (z < 0)%Z).                        (* negative list entry *)
  Proof.
    split.
    - destruct o as [z|l|start stop step]; cbn; intros H.
      + right; right; right; left. exists z. split; auto. now apply Z.ltb_lt.
      + right; right; right; right. apply existsb_exists in H. destruct H as (z & Hz & N).
        exists l, z. repeat split; auto. now apply Z.ltb_lt.
      + destruct stop as [sp|]; [|left; eauto].
        apply orb_true_iff in H. destruct H as [H|H].
        * destruct start as [st|]; [|discriminate]. right; left. exists st, (Some sp), step.
          split; auto. now apply Z.ltb_lt.
        * right; right; left. exists start, sp, step. split; auto. now apply Z.ltb_lt.
    - intros [(a & b & ->)|[(st & stop & step & -> & H)|[(start & sp & step & -> & H)|[(z & -> & H)|(l & z & -> & Hz & H)]]]];
        cbn; auto.
      + destruct stop; auto. apply orb_true_iff. left. now apply Z.ltb_lt.
      + apply orb_true_iff. right. now apply Z.ltb_lt.
      + now apply Z.ltb_lt.
      + apply existsb_exists. exists z. split; auto. now apply Z.ltb_lt.
  Qed.

  Theorem getitem_indexerror (g : bcallback) hd s item w :
    (exists o, In o (skipn (length (fshape hd)) item) /\ order_bad o = true) \/
    length item <> length (fshape hd) + bninf hd ->
    bs_getitem_full xdefault g hd s item w = (Raise IndexError, w).
  Proof.
    intros [(o & Ho & B)|A]; unfold bs_getitem_full.
    - assert (existsb order_bad (skipn (length (fshape hd)) item) = true) as ->; auto.
      apply existsb_exists. eauto.
    - destruct (existsb order_bad (skipn (length (fshape hd)) item)); auto.
      apply Nat.eqb_neq in A. now rewrite A.
  Qed.

  (* ------------------------------------------------------------------ *)
  (* 4. all-integer requests *)

  Lemma norm_all_ints b shape (zs : list Z) ns :
    Forall2 (fun dz n => norm_int (fst dz) (snd dz) = Some n) (combine shape zs) ns ->
    length shape = length zs ->
    norm_all b shape (map IInt zs) = IOk (map NInt ns).
  Proof.
    revert zs ns. induction shape as [|d sh IH]; intros [|z zs] ns F L; try discriminate.
    - inversion F. reflexivity.
    - cbn in F. inversion F as [|? n ? ns' Hn F']; subst. cbn. cbn in Hn. rewrite Hn.
      rewrite (IH zs ns'); auto.
  Qed.

  Lemma basic_error_none b shape item ns : norm_all b shape item = IOk ns -> basic_error shape item = None.
  Proof.
    revert item ns. induction shape as [|d sh IH]; intros [|i it] ns E; cbn [norm_all basic_error] in *; auto.
    destruct (norm_ix b d i) eqn:N; [|discriminate].
    destruct (norm_all b sh it) eqn:E2; [|discriminate].
    destruct i; eauto; cbn in N |- *.
    - destruct (norm_int d z); [eauto|discriminate].
    - destruct step as [k|]; [destruct (Z.leb k 0); [discriminate|eauto]|eauto].
  Qed.

  Lemma combine_app' {A B} (a b : list A) (c d : list B) :
    length a = length c -> combine (a ++ b) (c ++ d) = combine a c ++ combine b d.
  Proof.
    revert c. induction a as [|x a IH]; intros [|y c] L; try discriminate; cbn; auto.
    f_equal. apply IH. now inversion L.
  Qed.

  Lemma np_index_n_ints ns :
    np_index_n (map NInt ns) = IOk ([], [ns]).
  Proof.
    unfold np_index_n.
    assert (forall acc, bcast_len (map NInt ns) acc = Some acc) as ->.
    { induction ns; cbn; auto. }
    assert (slices_of (map NInt ns) = []) as -> by (induction ns; cbn; auto).
    cbn. repeat f_equal. induction ns; cbn; auto. f_equal. auto.
  Qed.

  (* series[z1, ..., zk] with all integers: normalised position `pos`
     (negative finite integers counted from the end, orders non-negative) *)
  Theorem getitem_all_ints (g : bcallback) hd s (fz : list Z) (orders : list nat) fpos w :
    length fz = length (fshape hd) -> length orders = bninf hd ->
    Forall2 (fun dz n => norm_int (fst dz) (snd dz) = Some n) (combine (fshape hd) fz) fpos ->
    bs_getitem_full xdefault g hd s (map IInt fz ++ map (fun n => IInt (Z.of_nat n)) orders) w =
    match g s (fpos ++ orders) w with
    | (Ok v, w') => (Ok (RScalar v), w')
    | (Raise x, w') => (Raise x, w')
    | (OutOfFuel, w') => (OutOfFuel, w')
    end.
  Proof.
    intros Lf Lo F. unfold bs_getitem_full.
    set (oz := map (fun n => IInt (Z.of_nat n)) orders).
    assert (skipn (length (fshape hd)) (map IInt fz ++ oz) = oz) as ->.
    { rewrite skipn_app, skipn_all2 by (rewrite map_length; lia).
      rewrite map_length, Lf, Nat.sub_diag. reflexivity. }
    assert (existsb order_bad oz = false) as ->.
    { unfold oz. clear. induction orders as [|n r IH]; cbn; auto. rewrite IH.
      assert ((Z.of_nat n <? 0)%Z = false) as -> by (apply Z.ltb_ge; lia). reflexivity. }
    assert (length oz = length orders) as Loz by (unfold oz; apply map_length).
    rewrite app_length, map_length, Loz, Lf, Lo, Nat.eqb_refl. cbn [negb].
    assert (extents oz = IOk (map (fun n => n + 1) orders)) as ->.
    { unfold oz. clear. induction orders as [|n r IH]; cbn; auto. rewrite IH.
      now rewrite Nat2Z.id. }
    set (ext := map (fun n => n + 1) orders).
    assert (np_index (fshape hd ++ ext) (map IInt fz ++ oz) = IOk ([], [fpos ++ orders])) as ->.
    { unfold np_index.
      assert (length (fshape hd ++ ext) = length (map IInt fz ++ oz)) as ->.
      { rewrite !app_length. unfold ext. rewrite !map_length, Loz. lia. }
      rewrite Nat.ltb_irrefl, Nat.sub_diag. cbn [repeat]. rewrite app_nil_r.
      unfold oz.
      replace (map IInt fz ++ map (fun x => IInt (Z.of_nat x)) orders)
        with (map IInt (fz ++ map Z.of_nat orders)) by (now rewrite map_app, map_map).
      assert (forall b, norm_all b (fshape hd ++ ext) (map IInt (fz ++ map Z.of_nat orders))
              = IOk (map NInt (fpos ++ orders))) as NA; [intros b|rewrite (basic_error_none _ _ _ (NA false)), NA; apply np_index_n_ints].
      apply norm_all_ints.
      - rewrite combine_app' by (now rewrite Lf).
        apply Forall2_app; auto.
        unfold ext. clear. induction orders as [|n r IH]; cbn; constructor; auto. cbn.
        rewrite <- (Nat2Z.id n) at 3. apply norm_int_nonneg; lia.
      - unfold ext. rewrite !app_length, !map_length. lia. }
    cbn [sort_uniq fold_right insert_pos eval_positions].
    destruct (g s (fpos ++ orders) w) as [[v|x|] w1]; auto.
    assert (np_scalar (fshape hd ++ ext) (map IInt fz ++ oz) = true) as ->.
    { unfold np_scalar. rewrite !app_length. unfold ext, oz. rewrite !map_length, Lf, Nat.eqb_refl.
      cbn. rewrite forallb_app. apply andb_true_iff. split.
      - clear. induction fz; cbn; auto.
      - clear. induction orders; cbn; auto. }
    cbn. unfold value_at. cbn. rewrite index_eqb_refl. reflexivity.
  Qed.

End Algo.

(* ---------------------------------------------------------------------- *)
(* 5. The evaluated set: which element requests a request makes. *)

Lemma pos_ltb_irrefl a : pos_ltb a a = false.
Proof. induction a; cbn; auto. now rewrite Nat.eqb_refl. Qed.

Lemma pos_ltb_trans a : forall b c, pos_ltb a b = true -> pos_ltb b c = true -> pos_ltb a c = true.
Proof.
  induction a as [|x a IH]; intros [|y b] [|z c]; cbn; auto; try discriminate.
  destruct (Nat.eqb x y) eqn:E1; destruct (Nat.eqb y z) eqn:E2.
  - apply Nat.eqb_eq in E1, E2. subst. rewrite Nat.eqb_refl. apply IH.
  - apply Nat.eqb_eq in E1. subst. rewrite E2. auto.
  - apply Nat.eqb_eq in E2. subst. rewrite E1. auto.
  - intros H1 H2. apply Nat.ltb_lt in H1, H2.
    assert (Nat.eqb x z = false) as -> by (apply Nat.eqb_neq; lia). apply Nat.ltb_lt. lia.
Qed.

Lemma pos_total a : forall b, pos_eqb a b = false -> pos_ltb a b = false -> pos_ltb b a = true.
Proof.
  induction a as [|x a IH]; intros [|y b]; cbn; auto; try discriminate.
  destruct (Nat.eqb x y) eqn:E.
  - apply Nat.eqb_eq in E. subst. rewrite Nat.eqb_refl. cbn. apply IH.
  - rewrite Nat.eqb_sym, E. cbn. intros _ H. apply Nat.ltb_ge in H. apply Nat.eqb_neq in E.
    apply Nat.ltb_lt. lia.
Qed.

Definition pos_lt (a b : list nat) : Prop := pos_ltb a b = true.

Lemma insert_pos_sorted p l :
  Sorted.StronglySorted pos_lt l -> Sorted.StronglySorted pos_lt (insert_pos p l).
Proof.
  induction 1 as [|q r Hr IH Hq]; cbn.
  - constructor. constructor. constructor.
  - destruct (pos_eqb p q) eqn:E; [now constructor|].
    destruct (pos_ltb p q) eqn:L.
    + constructor. now constructor. constructor; auto.
      eapply Forall_impl; [|exact Hq]. intros c Hc. eapply pos_ltb_trans; eauto.
    + constructor; auto. apply Forall_forall. intros c Hc. apply in_insert_pos in Hc.
      destruct Hc as [->|Hc].
      * apply pos_total; auto.
      * rewrite Forall_forall in Hq. now apply Hq.
Qed.

Lemma sort_uniq_sorted l : Sorted.StronglySorted pos_lt (sort_uniq l).
Proof.
  unfold sort_uniq. induction l; cbn. constructor. now apply insert_pos_sorted.
Qed.

Lemma sort_uniq_NoDup l : NoDup (sort_uniq l).
Proof.
  pose proof (sort_uniq_sorted l) as S. induction S as [|q r Hr IH Hq]; constructor; auto.
  intros H. rewrite Forall_forall in Hq. specialize (Hq q H). unfold pos_lt in Hq.
  now rewrite pos_ltb_irrefl in Hq.
Qed.

Section Evaluated.
  Variable X : Type.
  Variable xdefault : X.

  (* A request that passes the checks makes element requests (calls of the element-level
     callback, i.e. of the cache) for EXACTLY the positions NumPy selects - not for the
     bounding box of the per-axis selections -, each once, in sorted order, stopping at the
     first exception; `poss` may be computed on a dense array of any sufficient extent. *)
  Theorem getitem_evaluated_set (g : bcallback X) hd s item w ext ext' shp poss :
    existsb order_bad (skipn (length (fshape hd)) item) = false ->
    length item = length (fshape hd) + bninf hd ->
    extents (skipn (length (fshape hd)) item) = IOk ext ->
    Forall2 le ext ext' ->
    np_index (fshape hd ++ ext') item = IOk (shp, poss) ->
    bs_getitem_full xdefault g hd s item w =
    match eval_positions g s (sort_uniq poss) w with
    | (Ok evald, w') =>
        (Ok (if np_scalar (fshape hd ++ ext') item
             then RScalar (hd_default xdefault (map (value_at xdefault evald) poss))
             else RArray shp (map (value_at xdefault evald) poss)), w')
    | (Raise x, w') => (Raise x, w')
    | (OutOfFuel, w') => (OutOfFuel, w')
    end.
  Proof.
    intros B A E Le N. unfold bs_getitem_full. rewrite B, A, Nat.eqb_refl, E. cbn [negb].
    destruct (@np_index_extent (fshape hd) item ext ext') as [E1 E2]; auto. lia.
    rewrite <- E1, <- E2, N. reflexivity.
  Qed.

  (* the callback is applied by eval_positions to a prefix of the list, in order; to all of it
     iff no exception occurs *)
  Fixpoint requested (g : bcallback X) (s : sid) (ps : list index) (w : bworld X) : list index :=
    match ps with
    | [] => []
    | p :: r =>
        match g s p w with
        | (Ok _, w1) => p :: requested g s r w1
        | _ => [p]
        end
    end.

  Lemma requested_prefix g s ps : forall w, exists rest, ps = requested g s ps w ++ rest.
  Proof.
    induction ps as [|p r IH]; intros w; cbn. exists []. reflexivity.
    destruct (g s p w) as [[v|x|] w1].
    - destruct (IH w1) as (rest & E). exists rest. cbn. now f_equal.
    - exists r. reflexivity.
    - exists r. reflexivity.
  Qed.

  Lemma requested_all g s ps : forall w l w',
    eval_positions g s ps w = (Ok l, w') -> requested g s ps w = ps.
  Proof.
    induction ps as [|p r IH]; cbn; intros w l w' E; auto.
    destruct (g s p w) as [[v|x|] w1]; try discriminate.
    destruct (eval_positions g s r w1) as [[l'|x|] w2] eqn:E'; try discriminate.
    f_equal. eapply IH; eauto.
  Qed.
End Evaluated.
