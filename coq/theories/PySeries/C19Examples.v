(* PySeries/C19Examples.v : concrete instances (non-vacuity of the C19 theorems). *)

Require Import List ZArith Arith Bool.
Import ListNotations.
Require Import PV.PySeries.Sentinel PV.PySeries.Cache PV.PySeries.Index PV.PySeries.GetItem.

(* a series of shape (2,3) with one order dimension; element (i,j,n) = 100 i + 10 j + n,
   except that elements with i = j are the sentinel zero (None) *)
Definition ex_tbl (i : index) : action (option nat) :=
  match i with
  | [a; b; n] => if Nat.eqb a b then AVal None else AVal (Some (100 * a + 10 * b + n))
  | _ => AVal None
  end.

Definition ex_zero (x : option nat) : bool := match x with None => true | Some _ => false end.
Definition ex_descs : list (bdesc (option nat)) := [BTable (mkBS [2; 3] 1) ex_tbl].
Definition ex_w0 : bworld (option nat) := empty_world _.

(* s[:, [0, 2], 1:3]  ->  shape (2, 2, 2), zero elements masked *)
Example ex_getitem_list_slice :
  let item := [ISlice None None None; IList [0%Z; 2%Z]; ISlice (Some 1%Z) (Some 3%Z) None] in
  fst (fst (bs_request ex_zero None 10 ex_descs (QGet 0 item) ex_w0))
  = OArray [2; 2; 2]
      [BElem None; BElem None; BElem (Some 21); BElem (Some 22);
       BElem (Some 101); BElem (Some 102); BElem (Some 121); BElem (Some 122)]
      [true; true; false; false; false; false; false; false].
Proof. vm_compute. reflexivity. Qed.

(* the hypothesis of C19_numpy (a successful request) holds for it, and the dense array of
   extent 5 (> trial extent 3) gives the same positions *)
Example ex_extent :
  np_index [2; 3; 5] [ISlice None None None; IList [0%Z; 2%Z]; ISlice (Some 1%Z) (Some 3%Z) None]
  = np_index [2; 3; 3] [ISlice None None None; IList [0%Z; 2%Z]; ISlice (Some 1%Z) (Some 3%Z) None].
Proof. vm_compute. reflexivity. Qed.

(* IndexError classes *)
Example ex_indexerror :
  map (fun item => fst (fst (bs_request ex_zero None 10 ex_descs (QGet 0 item) ex_w0)))
      [[IInt 0; IInt 0; ISlice None None None];
       [IInt 0; IInt 0; ISlice (Some (-1)%Z) (Some 2%Z) None];
       [IInt 0; IInt 0; ISlice None (Some (-1)%Z) None];
       [IInt 0; IInt 0; IInt (-1)%Z];
       [IInt 0; IInt 0; IList [0%Z; (-1)%Z]];
       [IInt 0; IInt 0; IInt 0; IInt 0]]
  = repeat (OExc IndexError) 6.
Proof. vm_compute. reflexivity. Qed.

(* views: s[-1, 1] (integers) and s[:, [2, 0]] (list): create, then read elements *)
Example ex_views :
  let script := [QGet 0 [IInt (-1)%Z; IInt 1%Z];                 (* series 1 *)
                 QGet 1 [IInt 2%Z];                              (* = s[1,1,2] = zero *)
                 QGet 0 [ISlice None None None; IList [2%Z; 0%Z]];   (* series 2 (hidden), 3 *)
                 QGet 3 [IInt 0%Z; IInt 0%Z; IInt 1%Z];          (* = s[0,2,1] *)
                 QGet 3 [IInt 1%Z; IInt 1%Z; IInt 1%Z]] in       (* = s[1,0,1] *)
  fst (fst (bs_script ex_zero None 10 ex_descs script ex_w0))
  = [OView 1 []; OScalar (BElem None); OView 3 [2; 2];
     OScalar (BElem (Some 21)); OScalar (BElem (Some 101))].
Proof. vm_compute. reflexivity. Qed.

(* paired lists on two axes: s[[0, 1], [2, 0], 1] selects (0,2,1) and (1,0,1) only; exactly these
   two elements are evaluated (sorted order), not the 2 x 2 box *)
Example ex_paired_lists :
  let item := [IList [0%Z; 1%Z]; IList [2%Z; 0%Z]; IInt 1%Z] in
  let r := bs_request ex_zero None 10 ex_descs (QGet 0 item) ex_w0 in
  fst (fst r) = OArray [2] [BElem (Some 21); BElem (Some 101)] [false; false] /\
  eval_calls (snd r) = [(0, [0; 2; 1]); (0, [1; 0; 1])] /\
  keys (wcache (snd r) 0) = [[0; 2; 1]; [1; 0; 1]].
Proof. vm_compute. repeat split. Qed.
