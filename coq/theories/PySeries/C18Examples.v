(* PySeries/C18Examples.v : the hypotheses of the C18 theorems are satisfiable
   (non-vacuity), on the ring Z with the identity as involution. *)

Require Import Ncring Ncring_initial Ncring_tac Setoid Morphisms List Bool ZArith.
Import ListNotations.
Require Import PV.PySeries.Sentinel PV.PySeries.Cache PV.PySeries.ProductByOrder
        PV.PySeries.CauchyDot PV.PySeries.MultiIndex PV.PySeries.RSum PV.PySeries.PBOProofs
        PV.PySeries.CauchyProofs PV.PySeries.AssocProofs.

(* 1. accessors: any pair of pure tables, with `in` = "is not the sentinel zero" *)
Section Pure.
  Context {T : Type} `{Rg : Ring T}.
  Variables V1 V2 : index -> sval T.
  Definition pget (V : index -> sval T) (i : index) (st : unit) : res pyerr (sval T) * unit := (Ok (V i), st).
  Definition phas (V : index -> sval T) (i : index) (st : unit) : bool := negb (is_zero (V i)).
  Definition ptrue (st : unit) : Prop := True.

  Example pure_get_ok V : get_ok ptrue (pget V) (fun i => sden (V i)).
  Proof. intros i st _. cbn. split. exact I. intros v E. inversion E; subst. reflexivity. Qed.

  Example pure_has_ok V : has_ok ptrue (phas V) (fun i => sden (V i)).
  Proof.
    intros i st _ H. unfold phas in H. apply negb_false_iff in H. now apply is_zero_sden.
  Qed.
End Pure.

(* 2. a world over Z: two base series and their product, with its specification *)
Definition zid (x : Z) : Z := x.

Definition exA : index -> sval Z := fun i =>
  match i with [_; _; O] => SOne | [_; _; S O] => SVal 2%Z | _ => SZero end.
Definition exB : index -> sval Z := fun i =>
  match i with [_; _; O] => SVal 5%Z | [_; _; S O] => SVal (-1)%Z | _ => SZero end.

Definition ex_descs : list (sdesc Z) :=
  [SBase (mkHead (S O) (S O) (S O) (cons O nil)) (fun i => Ok (exA i)); SBase (mkHead (S O) (S O) (S O) (cons O nil)) (fun i => Ok (exB i));
   SProd (mkHead (S O) (S O) (S O) (cons O nil)) HNone O (S O)].

Definition ex_spec (s : sid) (i : index) : Z :=
  match s with
  | O => sden (exA i)
  | S O => sden (exB i)
  | _ => match i with
         | start :: end_ :: orders =>
             cauchy_sum (fun i => sden (exA i)) (fun i => sden (exB i)) (S O) start end_ orders
         | _ => Z0
         end
  end.

Example ex_base_ok : base_ok ex_descs ex_spec.
Proof.
  intros s h tbl D i v E. destruct s as [|[|[|s]]]; cbn in D;
    try (destruct s; discriminate); inversion D; subst; inversion E; subst; reflexivity.
Qed.

Example ex_prod_ok : prod_ok zid ex_descs ex_spec.
Proof.
  intros s h m a b D. destruct s as [|[|[|s]]]; cbn in D;
    try (destruct s; discriminate); inversion D; subst.
  split; [|split]; try discriminate. intros. reflexivity.
Qed.

(* 3. mutually adjoint factors exist: take any F1 and define F2 from it *)
Example mutual_adjoint_exists (F1 : index -> Z) :
  exists F2 : index -> Z, forall i k a, F2 (k :: i :: a) = zid (F1 (i :: k :: a)).
Proof.
  exists (fun idx => match idx with k :: i :: a => F1 (i :: k :: a) | _ => Z0 end).
  reflexivity.
Qed.

(* 4. a duplicate-free enumeration of all splittings exists (the canonical one) *)
Example paths_exist (mids : list nat) (n : mi) :
  NoDup (pathsR mids n) /\ forall ks ps, In (ks, ps) (pathsR mids n) <-> path_ok mids n ks ps.
Proof. split. apply NoDup_pathsR. intros. apply in_pathsR. Qed.
