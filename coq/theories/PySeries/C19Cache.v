(* PySeries/C19Cache.v

   The cache theorems of Cache.v instantiated for the BlockSeries model of GetItem.v:
   the evals of all series of the model (tables with call-backs, integer views, packed
   arrays, array views) act on the caches only through element requests, hence
   - any script of user requests keeps the counting invariant "evaluations <= removals + 1"
   - any request is a frame for the PENDING markers and the evaluated entries.
*)

Require Import List ZArith Arith Bool Lia RelationClasses.
Import ListNotations.
Require Import PV.PySeries.Sentinel PV.PySeries.Cache PV.PySeries.Index PV.PySeries.GetItem.

Set Implicit Arguments.

Section Respects.
  Variable X : Type.
  Variable xzero : X -> bool.
  Variable xdefault : X.

  Notation bv := (bval X).
  Notation bzero := (bzero xzero).

  Variable R : bworld X -> bworld X -> Prop.
  Hypothesis Rrefl : Reflexive R.
  Hypothesis Rtrans : Transitive R.

  Lemma eval_positions_respects (g : bcallback X) s ps :
    respects R g -> forall w, R w (snd (eval_positions g s ps w)).
  Proof.
    intros Hg. induction ps as [|p r IH]; intros w; cbn. reflexivity.
    pose proof (Hg s p w) as H1. destruct (g s p w) as [[v|x|] w1]; cbn in *; auto.
    pose proof (IH w1) as H2. destruct (eval_positions g s r w1) as [[l|x|] w2]; cbn in *;
      etransitivity; eauto.
  Qed.

  Lemma getitem_full_respects (g : bcallback X) hd s item :
    respects R g -> forall w, R w (snd (bs_getitem_full xdefault g hd s item w)).
  Proof.
    intros Hg w. unfold bs_getitem_full.
    destruct (existsb order_bad _); [reflexivity|].
    destruct (negb _); [reflexivity|].
    destruct (extents _); [|reflexivity].
    destruct (np_index _ _) as [[shp poss]|]; [|reflexivity].
    pose proof (eval_positions_respects s (sort_uniq poss) Hg w) as H.
    destruct (eval_positions g s (sort_uniq poss) w) as [[l|x|] w2]; cbn in *; auto.
  Qed.

  Lemma bs_eval_step (descs : list (bdesc X)) (g : bcallback X) :
    respects R g -> forall s i w, R w (snd (bs_eval xdefault descs s g i w)).
  Proof.
    intros Hg s i w. unfold bs_eval.
    destruct (nth_error descs s) as [[h tbl|h p item|h p item|h q]|]; [| | | |reflexivity].
    - destruct (tbl i); cbn; try reflexivity. apply Hg.
    - pose proof (getitem_full_respects (bhead_at descs p) p
                    (map IInt item ++ map (fun n => IInt (Z.of_nat n)) i) Hg w) as H.
      destruct (bs_getitem_full _ _ _ _ _ _) as [[[v|shp vals]|x|] w2]; cbn in *; auto.
    - pose proof (getitem_full_respects (bhead_at descs p) p (item ++ map order_slice i) Hg w) as H.
      destruct (bs_getitem_full _ _ _ _ _ _) as [[[v|shp vals]|x|] w2]; cbn in *; auto.
      destruct (elems_of vals); cbn; auto.
    - pose proof (Hg q (skipn (length i - bninf h) i) w) as H.
      destruct (g q _ w) as [[[x|shp xs]|x|] w2]; cbn in *; auto.
  Qed.
End Respects.

Section Inst.
  Variable X : Type.
  Variable xzero : X -> bool.
  Variable xdefault : X.

  Theorem bs_eval_respects (descs : list (bdesc X)) pops :
    eval_respects pops (bs_eval xdefault descs).
  Proof. intros R Rr Rt _ g Hg s i w. now apply bs_eval_step. Qed.

  Definition good (w : bworld X) : Prop := wf_world w /\ once_inv w.

  Lemma good_getitem descs fuel :
    respects (fun w w' => good w -> good w') (getitem (bs_eval xdefault descs) fuel).
  Proof.
    intros s i w [W I].
    destruct (getitem_once (@bs_eval_respects descs true) fuel s i W I). split; auto.
  Qed.

  (* any user request keeps the invariant *)
  Theorem bs_request_once fuel descs q w :
    good w ->
    let '(_, _, w') := bs_request xzero xdefault fuel descs q w in good w'.
  Proof.
    intros G. destruct q as [s item|s i|s i]; cbn [bs_request].
    - destruct (Nat.eqb _ _ && Nat.ltb _ _).
      + destruct (forallb is_int item); auto. destruct (np_index _ _) as [[vs ps]|]; auto.
      + pose proof (@getitem_full_respects X xdefault (fun w w' => good w -> good w')
                      (fun w H => H) (fun a b c H1 H2 H => H2 (H1 H))
                      (getitem (bs_eval xdefault descs) fuel) (bhead_at descs s) s item
                      (good_getitem descs fuel) w) as H.
        destruct (bs_getitem_full _ _ _ _ _ _) as [[[v|shp vals]|x|] w2]; cbn in *; auto.
    - exact G.
    - destruct G as [W I]. destruct (pop_once s i W I). cbn. split; auto.
  Qed.

  Theorem bs_script_once fuel : forall qs descs w,
    good w ->
    let '(_, _, w') := bs_script xzero xdefault fuel descs qs w in
    good w' /\ forall s i, n_evals s i w' <= n_removals s i w' + 1.
  Proof.
    induction qs as [|q rest IH]; intros descs w G; cbn [bs_script].
    - split; auto. intros. apply once_bound. apply G.
    - pose proof (bs_request_once fuel descs q G) as H.
      destruct (bs_request xzero xdefault fuel descs q w) as [[o d1] w1].
      specialize (IH d1 w1 H). destruct (bs_script xzero xdefault fuel d1 rest w1) as [[os d2] w2].
      exact IH.
  Qed.
End Inst.
