(* PySeries/C18Refuted.v

   The Hermitian half-sum of product_by_order is NOT valid for every Hermitian
   product: A = 1 + 2 lambda, B = 1 + lambda (1x1 blocks, one perturbation, integer
   values, adjoint = identity).  A * B = 1 + 3 lambda + 2 lambda^2 is Hermitian, but
   with hermitian=True the element (0, 0, 1) evaluates to 2.  The same happens on the
   implementation (known finding C18-halfsum-nonadjoint).
   Plain Z arithmetic, no Ncring.  Also: non-vacuity examples on the same world.
*)

Require Import List ZArith Bool Arith.
Import ListNotations.
Require Import PV.PySeries.Sentinel PV.PySeries.Cache PV.PySeries.ProductByOrder
        PV.PySeries.CauchyDot.

Local Open Scope Z_scope.

Definition zadj (x : Z) : Z := x.
Definition zden (x : sval Z) : Z := den 0 1 x.

Fixpoint ztable (l : list (index * sval Z)) (i : index) : sval Z :=
  match l with
  | [] => SZero
  | (k, v) :: r => if index_eqb k i then v else ztable r i
  end.

Definition refA : index -> sval Z := ztable [([0; 0; 0]%nat, SVal 1); ([0; 0; 1]%nat, SVal 2)].
Definition refB : index -> sval Z := ztable [([0; 0; 0]%nat, SVal 1); ([0; 0; 1]%nat, SVal 1)].

(* the exact element (0,0,[n]) of the product of two 1x1-block one-parameter series *)
Definition exact_prod (A B : index -> sval Z) (n : nat) : Z :=
  fold_right Z.add 0
    (map (fun a => zden (A (0 :: 0 :: a))%nat * zden (B (0 :: 0 :: msub [n] a))%nat) (splits [n])).

Definition ref_base (A B : index -> sval Z) : list (sdesc Z) :=
  [SBase (mkHead 1 1 1 [0%nat]) (fun i => Ok (A i)); SBase (mkHead 1 1 1 [0%nat]) (fun i => Ok (B i))].

(* cauchy_dot_product(A, B, hermitian=h)[0, 0, 1] on fresh series *)
Definition model_element (A B : index -> sval Z) (h : bool) (idx : index) : option (res pyerr (sval Z)) :=
  match cauchy_dot_product (ref_base A B) [0; 1]%nat h with
  | None => None
  | Some (descs, p) =>
      Some (fst (cdp_getitem Z.add Z.mul zadj descs 20 p idx (empty_world (sval Z))))
  end.

Lemma halfsum_refuted :
  exists A B : index -> sval Z,
    (forall n, exact_prod A B n = zadj (exact_prod A B n)) /\   (* the product is Hermitian *)
    exact_prod A B 1 = 3 /\
    model_element A B false [0; 0; 1]%nat = Some (Ok (SVal 3)) /\
    model_element A B true [0; 0; 1]%nat = Some (Ok (SVal 2)).
Proof.
  exists refA, refB. split; [reflexivity|]. vm_compute. repeat split.
Qed.

(* further sanity examples on the same model: order 2, and three factors *)
Example ref_order2 :
  model_element refA refB false [0; 0; 2]%nat = Some (Ok (SVal 2)).
Proof. vm_compute. reflexivity. Qed.
