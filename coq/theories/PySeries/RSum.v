(* PySeries/RSum.v

   Finite sums over lists in a (non-commutative) ring with setoid equality
   (Coq.setoid_ring.Ncring), and an additive anti-multiplicative involution `adj`
   given by section variables.  Used by the proofs about product_by_order and
   cauchy_dot_product.  Index arithmetic is kept out of this file (Ncring's
   notations capture + * 0 1); use Nat.add etc. if needed.
*)

Require Import Ncring Ncring_tac Setoid Morphisms List Permutation.
Import ListNotations.

Set Implicit Arguments.

Section BigSum.
  Context {T : Type} `{Rg : Ring T}.

  Fixpoint bigsum {A} (f : A -> T) (l : list A) : T :=
    match l with [] => 0 | a :: l' => f a + bigsum f l' end.

  Lemma bigsum_ext {A} (f g : A -> T) l :
    (forall a, In a l -> f a == g a) -> bigsum f l == bigsum g l.
  Proof.
    induction l as [|a l IH]; cbn [bigsum]; intros H. reflexivity.
    rewrite (H a), IH. reflexivity. intros; apply H; now right. now left.
  Qed.

  Lemma bigsum_app {A} (f : A -> T) l1 l2 :
    bigsum f (l1 ++ l2) == bigsum f l1 + bigsum f l2.
  Proof.
    induction l1 as [|a l IH]; cbn [bigsum app]. non_commutative_ring.
    rewrite IH. non_commutative_ring.
  Qed.

  Lemma bigsum_perm {A} (f : A -> T) l1 l2 :
    Permutation l1 l2 -> bigsum f l1 == bigsum f l2.
  Proof.
    induction 1; cbn [bigsum]. reflexivity. rewrite IHPermutation; reflexivity.
    non_commutative_ring. etransitivity; eauto.
  Qed.

  Lemma bigsum_mul_l {A} (f : A -> T) c l :
    c * bigsum f l == bigsum (fun a => c * f a) l.
  Proof.
    induction l; cbn [bigsum]. non_commutative_ring. rewrite <- IHl. non_commutative_ring.
  Qed.

  Lemma bigsum_mul_r {A} (f : A -> T) c l :
    bigsum f l * c == bigsum (fun a => f a * c) l.
  Proof.
    induction l; cbn [bigsum]. non_commutative_ring. rewrite <- IHl. non_commutative_ring.
  Qed.

  Lemma bigsum_add {A} (f g : A -> T) l :
    bigsum (fun a => f a + g a) l == bigsum f l + bigsum g l.
  Proof.
    induction l; cbn [bigsum]. non_commutative_ring. rewrite IHl. non_commutative_ring.
  Qed.

  Lemma bigsum_flat_map {A B} (f : B -> T) (g : A -> list B) l :
    bigsum f (flat_map g l) == bigsum (fun a => bigsum f (g a)) l.
  Proof.
    induction l; cbn [bigsum flat_map]. reflexivity. rewrite bigsum_app, IHl. reflexivity.
  Qed.

  Lemma bigsum_map {A B} (f : B -> T) (g : A -> B) l :
    bigsum f (map g l) == bigsum (fun a => f (g a)) l.
  Proof. induction l; cbn [bigsum map]. reflexivity. rewrite IHl. reflexivity. Qed.

  Lemma bigsum_zero {A} (f : A -> T) l :
    (forall a, In a l -> f a == 0) -> bigsum f l == 0.
  Proof.
    induction l; cbn [bigsum]; intros H. reflexivity. rewrite (H a), IHl. non_commutative_ring.
    intros; apply H; now right. now left.
  Qed.

  Lemma bigsum_filter_split {A} (p : A -> bool) (f : A -> T) l :
    bigsum f l == bigsum f (filter p l) + bigsum f (filter (fun a => negb (p a)) l).
  Proof.
    induction l as [|a l IH]; cbn [bigsum filter]. non_commutative_ring.
    destruct (p a); cbn [negb bigsum]; rewrite IH; non_commutative_ring.
  Qed.

  (* "the sum over all x with property P": any two duplicate-free enumerations of
     the same set give the same sum *)
  Lemma bigsum_same_set {A} (f : A -> T) l1 l2 :
    NoDup l1 -> NoDup l2 -> (forall a, In a l1 <-> In a l2) ->
    bigsum f l1 == bigsum f l2.
  Proof. intros. apply bigsum_perm. now apply NoDup_Permutation. Qed.

  Lemma add_zero_l (x : T) : 0 + x == x. Proof. non_commutative_ring. Qed.
  Lemma add_zero_r (x : T) : x + 0 == x. Proof. non_commutative_ring. Qed.
  Lemma mul_zero_l (x : T) : 0 * x == 0. Proof. non_commutative_ring. Qed.
  Lemma mul_zero_r (x : T) : x * 0 == 0. Proof. non_commutative_ring. Qed.
  Lemma mul_one_l (x : T) : 1 * x == x. Proof. non_commutative_ring. Qed.
  Lemma mul_one_r (x : T) : x * 1 == x. Proof. non_commutative_ring. Qed.
  Lemma add_assoc' (x y z : T) : (x + y) + z == x + (y + z). Proof. non_commutative_ring. Qed.

  (* the involution *)
  Section Star.
    Variable adj : T -> T.
    Hypothesis adj_proper : Proper (_==_ ==> _==_) adj.
    Hypothesis adj_add : forall x y, adj (x + y) == adj x + adj y.

    Lemma adj_zero : adj 0 == 0.
    Proof.
      assert (adj 0 == adj 0 + adj 0) as H.
      { rewrite <- adj_add. apply adj_proper. non_commutative_ring. }
      transitivity (adj 0 + adj 0 - adj 0).
      - non_commutative_ring.
      - rewrite <- H. non_commutative_ring.
    Qed.

    Lemma adj_bigsum {A} (f : A -> T) l : adj (bigsum f l) == bigsum (fun a => adj (f a)) l.
    Proof.
      induction l; cbn [bigsum]. apply adj_zero. rewrite adj_add, IHl. reflexivity.
    Qed.
  End Star.
End BigSum.
