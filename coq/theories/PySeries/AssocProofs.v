(* PySeries/AssocProofs.v

   The left-associated product of several factors, cdp(cdp(f0, f1), f2, ...), where
   each two-factor product is the Cauchy sum, equals the sum over ALL chains of
   intermediate block indices and ALL splittings of the multi-order into one part
   per factor, each taken exactly once.
*)

Require Import Ncring Ncring_tac Setoid Morphisms List Bool Permutation.
Import ListNotations.
Require Import PV.PySeries.Cache PV.PySeries.ProductByOrder PV.PySeries.MultiIndex
        PV.PySeries.RSum PV.PySeries.PBOProofs.

Set Implicit Arguments.

Section Assoc.
  Context {T : Type} `{Rg : Ring T}.

  Definition fac := nat -> nat -> mi -> T.       (* element (i, k, orders) of a factor *)

  (* the two-factor Cauchy product; mid = number of intermediate blocks *)
  Definition cprod (mid : nat) (f g : fac) : fac :=
    fun i j n =>
      bigsum (fun k => bigsum (fun ab => f i k (fst ab) * g k j (snd ab)) (splits2 n)) (seq 0 mid).

  (* same thing as the sum computed by product_by_order (PBOProofs.cauchy_sum) *)
  Lemma cprod_cauchy_sum mid (f g : fac) i j n :
    cprod mid f g i j n
    == cauchy_sum (fun idx => match idx with a :: b :: o => f a b o | _ => 0 end)
                  (fun idx => match idx with a :: b :: o => g a b o | _ => 0 end)
                  mid i j n.
  Proof.
    unfold cprod, cauchy_sum. apply bigsum_ext. intros k _. unfold splits2.
    rewrite bigsum_map. reflexivity.
  Qed.

  (* cdp(...cdp(cdp(f0, g1), g2)..., gm): `rest` lists (mid_l, g_l) in order *)
  Definition lprod (f0 : fac) (rest : list (nat * fac)) : fac :=
    fold_left (fun acc mg => cprod (fst mg) acc (snd mg)) rest f0.

  (* the same with the list of later factors reversed (last factor first) *)
  Fixpoint lprodR (f0 : fac) (rr : list (nat * fac)) : fac :=
    match rr with
    | [] => f0
    | mg :: r => cprod (fst mg) (lprodR f0 r) (snd mg)
    end.

  Lemma lprod_lprodR f0 rest : lprod f0 rest = lprodR f0 (rev rest).
  Proof.
    unfold lprod. revert f0. induction rest as [|mg rest IH]; intros f0; cbn; auto.
    rewrite IH. clear IH. generalize (rev rest). intros l. induction l as [|x l IHl]; cbn; auto.
    now rewrite IHl.
  Qed.

  (* one term: f0(i,k1,p0) * g1(k1,k2,p1) * ... * gm(km,j,pm); lists reversed *)
  Fixpoint termR (f0 : fac) (rr : list (nat * fac)) (i j : nat) (ks : list nat) (ps : list mi) : T :=
    match rr, ks, ps with
    | [], _, p :: _ => f0 i j p
    | mg :: r, k :: ks', b :: ps' => termR f0 r i k ks' ps' * snd mg k j b
    | _, _, _ => 0
    end.

  Lemma lprodR_paths f0 rr : forall i j n,
    lprodR f0 rr i j n
    == bigsum (fun kp => termR f0 rr i j (fst kp) (snd kp)) (pathsR (map fst rr) n).
  Proof.
    induction rr as [|[m g] r IH]; intros i j n; cbn [lprodR pathsR map fst snd].
    - cbn. symmetry. apply add_zero_r.
    - unfold cprod. rewrite bigsum_flat_map. apply bigsum_ext. intros k _.
      rewrite bigsum_flat_map. apply bigsum_ext. intros [a b] _. cbn [fst snd].
      rewrite bigsum_map. rewrite IH, bigsum_mul_r. apply bigsum_ext. intros [ks ps] _.
      cbn [fst snd termR]. reflexivity.
  Qed.

  (* Full statement: for ANY duplicate-free list L that enumerates exactly the valid
     (block chain, splitting) pairs, the left-associated product is the sum over L. *)
  Theorem lprod_all_splittings f0 rest i j n (L : list (list nat * list mi)) :
    NoDup L ->
    (forall ks ps, In (ks, ps) L <-> path_ok (map fst (rev rest)) n ks ps) ->
    lprod f0 rest i j n
    == bigsum (fun kp => termR f0 (rev rest) i j (fst kp) (snd kp)) L.
  Proof.
    intros ND HL. rewrite lprod_lprodR, lprodR_paths.
    apply bigsum_same_set; auto. apply NoDup_pathsR.
    intros [ks ps]. rewrite HL. apply in_pathsR.
  Qed.

End Assoc.
