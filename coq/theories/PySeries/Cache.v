(* PySeries/Cache.v

   Model of the element cache of `BlockSeries` (pymablock/series.py):

     - `__getitem__` for ONE fully-integer, already normalised index
       (the body of the `for index in ...` loop, lines 185-201):

           if index not in data:
               data[index] = PENDING
               try:
                   data[index] = self.eval( *index)
               except RuntimeError as error:
                   data.pop(index, None)
                   raise RuntimeError("Failed to evaluate ...") from error
               except BaseException:
                   data.pop(index, None)
                   raise
           if data[index] is PENDING:
               raise RuntimeError("Infinite recursion loop detected ...")
           trial[index] = data[index]

     - `__contains__`  :  `self._data.get(item) is not zero`
                          (an ABSENT key and a PENDING key both count as contained)
     - `pop`           :  `self._data.pop(item, default)`

   Self-contained, standard library only.  Several series live in one `world`
   (series identifier -> cache) because the `eval` of one series usually requests
   elements of other series (or of itself: recursion).  `eval` is a function

        eval : sid -> callback -> index -> world -> res V * world

   that receives, as `callback`, the `__getitem__` of the whole world with less
   fuel (open recursion); fuel bounds the nesting depth of evaluations and the
   out-of-fuel outcome is the distinguished result `OutOfFuel`.

   The world also carries a ghost log of events (calls of `eval`, removals of
   keys) used to state "evaluated at most once while cached".

   Section variables:
     V       stored values (for series.py: `sval R` of Sentinel.v)
     E       tags of exception classes other than IndexError / RuntimeError
     vzero   the test `v is zero` on stored values
*)

Require Import List Arith Bool Lia Relations RelationClasses.
Import ListNotations.

Set Implicit Arguments.

Definition index := list nat.
Definition sid := nat.

Definition index_eqb (a b : index) : bool :=
  if list_eq_dec Nat.eq_dec a b then true else false.

Lemma index_eqb_eq a b : index_eqb a b = true <-> a = b.
Proof. unfold index_eqb. destruct (list_eq_dec Nat.eq_dec a b); split; congruence. Qed.

Lemma index_eqb_refl a : index_eqb a a = true.
Proof. now apply index_eqb_eq. Qed.

Lemma index_eqb_neq a b : index_eqb a b = false <-> a <> b.
Proof. unfold index_eqb. destruct (list_eq_dec Nat.eq_dec a b); split; congruence. Qed.

(* Exceptions and results. *)
Inductive exn (E : Type) : Type :=
| IndexError : exn E
| RuntimeError : exn E
| Other : E -> exn E.
Arguments IndexError {E}.
Arguments RuntimeError {E}.
Arguments Other {E} _.

Inductive res (E A : Type) : Type :=
| Ok : A -> res E A
| Raise : exn E -> res E A
| OutOfFuel : res E A.
Arguments Ok {E A} _.
Arguments Raise {E A} _.
Arguments OutOfFuel {E A}.

Section Cache.
  Variables (V E : Type).
  Variable vzero : V -> bool.

  Inductive entry : Type :=
  | Pending : entry            (* the PENDING marker *)
  | Done : V -> entry.         (* an evaluated element *)

  (* A Python dict as an association list without repeated keys (insertion order). *)
  Definition cache := list (index * entry).

  Fixpoint lookup (c : cache) (i : index) : option entry :=
    match c with
    | [] => None
    | (k, e) :: r => if index_eqb k i then Some e else lookup r i
    end.

  (* data[i] = e *)
  Fixpoint store (c : cache) (i : index) (e : entry) : cache :=
    match c with
    | [] => [(i, e)]
    | (k, e0) :: r => if index_eqb k i then (k, e) :: r else (k, e0) :: store r i e
    end.

  (* data.pop(i, None) *)
  Fixpoint remove (c : cache) (i : index) : cache :=
    match c with
    | [] => []
    | (k, e0) :: r => if index_eqb k i then r else (k, e0) :: remove r i
    end.

  Definition keys (c : cache) : list index := map fst c.

  (* `item in series`  =  `series._data.get(item) is not zero` *)
  Definition contains (c : cache) (i : index) : bool :=
    match lookup c i with
    | Some (Done v) => negb (vzero v)
    | Some Pending => true
    | None => true
    end.

  Lemma lookup_store_eq c i e : lookup (store c i e) i = Some e.
  Proof.
    induction c as [|[k e0] r IH]; cbn.
    - now rewrite index_eqb_refl.
    - destruct (index_eqb k i) eqn:K; cbn; rewrite K; auto.
  Qed.

  Lemma lookup_store_neq c i j e : i <> j -> lookup (store c i e) j = lookup c j.
  Proof.
    intros N. induction c as [|[k e0] r IH]; cbn.
    - apply index_eqb_neq in N. now rewrite N.
    - destruct (index_eqb k i) eqn:K; cbn.
      + apply index_eqb_eq in K. subst k.
        apply index_eqb_neq in N. now rewrite N.
      + destruct (index_eqb k j); auto.
  Qed.

  (* keys are unique: needed for `remove` to delete the key altogether *)
  Definition wf_cache (c : cache) : Prop := NoDup (keys c).

  Lemma lookup_none_notin c i : lookup c i = None <-> ~ In i (keys c).
  Proof.
    induction c as [|[k e0] r IH]; cbn.
    - tauto.
    - destruct (index_eqb k i) eqn:K.
      + apply index_eqb_eq in K. subst. split; [discriminate | intros H; exfalso; auto].
      + apply index_eqb_neq in K. rewrite IH. tauto.
  Qed.

  Lemma keys_store_in c i e : In i (keys c) -> keys (store c i e) = keys c.
  Proof.
    induction c as [|[k e0] r IH]; cbn; [tauto|].
    destruct (index_eqb k i) eqn:K; cbn; auto.
    apply index_eqb_neq in K. intros [H|H]; [congruence|]. f_equal. now apply IH.
  Qed.

  Lemma keys_store_notin c i e : ~ In i (keys c) -> keys (store c i e) = keys c ++ [i].
  Proof.
    induction c as [|[k e0] r IH]; cbn; auto.
    destruct (index_eqb k i) eqn:K; cbn.
    - apply index_eqb_eq in K. subst. tauto.
    - intros H. f_equal. apply IH. tauto.
  Qed.

  Lemma wf_store c i e : wf_cache c -> wf_cache (store c i e).
  Proof.
    unfold wf_cache. intros W.
    destruct (in_dec (list_eq_dec Nat.eq_dec) i (keys c)) as [I|I].
    - now rewrite keys_store_in.
    - rewrite keys_store_notin by auto.
      apply NoDup_rev in W. rewrite <- (rev_involutive (keys c ++ [i])).
      apply NoDup_rev. rewrite rev_app_distr. cbn. constructor; auto.
      now rewrite <- in_rev.
  Qed.

  Lemma in_keys_remove c i j : In j (keys (remove c i)) -> In j (keys c).
  Proof.
    induction c as [|[k e0] r IH]; cbn; auto.
    destruct (index_eqb k i); cbn; tauto.
  Qed.

  Lemma wf_remove c i : wf_cache c -> wf_cache (remove c i).
  Proof.
    unfold wf_cache. induction c as [|[k e0] r IH]; cbn; auto.
    intros W. inversion W; subst.
    destruct (index_eqb k i); cbn; auto.
    constructor; auto. intros H. apply in_keys_remove in H. auto.
  Qed.

  Lemma lookup_remove_eq c i : wf_cache c -> lookup (remove c i) i = None.
  Proof.
    unfold wf_cache. induction c as [|[k e0] r IH]; cbn; auto.
    intros W. inversion W; subst.
    destruct (index_eqb k i) eqn:K; cbn.
    - apply index_eqb_eq in K. subst. now apply lookup_none_notin.
    - rewrite K. auto.
  Qed.

  Lemma lookup_remove_neq c i j : i <> j -> lookup (remove c i) j = lookup c j.
  Proof.
    intros N. induction c as [|[k e0] r IH]; cbn; auto.
    destruct (index_eqb k i) eqn:K; cbn.
    - apply index_eqb_eq in K. subst k.
      apply index_eqb_neq in N. now rewrite N.
    - destruct (index_eqb k j); auto.
  Qed.

  (* -------------------------------------------------------------------- *)
  (* The world: one cache per series, and the ghost event log. *)

  Inductive event : Type :=
  | EvEval (s : sid) (i : index)       (* `self.eval( *index)` is called on series s *)
  | EvRemove (s : sid) (i : index).    (* key i leaves the cache of s (pop or clean-up) *)

  Record world : Type := mkWorld { wcache : sid -> cache; wlog : list event }.

  Definition empty_world : world := mkWorld (fun _ => []) [].

  Definition set_cache (s : sid) (c : cache) (w : world) : world :=
    mkWorld (fun s' => if Nat.eqb s' s then c else wcache w s') (wlog w).

  Definition log_event (e : event) (w : world) : world :=
    mkWorld (wcache w) (wlog w ++ [e]).

  Definition wlookup (w : world) (s : sid) (i : index) : option entry :=
    lookup (wcache w s) i.

  Definition set_entry (s : sid) (i : index) (e : entry) (w : world) : world :=
    set_cache s (store (wcache w s) i e) w.

  (* data.pop(index, None): removes the key if present (and then logs the removal) *)
  Definition drop_entry (s : sid) (i : index) (w : world) : world :=
    match wlookup w s i with
    | None => w
    | Some _ => log_event (EvRemove s i) (set_cache s (remove (wcache w s) i) w)
    end.

  (* BlockSeries.pop(item, default): None stands for `default` *)
  Definition pop (s : sid) (i : index) (w : world) : option entry * world :=
    (wlookup w s i, drop_entry s i w).

  (* BlockSeries.__contains__ *)
  Definition wcontains (w : world) (s : sid) (i : index) : bool :=
    contains (wcache w s) i.

  Definition wf_world (w : world) : Prop := forall s, wf_cache (wcache w s).

  Definition result := res E V.
  Definition callback := sid -> index -> world -> result * world.
  Definition evalT := sid -> callback -> index -> world -> result * world.

  Variable eval : evalT.

  (* __getitem__ of series s at the single integer index i *)
  Fixpoint getitem (fuel : nat) (s : sid) (i : index) (w : world) : result * world :=
    match fuel with
    | O => (OutOfFuel, w)
    | S f =>
        match wlookup w s i with
        | Some (Done v) => (Ok v, w)                      (* cached *)
        | Some Pending => (Raise RuntimeError, w)         (* Infinite recursion loop detected *)
        | None =>
            let w1 := log_event (EvEval s i) (set_entry s i Pending w) in
            match eval s (getitem f) i w1 with
            | (Ok v, w2) => (Ok v, set_entry s i (Done v) w2)
            | (Raise RuntimeError, w2) =>                 (* except RuntimeError: pop; raise RuntimeError *)
                (Raise RuntimeError, drop_entry s i w2)
            | (Raise x, w2) =>                            (* except BaseException: pop; raise *)
                (Raise x, drop_entry s i w2)
            | (OutOfFuel, w2) =>                          (* modelling artefact: cleaned up like an exception *)
                (OutOfFuel, drop_entry s i w2)
            end
        end
    end.

  (* -------------------------------------------------------------------- *)
  (* World-level lookup lemmas. *)

  Lemma wlookup_set_entry_eq s i e w : wlookup (set_entry s i e w) s i = Some e.
  Proof. unfold wlookup, set_entry; cbn. rewrite Nat.eqb_refl. apply lookup_store_eq. Qed.

  Lemma wlookup_set_entry_neq s i e w s' i' :
    (s', i') <> (s, i) -> wlookup (set_entry s i e w) s' i' = wlookup w s' i'.
  Proof.
    intros N. unfold wlookup, set_entry; cbn.
    destruct (Nat.eqb s' s) eqn:S; auto.
    apply Nat.eqb_eq in S. subst. apply lookup_store_neq. congruence.
  Qed.

  Lemma wlookup_log e w s i : wlookup (log_event e w) s i = wlookup w s i.
  Proof. reflexivity. Qed.

  Lemma wlookup_drop_eq s i w : wf_world w -> wlookup (drop_entry s i w) s i = None.
  Proof.
    intros W. unfold drop_entry. destruct (wlookup w s i) eqn:L; auto.
    unfold wlookup; cbn. rewrite Nat.eqb_refl. apply lookup_remove_eq. apply W.
  Qed.

  Lemma wlookup_drop_neq s i w s' i' :
    (s', i') <> (s, i) -> wlookup (drop_entry s i w) s' i' = wlookup w s' i'.
  Proof.
    intros N. unfold drop_entry. destruct (wlookup w s i) eqn:L; auto.
    unfold wlookup; cbn. destruct (Nat.eqb s' s) eqn:S; auto.
    apply Nat.eqb_eq in S. subst. apply lookup_remove_neq. congruence.
  Qed.

  Lemma wf_set_entry s i e w : wf_world w -> wf_world (set_entry s i e w).
  Proof.
    intros W s'. unfold set_entry; cbn. destruct (Nat.eqb s' s) eqn:S; auto.
    apply Nat.eqb_eq in S. subst. apply wf_store, W.
  Qed.

  Lemma wf_log e w : wf_world w -> wf_world (log_event e w).
  Proof. intros W s. apply W. Qed.

  Lemma wf_drop s i w : wf_world w -> wf_world (drop_entry s i w).
  Proof.
    intros W. unfold drop_entry. destruct (wlookup w s i); auto.
    intros s'. cbn. destruct (Nat.eqb s' s) eqn:S; auto.
    apply Nat.eqb_eq in S. subst. apply wf_remove, W.
  Qed.

  Lemma pair_neq_dec (s s' : sid) (i i' : index) : {(s', i') = (s, i)} + {(s', i') <> (s, i)}.
  Proof.
    destruct (Nat.eq_dec s' s); [|right; congruence].
    destruct (list_eq_dec Nat.eq_dec i' i); [left|right]; congruence.
  Qed.

  (* -------------------------------------------------------------------- *)
  (* What `eval` may do.  An `eval` is a Python function: it can act on the caches
     only by requesting elements (the callback), and - if `pops` - by `pop`.
     Formally: every preorder on worlds that is respected by those primitives is
     respected by eval (a parametricity statement, provable for each concrete
     eval; see `table_eval_respects` below and CauchyDot.v). *)

  Definition respects (R : world -> world -> Prop) (g : callback) : Prop :=
    forall s i w, R w (snd (g s i w)).

  Definition eval_respects (pops : bool) (ev : evalT) : Prop :=
    forall R : world -> world -> Prop,
      Reflexive R -> Transitive R ->
      (pops = true -> forall s i w, R w (snd (pop s i w))) ->
      forall g, respects R g -> forall s i w, R w (snd (ev s g i w)).

  (* Generic preservation: getitem respects every preorder that is respected by
     its own three cache updates. *)
  Lemma getitem_respects (pops : bool) (R : world -> world -> Prop) :
    Reflexive R -> Transitive R ->
    eval_respects pops eval ->
    (pops = true -> forall s i w, R w (snd (pop s i w))) ->
    (* the bracket  PENDING ... store/remove  as a whole respects R *)
    (forall s i w w2 v,
        wlookup w s i = None ->
        R (log_event (EvEval s i) (set_entry s i Pending w)) w2 ->
        R w (set_entry s i (Done v) w2)) ->
    (forall s i w w2,
        wlookup w s i = None ->
        R (log_event (EvEval s i) (set_entry s i Pending w)) w2 ->
        R w (drop_entry s i w2)) ->
    forall fuel, respects R (getitem fuel).
  Proof.
    intros Rr Rt He Hp Hok Hex. induction fuel as [|f IH]; intros s i w; cbn.
    - reflexivity.
    - destruct (wlookup w s i) as [[|v]|] eqn:L; cbn; try reflexivity.
      pose proof (He R Rr Rt Hp (getitem f) IH s i
                     (log_event (EvEval s i) (set_entry s i Pending w))) as H.
      destruct (eval s (getitem f) i _) as [[v|x|] w2]; cbn in *.
      + now apply Hok.
      + destruct x; cbn; now apply Hex.
      + now apply Hex.
  Qed.

  (* -------------------------------------------------------------------- *)
  (* C19_once, part 1: a cached element is returned without any effect
     (in particular without an eval call: the event log is unchanged). *)

  Theorem getitem_hit fuel s i w v :
    wlookup w s i = Some (Done v) -> getitem (S fuel) s i w = (Ok v, w).
  Proof. intros L. cbn. now rewrite L. Qed.

  (* C19_recursion, core: a request for an element whose evaluation is in progress
     raises RuntimeError at once (fuel 1 suffices, the world is untouched). *)
  Theorem getitem_pending fuel s i w :
    wlookup w s i = Some Pending -> getitem (S fuel) s i w = (Raise RuntimeError, w).
  Proof. intros L. cbn. now rewrite L. Qed.

  (* eval is called by getitem only for an absent key, and with the key PENDING *)
  Theorem getitem_miss fuel s i w :
    wlookup w s i = None ->
    let w1 := log_event (EvEval s i) (set_entry s i Pending w) in
    wlookup w1 s i = Some Pending /\
    getitem (S fuel) s i w =
      match eval s (getitem fuel) i w1 with
      | (Ok v, w2) => (Ok v, set_entry s i (Done v) w2)
      | (Raise x, w2) => (Raise x, drop_entry s i w2)
      | (OutOfFuel, w2) => (OutOfFuel, drop_entry s i w2)
      end.
  Proof.
    intros L w1. split.
    - unfold w1. rewrite wlookup_log. apply wlookup_set_entry_eq.
    - cbn. rewrite L. fold w1.
      destruct (eval s (getitem fuel) i w1) as [[v|x|] w2]; auto. destruct x; auto.
  Qed.

  (* -------------------------------------------------------------------- *)
  (* C19_once, part 2: counting.  For every element, the number of eval calls is
     at most the number of removals of its key, plus one if the key is present. *)

  Definition ev_is_eval (s : sid) (i : index) (e : event) : bool :=
    match e with EvEval s' i' => Nat.eqb s' s && index_eqb i' i | _ => false end.
  Definition ev_is_remove (s : sid) (i : index) (e : event) : bool :=
    match e with EvRemove s' i' => Nat.eqb s' s && index_eqb i' i | _ => false end.
  Definition n_evals (s : sid) (i : index) (w : world) : nat :=
    length (filter (ev_is_eval s i) (wlog w)).
  Definition n_removals (s : sid) (i : index) (w : world) : nat :=
    length (filter (ev_is_remove s i) (wlog w)).
  Definition present (w : world) (s : sid) (i : index) : nat :=
    match wlookup w s i with None => 0 | Some _ => 1 end.

  Definition once_inv (w : world) : Prop :=
    forall s i, n_evals s i w <= n_removals s i w + present w s i.

  Lemma filter_snoc {A} (p : A -> bool) l a :
    filter p (l ++ [a]) = filter p l ++ (if p a then [a] else []).
  Proof. rewrite filter_app. reflexivity. Qed.

  Lemma same_pair_true s i s' i' :
    Nat.eqb s s' && index_eqb i i' = true <-> (s, i) = (s', i').
  Proof.
    rewrite andb_true_iff, Nat.eqb_eq, index_eqb_eq. split.
    - intros [-> ->]. reflexivity.
    - intros H; inversion H; auto.
  Qed.

  Lemma n_evals_log_eval s i w s' i' :
    n_evals s' i' (log_event (EvEval s i) w) =
    n_evals s' i' w + (if Nat.eqb s s' && index_eqb i i' then 1 else 0).
  Proof.
    unfold n_evals; cbn. rewrite filter_snoc, app_length. cbn.
    destruct (Nat.eqb s s' && index_eqb i i'); reflexivity.
  Qed.
  Lemma n_removals_log_eval s i w s' i' :
    n_removals s' i' (log_event (EvEval s i) w) = n_removals s' i' w.
  Proof. unfold n_removals; cbn. rewrite filter_snoc, app_length. cbn. lia. Qed.
  Lemma n_evals_log_remove s i w s' i' :
    n_evals s' i' (log_event (EvRemove s i) w) = n_evals s' i' w.
  Proof. unfold n_evals; cbn. rewrite filter_snoc, app_length. cbn. lia. Qed.
  Lemma n_removals_log_remove s i w s' i' :
    n_removals s' i' (log_event (EvRemove s i) w) =
    n_removals s' i' w + (if Nat.eqb s s' && index_eqb i i' then 1 else 0).
  Proof.
    unfold n_removals; cbn. rewrite filter_snoc, app_length. cbn.
    destruct (Nat.eqb s s' && index_eqb i i'); reflexivity.
  Qed.

  Lemma n_evals_set_entry s i e w s' i' : n_evals s' i' (set_entry s i e w) = n_evals s' i' w.
  Proof. reflexivity. Qed.
  Lemma n_removals_set_entry s i e w s' i' :
    n_removals s' i' (set_entry s i e w) = n_removals s' i' w.
  Proof. reflexivity. Qed.

  Lemma present_set_entry_eq s i e w : present (set_entry s i e w) s i = 1.
  Proof. unfold present. now rewrite wlookup_set_entry_eq. Qed.
  Lemma present_set_entry_neq s i e w s' i' :
    (s', i') <> (s, i) -> present (set_entry s i e w) s' i' = present w s' i'.
  Proof. intros N. unfold present. now rewrite wlookup_set_entry_neq. Qed.
  Lemma present_le1 w s i : present w s i <= 1.
  Proof. unfold present. destruct (wlookup w s i); lia. Qed.

  Lemma once_inv_drop s i w : wf_world w -> once_inv w -> once_inv (drop_entry s i w).
  Proof.
    intros W I s' i'. specialize (I s' i').
    unfold drop_entry. destruct (wlookup w s i) eqn:L; auto.
    rewrite n_evals_log_remove, n_removals_log_remove.
    change (n_evals s' i' (set_cache s (remove (wcache w s) i) w)) with (n_evals s' i' w).
    change (n_removals s' i' (set_cache s (remove (wcache w s) i) w)) with (n_removals s' i' w).
    destruct (pair_neq_dec s s' i i') as [P|P].
    - inversion P; subst. rewrite (proj2 (same_pair_true s i s i)) by reflexivity.
      pose proof (present_le1 w s i). lia.
    - assert (Nat.eqb s s' && index_eqb i i' = false) as ->.
      { destruct (Nat.eqb s s' && index_eqb i i') eqn:B; auto.
        apply same_pair_true in B. congruence. }
      assert (present (log_event (EvRemove s i) (set_cache s (remove (wcache w s) i) w)) s' i'
              = present w s' i') as ->.
      { unfold present. rewrite wlookup_log.
        pose proof (wlookup_drop_neq w P) as H. unfold drop_entry in H. rewrite L in H.
        rewrite wlookup_log in H. now rewrite H. }
      lia.
  Qed.

  Lemma once_inv_set_entry s i e w : once_inv w -> once_inv (set_entry s i e w).
  Proof.
    intros I s' i'. specialize (I s' i').
    rewrite n_evals_set_entry, n_removals_set_entry.
    destruct (pair_neq_dec s s' i i') as [P|P].
    - inversion P; subst. rewrite present_set_entry_eq. pose proof (present_le1 w s i). lia.
    - now rewrite present_set_entry_neq.
  Qed.

  Lemma once_inv_start s i w :
    wlookup w s i = None -> once_inv w ->
    once_inv (log_event (EvEval s i) (set_entry s i Pending w)).
  Proof.
    intros L I s' i'. specialize (I s' i').
    rewrite n_evals_log_eval, n_removals_log_eval, n_evals_set_entry, n_removals_set_entry.
    unfold present at 1. rewrite wlookup_log. fold (present (set_entry s i Pending w) s' i').
    destruct (pair_neq_dec s s' i i') as [P|P].
    - inversion P; subst. rewrite (proj2 (same_pair_true s i s i)) by reflexivity.
      rewrite present_set_entry_eq. unfold present in I. rewrite L in I. lia.
    - assert (Nat.eqb s s' && index_eqb i i' = false) as ->.
      { destruct (Nat.eqb s s' && index_eqb i i') eqn:B; auto.
        apply same_pair_true in B. congruence. }
      rewrite present_set_entry_neq by auto. lia.
  Qed.

  (* The preorder used: "well-formedness and the counting invariant are kept". *)
  Definition keeps_once (w w' : world) : Prop :=
    wf_world w /\ once_inv w -> wf_world w' /\ once_inv w'.

  Theorem getitem_once (pops : bool) :
    eval_respects pops eval ->
    forall fuel s i w,
      wf_world w -> once_inv w ->
      let w' := snd (getitem fuel s i w) in
      wf_world w' /\ once_inv w'.
  Proof.
    intros He fuel s i w W I.
    assert (respects keeps_once (getitem fuel)) as H.
    { apply (@getitem_respects pops keeps_once); auto.
      - intros x; unfold keeps_once; tauto.
      - intros x y z; unfold keeps_once; tauto.
      - intros _ s0 i0 w0 [W0 I0]. cbn. split; [now apply wf_drop | now apply once_inv_drop].
      - intros s0 i0 w0 w2 v L H [W0 I0].
        destruct H as [W2 I2].
        { split. apply wf_log, wf_set_entry, W0. now apply once_inv_start. }
        split; [now apply wf_set_entry | now apply once_inv_set_entry].
      - intros s0 i0 w0 w2 L H [W0 I0].
        destruct H as [W2 I2].
        { split. apply wf_log, wf_set_entry, W0. now apply once_inv_start. }
        split; [now apply wf_drop | now apply once_inv_drop]. }
    apply H. auto.
  Qed.

  Lemma pop_once s i w :
    wf_world w -> once_inv w ->
    wf_world (snd (pop s i w)) /\ once_inv (snd (pop s i w)).
  Proof. intros W I. cbn. split; [now apply wf_drop | now apply once_inv_drop]. Qed.

  Lemma once_inv_empty_log c : once_inv (mkWorld c []).
  Proof. intros s i. unfold n_evals; cbn. lia. Qed.

  Corollary once_bound w s i : once_inv w -> n_evals s i w <= n_removals s i w + 1.
  Proof. intros I. specialize (I s i). pose proof (present_le1 w s i). lia. Qed.

  (* -------------------------------------------------------------------- *)
  (* C19_exn_cleanup: frame property.  If evals act on the caches only through
     element requests (pops = false) then whatever the outcome of a request
     (value, any exception, out of fuel)
       - the set of PENDING keys is the same before and after,
       - every evaluated entry present before is unchanged,
     and after a Raise the requested key itself is as before. *)

  Definition frame (w w' : world) : Prop :=
    wf_world w ->
    wf_world w' /\
    (forall s i, wlookup w' s i = Some Pending <-> wlookup w s i = Some Pending) /\
    (forall s i v, wlookup w s i = Some (Done v) -> wlookup w' s i = Some (Done v)).

  Lemma frame_refl : Reflexive frame.
  Proof. intros w W. repeat split; auto; tauto. Qed.

  Lemma frame_trans : Transitive frame.
  Proof.
    intros a b c H1 H2 W. destruct (H1 W) as (Wb & P1 & D1). destruct (H2 Wb) as (Wc & P2 & D2).
    repeat split; auto.
    - intros H. apply P1, P2, H.
    - intros H. apply P2, P1, H.
  Qed.

  Lemma frame_bracket_ok s i w w2 v :
    wlookup w s i = None ->
    frame (log_event (EvEval s i) (set_entry s i Pending w)) w2 ->
    frame w (set_entry s i (Done v) w2).
  Proof.
    intros L H W. destruct H as (W2 & P & D). { apply wf_log, wf_set_entry, W. }
    split; [now apply wf_set_entry|]. split.
    - intros s' i'. destruct (pair_neq_dec s s' i i') as [Q|Q].
      + inversion Q; subst. rewrite wlookup_set_entry_eq, L. split; discriminate.
      + rewrite wlookup_set_entry_neq by auto. rewrite P, wlookup_log.
        now rewrite wlookup_set_entry_neq.
    - intros s' i' v' L'. destruct (pair_neq_dec s s' i i') as [Q|Q].
      + inversion Q; subst. congruence.
      + rewrite wlookup_set_entry_neq by auto. apply D. rewrite wlookup_log.
        now rewrite wlookup_set_entry_neq.
  Qed.

  Lemma frame_bracket_exn s i w w2 :
    wlookup w s i = None ->
    frame (log_event (EvEval s i) (set_entry s i Pending w)) w2 ->
    frame w (drop_entry s i w2).
  Proof.
    intros L H W. destruct H as (W2 & P & D). { apply wf_log, wf_set_entry, W. }
    split; [now apply wf_drop|]. split.
    - intros s' i'. destruct (pair_neq_dec s s' i i') as [Q|Q].
      + inversion Q; subst. rewrite wlookup_drop_eq, L by auto. split; discriminate.
      + rewrite wlookup_drop_neq by auto. rewrite P, wlookup_log.
        now rewrite wlookup_set_entry_neq.
    - intros s' i' v' L'. destruct (pair_neq_dec s s' i i') as [Q|Q].
      + inversion Q; subst. congruence.
      + rewrite wlookup_drop_neq by auto. apply D. rewrite wlookup_log.
        now rewrite wlookup_set_entry_neq.
  Qed.

  Theorem getitem_frame :
    eval_respects false eval -> forall fuel, respects frame (getitem fuel).
  Proof.
    intros He fuel.
    apply (@getitem_respects false frame frame_refl frame_trans He).
    - discriminate.
    - intros. eapply frame_bracket_ok; eauto.
    - intros. eapply frame_bracket_exn; eauto.
  Qed.

  (* after a Raise (or out of fuel) the requested key is exactly as before *)
  Theorem getitem_raise_key fuel s i w :
    wf_world w -> eval_respects false eval ->
    (forall v, fst (getitem fuel s i w) <> Ok v) ->
    wlookup (snd (getitem fuel s i w)) s i = wlookup w s i.
  Proof.
    intros W He N. destruct fuel as [|f]; cbn in *; auto.
    destruct (wlookup w s i) as [[|v]|] eqn:L; cbn in *; auto.
    pose proof (He frame frame_refl frame_trans (fun H => False_ind _ (diff_false_true H))
                  (getitem f) (getitem_frame He f) s i
                  (log_event (EvEval s i) (set_entry s i Pending w))) as H.
    destruct H as (W2 & _). { apply wf_log, wf_set_entry, W. }
    destruct (eval s (getitem f) i _) as [[v|x|] w2]; cbn in *.
    - exfalso. eapply N. reflexivity.
    - destruct x; cbn; now apply wlookup_drop_eq.
    - now apply wlookup_drop_eq.
  Qed.

  (* RuntimeError raised inside eval comes out as RuntimeError (re-raised), other
     exceptions come out unchanged; both after removing the PENDING key. *)
  Theorem getitem_exn_arms fuel s i w x w2 :
    wlookup w s i = None ->
    eval s (getitem fuel) i (log_event (EvEval s i) (set_entry s i Pending w)) = (Raise x, w2) ->
    getitem (S fuel) s i w = (Raise x, drop_entry s i w2).
  Proof. intros L H. cbn. rewrite L, H. destruct x; reflexivity. Qed.

  (* C19_recursion: an eval that (first thing) requests its own element. *)
  Theorem getitem_self_reference fuel s i w :
    wf_world w ->
    wlookup w s i = None ->
    (forall g w1, eval s g i w1 = g s i w1) ->
    fst (getitem (S (S fuel)) s i w) = Raise RuntimeError /\
    wlookup (snd (getitem (S (S fuel)) s i w)) s i = None.
  Proof.
    intros W L Hself.
    assert (eval s (getitem (S fuel)) i (log_event (EvEval s i) (set_entry s i Pending w))
            = (Raise RuntimeError, log_event (EvEval s i) (set_entry s i Pending w))) as H.
    { rewrite Hself. apply getitem_pending. rewrite wlookup_log. apply wlookup_set_entry_eq. }
    rewrite (@getitem_exn_arms (S fuel) s i w _ _ L H). cbn [fst snd]. split; auto.
    apply wlookup_drop_eq. apply wf_log, wf_set_entry, W.
  Qed.

  (* -------------------------------------------------------------------- *)
  (* Scripts of user-level requests (used by the correspondence harnesses). *)

  Inductive request : Type :=
  | RGet (s : sid) (i : index)       (* series[i] for a normalised integer index *)
  | RHas (s : sid) (i : index)       (* i in series *)
  | RPop (s : sid) (i : index).      (* series.pop(i, default) *)

  Inductive observation : Type :=
  | OGet (r : result)
  | OHas (b : bool)
  | OPop (e : option entry).

  Definition run_request (fuel : nat) (q : request) (w : world) : observation * world :=
    match q with
    | RGet s i => let (r, w') := getitem fuel s i w in (OGet r, w')
    | RHas s i => (OHas (wcontains w s i), w)
    | RPop s i => let (e, w') := pop s i w in (OPop e, w')
    end.

  Fixpoint run_script (fuel : nat) (qs : list request) (w : world) : list observation * world :=
    match qs with
    | [] => ([], w)
    | q :: rest =>
        let (o, w1) := run_request fuel q w in
        let (os, w2) := run_script fuel rest w1 in
        (o :: os, w2)
    end.

  (* the eval calls recorded in the log, in order *)
  Definition eval_calls (w : world) : list (sid * index) :=
    flat_map (fun e => match e with EvEval s i => [(s, i)] | EvRemove _ _ => [] end) (wlog w).

End Cache.

Arguments Pending {V}.
Arguments Done {V} _.
Arguments OGet {V E} r.
Arguments OHas {V E} b.
Arguments OPop {V E} e.

(* ---------------------------------------------------------------------- *)
(* A concrete, non-trivial eval that satisfies `eval_respects`: series 0 is given
   by a table, the element n of series 1 requests element n of series 0 and then
   its own element n-1 (for n = 0 its own element 0: self reference). *)

Section Example.
  Definition ex_eval : evalT nat unit :=
    fun s g i w =>
      match s with
      | 0 => (Ok (match i with [n] => 10 + n | _ => 0 end), w)
      | _ =>
          match g 0 i w with
          | (Ok a, w1) =>
              match i with
              | [S n] => match g 1 [n] w1 with
                         | (Ok b, w2) => (Ok (a + b), w2)
                         | other => other
                         end
              | _ => g 1 i w1
              end
          | other => other
          end
      end.

  Lemma ex_eval_respects pops : eval_respects pops ex_eval.
  Proof.
    intros R Rr Rt _ g Hg s i w. unfold ex_eval.
    destruct s as [|s]; cbn; [reflexivity|].
    pose proof (Hg 0 i w) as H0.
    destruct (g 0 i w) as [[a| |] w1]; cbn in *; auto.
    destruct i as [|[|n] [|? ?]]; try (etransitivity; [exact H0 | apply Hg]).
    pose proof (Hg 1 [n] w1) as H1.
    destruct (g 1 [n] w1) as [[b| |] w2]; cbn in *; etransitivity; eauto.
  Qed.

  Definition ex_zero (v : nat) : bool := Nat.eqb v 0.

  (* element [2] of series 1 needs [2],[1],[0] of series 0 and then hits its own
     element [0], whose definition is self-referential: RuntimeError, and no key of
     series 1 stays behind, while the evaluated keys of series 0 stay cached *)
  Example ex_run :
    let r := getitem ex_eval 10 1 [2] (empty_world nat) in
    fst r = Raise RuntimeError /\
    keys (wcache (snd r) 1) = [] /\
    keys (wcache (snd r) 0) = [[2]; [1]; [0]].
  Proof. vm_compute. repeat split. Qed.
End Example.
